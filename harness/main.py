"""./check entry point."""
import argparse, importlib, os, sys, traceback
from harness import core

ALL = ["C%02d" % i for i in range(1, 21)]

def load(pid):
    mod = importlib.import_module("harness.props." + pid.lower())
    return mod.CHECK()

def claimed():
    import json
    try:
        m = json.load(open(os.path.join(core.ROOT, "MANIFEST.json")))
        return [c["property_id"] for c in m.get("checks", [])]
    except Exception:
        return ALL

def setup():
    """Regenerate Gen/, build the model + proof cone of every claimed property (full .vo), build every driver."""
    problems = core.gate()
    if problems:
        print("gate:", problems); return 2
    mods, checks, targets = [], [], []
    for pid in claimed():
        try:
            c = load(pid)
        except ModuleNotFoundError:
            continue
        checks.append(c)
        mods += [m for m in c.gen_modules if m not in mods]
        targets += list(c.model_targets) + [c.prop_file[:-2] + ".vo"]
    with core.CoqLock():
        rc, out = core.regen(mods)
        print("py2v rc", rc, out[-300:])
        core.ensure_makefile()
        ok, out = core.coq_make(targets, timeout=3000)
        print(out[-1500:])
        if not ok:
            print("setup: coq build failed"); return 2
        for c in checks:
            if c.extract_v:
                exe, err = core.build_driver(c.pid, c.extract_v, c.driver_ml)
                print("driver", c.pid, exe or err[-500:])
                if exe is None:
                    return 2
    return 0

def main():
    ap = argparse.ArgumentParser()
    ap.add_argument("pid", nargs="?")
    ap.add_argument("--tier", default=os.environ.get("VERIF_TIER", "quick"))
    ap.add_argument("--replay")
    ap.add_argument("--setup", action="store_true")
    a = ap.parse_args()
    if a.setup:
        sys.exit(setup())
    seed = int(os.environ.get("VERIF_SEED", "0") or 0)
    try:
        c = load(a.pid.upper())
        if a.replay:
            sys.exit(c.replay(a.replay))
        sys.exit(c.run(a.tier, seed))
    except core.MachineryError as e:
        print("MACHINERY-ERROR:", e); sys.exit(2)
    except Exception:
        traceback.print_exc(); print("MACHINERY-ERROR: unexpected exception"); sys.exit(2)

if __name__ == "__main__":
    main()
