"""C13 - every event loop honours the alarm / file-watch / idle / exception contract.

Part 1 (theorem-backed + exact correspondence): SelectEventLoop and ZMQEventLoop under a VIRTUAL
environment installed from outside (the names `time` and `selectors` / `zmq` of the loop module are
replaced by scripted objects): deterministic, nothing ever blocks.
Part 2 (oracle only): asyncio / tornado / twisted / trio / zmq(real poller) / select(real selector)
on the real runtimes, one scenario per subprocess with a hard timeout (extra_checks).
"""
import itertools
import json
import os
import selectors as real_selectors
import signal
import subprocess
import sys
import types
import warnings

from harness import core

warnings.simplefilter("ignore")

ACT = {"nop": 0, "alarm": 1, "rm_alarm": 2, "watch": 3, "rm_watch": 4, "idle": 5, "rm_idle": 6, "sleep": 7,
       "exit": 8, "boom": 9}
OUTCOMES = ["returned", "raised", "env_end", "blocked", "spin", "key_error"]
FLAVOUR = {"select": 0, "zmq": 1}


class EnvEnd(BaseException):
    """the environment script is exhausted (never caught by the loops)"""


class Blocked(BaseException):
    """select() without timeout while nothing registered is readable"""


class Spin(BaseException):
    """_loop() did nothing at all: run() would spin for ever"""


class Watchdog(BaseException):
    pass


class Boom(Exception):
    """the 'other' exception raised by callbacks"""


def tick(x):
    """virtual times are integer valued floats; anything else is shown as text so that it differs"""
    if isinstance(x, bool) or x is None:
        return x
    if isinstance(x, (int, float)) and x == int(x):
        return int(x)
    return "frac:" + repr(x)


class VEnv:
    """virtual clock + scripted readiness (the meaning of an environment step is documented in
    Model/SelectLoop.v, do_select)"""

    def __init__(self, steps):
        self.now = 0.0
        self.steps = [(max(0, dt), list(fds)) for dt, fds in steps]
        self.pos = 0
        self.trace = []
        self.nselect = 0

    def time(self):
        return self.now

    def sleep(self, d):        # time.sleep (ZMQ loop only)
        self.now += d

    def select(self, timeout, regs):
        """regs: ordered list of registered fds.  Returns the list of ready fds (in step order)."""
        self.nselect += 1
        t_before = self.now
        if self.pos >= len(self.steps):
            self.trace.append(["select", tick(timeout), list(regs), tick(t_before), []])
            raise EnvEnd()
        dt, fds = self.steps[self.pos]
        self.pos += 1
        ready = [fd for fd in fds if fd in regs]
        self.trace.append(["select", tick(timeout), list(regs), tick(t_before), list(ready)])
        if not ready:
            if timeout is None:
                raise Blocked()
            self.now += timeout + dt
            return []
        self.now += dt if timeout is None else min(dt, timeout)
        return ready


def make_fake_selector(env):
    class FakeSel:
        def __init__(self):
            self.reg = {}

        def __enter__(self):
            return self

        def __exit__(self, *a):
            return False

        def register(self, fd, events, data=None):
            self.reg[fd] = real_selectors.SelectorKey(fd, fd, events, data)

        def select(self, timeout=None):
            ready = env.select(timeout, list(self.reg))
            return [(self.reg[fd], real_selectors.EVENT_READ) for fd in ready]

        def close(self):
            pass
    return FakeSel


class CB:
    """a callback with an identity; what it does comes from the behaviour table of the case"""
    __slots__ = ("runner", "kind", "key", "id")

    def __init__(self, runner, kind, key, id_):
        self.runner, self.kind, self.key, self.id = runner, kind, key, id_

    def __call__(self):
        r = self.runner
        n = r.calls.get(self.id, 0)
        r.calls[self.id] = n + 1
        r.env.trace.append([self.kind + "_call", self.key, self.id, tick(r.env.now)])
        for entry in r.case["beh"]:
            if entry[0] == self.id and (entry[1] == -1 or entry[1] == n):
                r.do_actions(entry[2])
                break


class Runner:
    """drives one loop object through a case (setup actions, run()) inside the virtual environment"""

    def __init__(self, case, env, loop, tie_base=0, file_handles=False):
        self.case, self.env, self.loop = case, env, loop
        self.calls = {}
        self.handles = []          # alarm handles in creation order
        self.tie_base = tie_base
        self.file_handles = file_handles
        self.files = {}            # zmq: fd -> object returned by watch_file

    def do_actions(self, acts):
        loop, tr = self.loop, self.env.trace
        for a in acts:
            k = a[0]
            if k == "nop":
                pass
            elif k == "alarm":
                cb = CB(self, "alarm", len(self.handles), a[2])
                h = loop.alarm(float(a[1]), cb)
                self.handles.append(h)
                tr.append(["alarm_set", h[1] - self.tie_base, tick(h[0]), a[2]])
            elif k == "rm_alarm":
                h = self.handles[a[1]] if 0 <= a[1] < len(self.handles) else (0.0, -1, None)
                tr.append(["rm_alarm", a[1], bool(loop.remove_alarm(h))])
            elif k == "watch":
                cb = CB(self, "watch", a[1], a[2])
                if self.file_handles:
                    f = FakeFile(a[1])
                    self.files.setdefault(a[1], []).append(loop.watch_file(f, cb))
                else:
                    r = loop.watch_file(a[1], cb)
                    if r != a[1]:
                        tr.append(["watch_handle_differs", repr(r)])
                tr.append(["watch_set", a[1], a[2]])
            elif k == "rm_watch":
                if self.file_handles:
                    fs = self.files.get(a[1])
                    f = fs[-1] if fs else FakeFile(a[1])
                    tr.append(["rm_watch", a[1], bool(loop.remove_watch_file(f))])
                else:
                    tr.append(["rm_watch", a[1], bool(loop.remove_watch_file(a[1]))])
            elif k == "idle":
                cb = CB(self, "idle", None, a[1])
                h = loop.enter_idle(cb)
                cb.key = h
                tr.append(["idle_set", h, a[1]])
            elif k == "rm_idle":
                tr.append(["rm_idle", a[1], bool(loop.remove_enter_idle(a[1]))])
            elif k == "sleep":
                self.env.now += max(0, a[1])
            elif k == "exit":
                from urwid import ExitMainLoop
                tr.append(["raise", True])
                raise ExitMainLoop()
            elif k == "boom":
                tr.append(["raise", False])
                raise Boom()
            else:
                raise core.MachineryError("unknown action %r" % (a,))

    def run(self):
        loop, env = self.loop, self.env
        orig = loop._loop
        budget = [len(env.steps) + 8]

        def guarded():
            before = (env.nselect, len(env.trace))
            budget[0] -= 1
            if budget[0] < 0:
                raise core.MachineryError("virtual run exceeded its iteration budget")
            orig()
            if (env.nselect, len(env.trace)) == before:
                raise Spin()
        loop._loop = guarded       # instance attribute: run() calls self._loop()

        def on_alarm(*a):
            raise Watchdog()
        old = signal.signal(signal.SIGALRM, on_alarm)
        signal.setitimer(signal.ITIMER_REAL, 10.0)
        try:
            try:
                loop.run()
                return "returned"
            except Boom:
                return "raised"
            except EnvEnd:
                return "env_end"
            except Blocked:
                return "blocked"
            except Spin:
                return "spin"
            except KeyError:
                return "key_error"
            except Watchdog:
                raise core.MachineryError("virtual run hit the 10 s watchdog: %s" % core.canon(self.case)[:300])
        finally:
            signal.setitimer(signal.ITIMER_REAL, 0)
            signal.signal(signal.SIGALRM, old)


class FakeFile:
    def __init__(self, fd):
        self.fd = fd

    def fileno(self):
        return self.fd


def run_select_virtual(case):
    from urwid.event_loop import select_loop
    env = VEnv(case["env"])
    saved = (select_loop.time, select_loop.selectors)
    select_loop.time = types.SimpleNamespace(time=env.time)
    select_loop.selectors = types.SimpleNamespace(DefaultSelector=make_fake_selector(env),
                                                  EVENT_READ=real_selectors.EVENT_READ)
    try:
        loop = select_loop.SelectEventLoop()
        loop.logger.disabled = True
        r = Runner(case, env, loop)
        try:
            r.do_actions(case["setup"])
        except (Boom, Exception) as e:     # setup never raises in generated cases
            raise core.MachineryError("setup raised %r" % (e,))
        outcome = r.run()
        return {
            "outcome": outcome,
            "did": bool(loop._did_something),
            "now": tick(env.now),
            "alarms": [[tick(a[0]), a[1], a[2].id] for a in sorted(loop._alarms, key=lambda a: a[:2])],
            "watch": [[fd, cb.id] for fd, cb in loop._watch_files.items()],
            "idles": [[h, cb.id] for h, cb in loop._idle_callbacks.items()],
            "trace": env.trace,
        }
    finally:
        select_loop.time, select_loop.selectors = saved


# ---------------- wire format ----------------
def enc_action(a):
    k = a[0]
    return [ACT[k], a[1] if len(a) > 1 else 0, a[2] if len(a) > 2 else 0]


def encode_case(case):
    l = [FLAVOUR[case["loop"]], len(case["setup"])]
    for a in case["setup"]:
        l += enc_action(a)
    l.append(len(case["beh"]))
    for id_, when, acts in case["beh"]:
        l += [id_, when, len(acts)]
        for a in acts:
            l += enc_action(a)
    l.append(len(case["env"]))
    for dt, fds in case["env"]:
        l += [dt, len(fds)] + list(fds)
    return l


def decode_result(ints):
    it = iter(ints)

    def lst():
        n = next(it)
        return [next(it) for _ in range(n)]

    def oz():
        return None if next(it) == 0 else next(it)
    try:
        oc = next(it)
        if oc < 0:
            return {"malformed": ints[:20]}
        out = {"outcome": OUTCOMES[oc], "did": bool(next(it)), "now": next(it)}
        fl = lst()
        out["alarms"] = [fl[i:i + 3] for i in range(0, len(fl), 3)]
        fl = lst()
        out["watch"] = [fl[i:i + 2] for i in range(0, len(fl), 2)]
        fl = lst()
        out["idles"] = [fl[i:i + 2] for i in range(0, len(fl), 2)]
        n = next(it)
        tr = []
        for _ in range(n):
            t = next(it)
            if t == 1:
                tr.append(["alarm_set", next(it), next(it), next(it)])
            elif t == 2:
                tr.append(["rm_alarm", next(it), bool(next(it))])
            elif t == 3:
                tr.append(["watch_set", next(it), next(it)])
            elif t == 4:
                tr.append(["rm_watch", next(it), bool(next(it))])
            elif t == 5:
                tr.append(["idle_set", next(it), next(it)])
            elif t == 6:
                tr.append(["rm_idle", next(it), bool(next(it))])
            elif t == 7:
                to = oz()
                regs = lst()
                now = next(it)
                tr.append(["select", to, regs, now, lst()])
            elif t == 8:
                tr.append(["alarm_call", next(it), next(it), next(it)])
            elif t == 9:
                tr.append(["watch_call", next(it), next(it), next(it)])
            elif t == 10:
                tr.append(["idle_call", next(it), next(it), next(it)])
            elif t == 11:
                tr.append(["raise", bool(next(it))])
            else:
                return {"malformed": ints[:20]}
        out["trace"] = tr
        return out
    except StopIteration:
        return {"malformed": ints[:20]}
