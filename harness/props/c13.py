"""C13 - every event loop honours the alarm / file-watch / idle / exception contract.

Part 1 (theorem-backed + exact correspondence): SelectEventLoop and ZMQEventLoop under a VIRTUAL
environment installed from outside (the names `time` and `selectors` / `zmq` of the loop module are
replaced by scripted objects): deterministic, nothing ever blocks.
Part 2 (oracle only): asyncio / tornado / twisted / trio / zmq(real poller) / select(real selector)
on the real runtimes, one scenario per subprocess with a hard timeout (extra_checks).
"""
import itertools
import json
import os
import selectors as real_selectors
import signal
import subprocess
import sys
import types
import warnings

from harness import core

warnings.simplefilter("ignore")

ACT = {"nop": 0, "alarm": 1, "rm_alarm": 2, "watch": 3, "rm_watch": 4, "idle": 5, "rm_idle": 6, "sleep": 7,
       "exit": 8, "boom": 9}
OUTCOMES = ["returned", "raised", "env_end", "blocked", "spin", "key_error"]
FLAVOUR = {"select": 0, "zmq": 1, "asyncio": 2, "tornado": 3}


class EnvEnd(BaseException):
    """the environment script is exhausted (never caught by the loops)"""


class Blocked(BaseException):
    """select() without timeout while nothing registered is readable"""


class Spin(BaseException):
    """_loop() did nothing at all: run() would spin for ever"""


class Watchdog(BaseException):
    pass


class Boom(Exception):
    """the 'other' exception raised by callbacks"""


class BaseBoom(BaseException):
    """an 'other' exception that derives from BaseException but not from Exception (like
    KeyboardInterrupt, GeneratorExit or asyncio.CancelledError, but not special-cased by any runtime)"""


def tick(x):
    """virtual times are integer valued floats; anything else is shown as text so that it differs"""
    if isinstance(x, bool) or x is None:
        return x
    if isinstance(x, (int, float)) and x == int(x):
        return int(x)
    return "frac:" + repr(x)


class VEnv:
    """virtual clock + scripted readiness (the meaning of an environment step is documented in
    Model/SelectLoop.v, do_select)"""

    def __init__(self, steps):
        self.now = 0.0
        self.steps = [(max(0, dt), list(fds)) for dt, fds in steps]
        self.pos = 0
        self.trace = []
        self.nselect = 0

    def time(self):
        return self.now

    def sleep(self, d):        # time.sleep (ZMQ loop only)
        self.now += d

    def select(self, timeout, regs):
        """regs: ordered list of registered fds.  Returns the list of ready fds (in step order)."""
        self.nselect += 1
        t_before = self.now
        if self.pos >= len(self.steps):
            self.trace.append(["select", tick(timeout), list(regs), tick(t_before), []])
            raise EnvEnd()
        dt, fds = self.steps[self.pos]
        self.pos += 1
        ready = [fd for fd in fds if fd in regs]
        self.trace.append(["select", tick(timeout), list(regs), tick(t_before), list(ready)])
        if not ready:
            if timeout is None:
                raise Blocked()
            self.now += timeout + dt
            return []
        self.now += dt if timeout is None else min(dt, timeout)
        return ready


def make_fake_selector(env):
    class FakeSel:
        def __init__(self):
            self.reg = {}

        def __enter__(self):
            return self

        def __exit__(self, *a):
            return False

        def register(self, fd, events, data=None):
            self.reg[fd] = real_selectors.SelectorKey(fd, fd, events, data)

        def select(self, timeout=None):
            ready = env.select(timeout, list(self.reg))
            return [(self.reg[fd], real_selectors.EVENT_READ) for fd in ready]

        def close(self):
            pass
    return FakeSel


class CB:
    """a callback with an identity; what it does comes from the behaviour table of the case"""
    __slots__ = ("runner", "kind", "key", "id")

    def __init__(self, runner, kind, key, id_):
        self.runner, self.kind, self.key, self.id = runner, kind, key, id_

    def __call__(self):
        r = self.runner
        n = r.calls.get(self.id, 0)
        r.calls[self.id] = n + 1
        r.env.trace.append([self.kind + "_call", self.key, self.id, tick(r.env.now)])
        for entry in r.case["beh"]:
            if entry[0] == self.id and (entry[1] == -1 or entry[1] == n):
                r.do_actions(entry[2])
                break


class Runner:
    """drives one loop object through a case (setup actions, run()) inside the virtual environment"""

    def __init__(self, case, env, loop, tie_base=0, file_handles=False, timer_handles=False, fd_offset=0,
                 watch_handles=False):
        self.watch_handles = watch_handles    # tornado: watch_file returns a handle; one live handle per descriptor
        self.live = {}
        self.case, self.env, self.loop = case, env, loop
        self.timer_handles = timer_handles    # adapters: alarm handles are host timer objects
        self.fd_offset = fd_offset            # adapters: virtual descriptor numbers are shifted away from real ones
        self.calls = {}
        self.handles = []          # alarm handles in creation order
        self.tie_base = tie_base
        self.file_handles = file_handles
        self.files = {}            # zmq: fd -> object returned by watch_file

    def do_actions(self, acts):
        loop, tr = self.loop, self.env.trace
        for a in acts:
            k = a[0]
            if k == "nop":
                pass
            elif k == "alarm":
                cb = CB(self, "alarm", len(self.handles), a[2])
                h = loop.alarm(float(a[1]), cb)
                self.handles.append(h)
                if self.timer_handles:
                    tr.append(["alarm_set", len(self.handles) - 1, tick(h.when()), a[2]])
                else:
                    tr.append(["alarm_set", h[1] - self.tie_base, tick(h[0]), a[2]])
            elif k == "rm_alarm":
                if self.timer_handles and not 0 <= a[1] < len(self.handles):
                    tr.append(["rm_alarm", a[1], False])      # no such handle object: nothing to call
                    continue
                h = self.handles[a[1]] if 0 <= a[1] < len(self.handles) else (0.0, -1, None)
                tr.append(["rm_alarm", a[1], bool(loop.remove_alarm(h))])
            elif k == "watch":
                cb = CB(self, "watch", a[1], a[2])
                if self.watch_handles:
                    if a[1] in self.live:
                        continue          # tornado raises ValueError for a second handler on one descriptor: not issued
                    self.live[a[1]] = loop.watch_file(a[1] + self.fd_offset, cb)
                elif self.file_handles:
                    f = FakeFile(a[1])
                    self.files.setdefault(a[1], []).append(loop.watch_file(f, cb))
                else:
                    r = loop.watch_file(a[1] + self.fd_offset, cb)
                    if r != a[1] + self.fd_offset:
                        tr.append(["watch_handle_differs", repr(r)])
                tr.append(["watch_set", a[1], a[2]])
            elif k == "rm_watch":
                if self.watch_handles:
                    h = self.live.pop(a[1], None)
                    tr.append(["rm_watch", a[1], bool(loop.remove_watch_file(-1 if h is None else h))])
                elif self.file_handles:
                    fs = self.files.get(a[1])
                    f = fs[-1] if fs else FakeFile(a[1])
                    tr.append(["rm_watch", a[1], bool(loop.remove_watch_file(f))])
                else:
                    tr.append(["rm_watch", a[1], bool(loop.remove_watch_file(a[1] + self.fd_offset))])
            elif k == "idle":
                cb = CB(self, "idle", None, a[1])
                h = loop.enter_idle(cb)
                cb.key = h
                tr.append(["idle_set", h, a[1]])
            elif k == "rm_idle":
                tr.append(["rm_idle", a[1], bool(loop.remove_enter_idle(a[1]))])
            elif k == "sleep":
                self.env.now += max(0, a[1])
            elif k == "exit":
                from urwid import ExitMainLoop
                tr.append(["raise", True])
                raise ExitMainLoop()
            elif k == "boom":
                tr.append(["raise", False])
                raise (BaseBoom() if self.case.get("base") else Boom())
            else:
                raise core.MachineryError("unknown action %r" % (a,))

    def run(self, guard=True):
        loop, env = self.loop, self.env
        orig = loop._loop if guard else None
        budget = [len(env.steps) + 8]

        def guarded():
            before = (env.nselect, len(env.trace))
            budget[0] -= 1
            if budget[0] < 0:
                raise core.MachineryError("virtual run exceeded its iteration budget")
            orig()
            if (env.nselect, len(env.trace)) == before:
                raise Spin()
        if guard:
            loop._loop = guarded       # instance attribute: run() calls self._loop()

        def on_alarm(*a):
            raise Watchdog()
        old = signal.signal(signal.SIGALRM, on_alarm)
        signal.setitimer(signal.ITIMER_REAL, 10.0)
        try:
            try:
                loop.run()
                return "returned"
            except (Boom, BaseBoom):
                return "raised"
            except EnvEnd:
                return "env_end"
            except Blocked:
                return "blocked"
            except Spin:
                return "spin"
            except KeyError:
                return "key_error"
            except core.MachineryError:
                raise
            except Exception as e:      # the loop died of something no callback raised
                return "error:" + type(e).__name__
            except Watchdog:
                raise core.MachineryError("virtual run hit the 10 s watchdog: %s" % core.canon(self.case)[:300])
        finally:
            signal.setitimer(signal.ITIMER_REAL, 0)
            signal.signal(signal.SIGALRM, old)


class FakeFile:
    def __init__(self, fd):
        self.fd = fd

    def fileno(self):
        return self.fd


def run_select_virtual(case):
    from urwid.event_loop import select_loop
    env = VEnv(case["env"])
    saved = (select_loop.time, select_loop.selectors)
    select_loop.time = types.SimpleNamespace(time=env.time)
    select_loop.selectors = types.SimpleNamespace(DefaultSelector=make_fake_selector(env),
                                                  EVENT_READ=real_selectors.EVENT_READ)
    try:
        loop = select_loop.SelectEventLoop()
        loop.logger.disabled = True
        r = Runner(case, env, loop)
        try:
            r.do_actions(case["setup"])
        except (Boom, Exception) as e:     # setup never raises in generated cases
            raise core.MachineryError("setup raised %r" % (e,))
        outcome = r.run()
        return {
            "outcome": outcome,
            "did": bool(loop._did_something),
            "now": tick(env.now),
            "alarms": [[tick(a[0]), a[1], a[2].id] for a in sorted(loop._alarms, key=lambda a: a[:2])],
            "watch": [[fd, cb.id] for fd, cb in loop._watch_files.items()],
            "idles": [[h, cb.id] for h, cb in loop._idle_callbacks.items()],
            "trace": env.trace,
        }
    finally:
        select_loop.time, select_loop.selectors = saved


def run_zmq_virtual(case):
    import zmq as real_zmq
    from urwid.event_loop import zmq_loop
    env = VEnv(case["env"])

    class FakePoller:
        """zmq.Poller over the virtual environment: objects are registered by identity, poll()
        reports filenos"""

        def __init__(self):
            self.sockets = []

        def register(self, obj, flags=real_zmq.POLLIN):
            for i, (o, _f) in enumerate(self.sockets):
                if o is obj:
                    self.sockets[i] = (obj, flags)
                    return
            self.sockets.append((obj, flags))

        def unregister(self, obj):
            for i, (o, _f) in enumerate(self.sockets):
                if o is obj:
                    del self.sockets[i]
                    return
            raise KeyError(obj)

        def poll(self, timeout=None):
            regs = [o.fileno() for o, _f in self.sockets]
            if timeout is None and not regs:
                raise Spin()        # the real poll() returns at once: run() spins for ever
            ready = env.select(None if timeout is None else timeout / 1000, regs)
            return [(fd, real_zmq.POLLIN) for fd in ready]

    class ZmqProxy:
        Poller = FakePoller

        def __getattr__(self, name):
            return getattr(real_zmq, name)

    saved = (zmq_loop.time, zmq_loop.zmq)
    zmq_loop.time = types.SimpleNamespace(time=env.time, sleep=lambda d: env.select(d, []))
    zmq_loop.zmq = ZmqProxy()
    try:
        base = next(zmq_loop.ZMQEventLoop._alarm_break) + 1
        loop = zmq_loop.ZMQEventLoop()
        loop.logger.disabled = True
        r = Runner(case, env, loop, tie_base=base, file_handles=True)
        try:
            r.do_actions(case["setup"])
        except Exception as e:
            raise core.MachineryError("setup raised %r" % (e,))
        outcome = r.run()
        return {
            "outcome": outcome,
            "did": bool(loop._did_something),
            "now": tick(env.now),
            "alarms": [[tick(a[0]), a[1] - base, a[2].id] for a in sorted(loop._alarms, key=lambda a: a[:2])],
            "watch": [[fd, cb.id] for fd, cb in loop._queue_callbacks.items()],
            "idles": [[h, cb.id] for h, cb in loop._idle_callbacks.items()],
            "trace": env.trace,
            "psock": [o.fileno() for o, _f in loop._poller.sockets],
        }
    finally:
        zmq_loop.time, zmq_loop.zmq = saved


def run_asyncio_virtual(case):
    """AsyncioEventLoop on a real asyncio.SelectorEventLoop whose clock and selector are the virtual
    environment: every _run_once iteration polls the scripted selector; nothing blocks"""
    import urwid
    env = VEnv(case["env"])
    aloop, sel, OFF = make_virtual_asyncio(env)
    try:
        loop = urwid.AsyncioEventLoop(loop=aloop)
        loop.logger.disabled = True
        r = Runner(case, env, loop, timer_handles=True, fd_offset=OFF)
        try:
            r.do_actions(case["setup"])
        except Exception as e:
            raise core.MachineryError("setup raised %r" % (e,))
        outcome = r.run(guard=False)
        watch = []
        for fd, key in sel.get_map().items():
            if fd >= OFF and key.data[0] is not None:
                cb = key.data[0]._callback
                watch.append([fd - OFF, getattr(cb, "__wrapped__", cb).id])
        return {
            "outcome": outcome,
            "did": loop._exc is not None,
            "now": tick(env.now),
            "alarms": [],
            "watch": watch,
            "idles": [[h, cb.id] for h, cb in loop._idle_callbacks.items()],
            "trace": env.trace,
            # expected verdict of the model's host-specification checker (the model reports what it found)
            "host_ok": True,
        }
    finally:
        aloop.close()


def find_cb(obj, depth=0):
    """the CB object buried in the wrappers urwid puts around a callback (functools.wraps / closures)"""
    if isinstance(obj, CB):
        return obj
    if depth > 6:
        return None
    for nxt in [getattr(obj, "__wrapped__", None)] + [c.cell_contents for c in (getattr(obj, "__closure__", None) or ())]:
        if nxt is not None and (callable(nxt) or isinstance(nxt, CB)):
            r = find_cb(nxt, depth + 1)
            if r is not None:
                return r
    return None


def run_tornado_virtual(case):
    """TornadoEventLoop on a real tornado AsyncIOLoop over the virtual asyncio loop (virtual clock for both)"""
    import urwid
    from tornado.platform.asyncio import AsyncIOLoop
    env = VEnv(case["env"])
    aloop, sel, OFF = make_virtual_asyncio(env)

    class VIOLoop(AsyncIOLoop):
        def time(self):
            return env.now
    io = VIOLoop(asyncio_loop=aloop, make_current=False)
    try:
        loop = urwid.TornadoEventLoop(loop=io)
        loop.logger.disabled = True
        r = Runner(case, env, loop, timer_handles=True, fd_offset=OFF, watch_handles=True)
        try:
            r.do_actions(case["setup"])
        except Exception as e:
            raise core.MachineryError("setup raised %r" % (e,))
        outcome = r.run(guard=False)
        watch = []
        for fd in sel.get_map():
            if fd >= OFF and fd in io.handlers:
                cb = find_cb(io.handlers[fd][1])
                watch.append([fd - OFF, cb.id if cb is not None else -1])
        pend = sorted(i for i, h in enumerate(r.handles) if h in loop._pending_alarms)
        return {
            "outcome": outcome,
            "did": loop._exc is not None,
            "now": tick(env.now),
            "alarms": [[k, 0, 0] for k in pend],
            "watch": watch,
            "idles": [[h, cb.id] for h, cb in loop._idle_callbacks.items()],
            "trace": env.trace,
            "host_ok": True,
        }
    finally:
        try:
            io.close()
        except Exception:
            aloop.close()


def make_virtual_asyncio(env):
    """a real asyncio.SelectorEventLoop whose clock and selector are the virtual environment"""
    import asyncio
    OFF = 1000           # virtual descriptors live at 1000+fd: the loop's self-pipe uses real small numbers

    class FakeSelector(real_selectors.BaseSelector):
        def __init__(self):
            self._m = {}

        @staticmethod
        def _fd(fileobj):
            return fileobj if isinstance(fileobj, int) else fileobj.fileno()

        def register(self, fileobj, events, data=None):
            fd = self._fd(fileobj)
            if fd in self._m:
                raise KeyError(fd)
            self._m[fd] = real_selectors.SelectorKey(fileobj, fd, events, data)
            return self._m[fd]

        def unregister(self, fileobj):
            return self._m.pop(self._fd(fileobj))

        def modify(self, fileobj, events, data=None):
            fd = self._fd(fileobj)
            if fd not in self._m:
                raise KeyError(fd)
            self._m[fd] = real_selectors.SelectorKey(fileobj, fd, events, data)
            return self._m[fd]

        def get_key(self, fileobj):
            return self._m[self._fd(fileobj)]

        def get_map(self):
            return self._m

        def select(self, timeout=None):
            regs = [fd - OFF for fd in self._m if fd >= OFF]
            ready = env.select(timeout, regs)
            return [(self._m[fd + OFF], real_selectors.EVENT_READ) for fd in ready]

        def close(self):
            self._m.clear()

    class VLoop(asyncio.SelectorEventLoop):
        def time(self):
            return env.now

    sel = FakeSelector()
    return VLoop(sel), sel, OFF


# ---------------- wire format ----------------
def enc_action(a):
    k = a[0]
    return [ACT[k], a[1] if len(a) > 1 else 0, a[2] if len(a) > 2 else 0]


def encode_case(case):
    l = [FLAVOUR[case["loop"]], len(case["setup"])]
    for a in case["setup"]:
        l += enc_action(a)
    l.append(len(case["beh"]))
    for id_, when, acts in case["beh"]:
        l += [id_, when, len(acts)]
        for a in acts:
            l += enc_action(a)
    l.append(len(case["env"]))
    for dt, fds in case["env"]:
        l += [dt, len(fds)] + list(fds)
    return l


def decode_result(ints, loop=None):
    it = iter(ints)

    def lst():
        n = next(it)
        return [next(it) for _ in range(n)]

    def oz():
        return None if next(it) == 0 else next(it)
    try:
        oc = next(it)
        if oc < 0:
            return {"malformed": ints[:20]}
        out = {"outcome": OUTCOMES[oc], "did": bool(next(it)), "now": next(it)}
        fl = lst()
        out["alarms"] = [fl[i:i + 3] for i in range(0, len(fl), 3)]
        fl = lst()
        out["watch"] = [fl[i:i + 2] for i in range(0, len(fl), 2)]
        fl = lst()
        out["idles"] = [fl[i:i + 2] for i in range(0, len(fl), 2)]
        n = next(it)
        tr = []
        for _ in range(n):
            t = next(it)
            if t == 1:
                tr.append(["alarm_set", next(it), next(it), next(it)])
            elif t == 2:
                tr.append(["rm_alarm", next(it), bool(next(it))])
            elif t == 3:
                tr.append(["watch_set", next(it), next(it)])
            elif t == 4:
                tr.append(["rm_watch", next(it), bool(next(it))])
            elif t == 5:
                tr.append(["idle_set", next(it), next(it)])
            elif t == 6:
                tr.append(["rm_idle", next(it), bool(next(it))])
            elif t == 7:
                to = oz()
                regs = lst()
                now = next(it)
                tr.append(["select", to, regs, now, lst()])
            elif t == 8:
                tr.append(["alarm_call", next(it), next(it), next(it)])
            elif t == 9:
                tr.append(["watch_call", next(it), next(it), next(it)])
            elif t == 10:
                tr.append(["idle_call", next(it), next(it), next(it)])
            elif t == 11:
                tr.append(["raise", bool(next(it))])
            else:
                return {"malformed": ints[:20]}
        out["trace"] = tr
        rest = list(it)
        if loop == "tornado":
            out["alarms"] = sorted(out["alarms"])
        if loop in ("asyncio", "tornado"):
            # verdict of the (proved sound) checker of the host specification on the log of the host model
            out["host_ok"] = bool(rest[0]) if rest else "missing"
        elif rest:
            out["psock"] = rest[1:1 + rest[0]]
        return out
    except StopIteration:
        return {"malformed": ints[:20]}


# =====================================================================================
# oracle for the virtual runs: the property text replayed over the observed history
# (written without looking at the model: plain dictionaries, one pass)
# =====================================================================================
def oracle_history(trace, outcome, dist=None, batch_stop=False):
    """batch_stop: the loop is a host runtime that finishes the batch of handles that are already ready before
    it stops (asyncio, twisted, tornado): callbacks after a raise are not judged, a further poll is"""
    msgs = []
    raised_any = []
    clock = 0          # the latest virtual time seen in the history
    alarms = {}        # handle -> [due, state]   state in pending / called / removed
    watched = {}       # fd -> callback id currently registered
    idles = {}         # handle -> registered / removed
    raised = None
    required_idle = None   # idle handles that must run before the next quiescent wait
    idle_seen = set()
    unserved = set()   # descriptors reported readable by the last select, not served yet
    for ev in trace:
        k = ev[0]
        if raised is not None:
            if k.endswith("_call") and not batch_stop:
                msgs.append(f"a callback ({k}) ran after a callback had raised: the loop did not stop")
                break
            if k == "select":
                msgs.append("the loop went on (select) after a callback had raised")
                break
        if k == "select" and isinstance(ev[3], int):
            clock = max(clock, ev[3])
        elif k.endswith("_call") and isinstance(ev[3], int):
            clock = max(clock, ev[3])
        if k == "alarm_set":
            # an alarm registered with a due time that has already passed (negative delay): a host runtime that
            # has already queued the handles of this iteration cannot run it before them; not judged for order
            late_set = batch_stop and isinstance(ev[2], int) and ev[2] < clock
            alarms[ev[1]] = [ev[2], "pending", late_set]
        elif k == "rm_alarm":
            a = alarms.get(ev[1])
            if a is not None and a[1] == "pending":
                if not ev[2]:
                    msgs.append("remove_alarm of a pending alarm reported failure")
                a[1] = "removed"
            elif a is not None and a[1] == "removed":
                if ev[2]:
                    msgs.append("removing an alarm again reported success")
            elif dist is not None:
                dist["obs:rm_alarm_not_pending->%s" % ev[2]] = dist.get("obs:rm_alarm_not_pending->%s" % ev[2], 0) + 1
        elif k == "alarm_call":
            a = alarms.get(ev[1])
            if a is None:
                msgs.append("the callback of an alarm that was never set ran")
            else:
                if a[1] == "called":
                    msgs.append("an alarm callback ran twice")
                elif a[1] == "removed":
                    msgs.append("the callback of a removed alarm ran")
                if isinstance(ev[3], int) and isinstance(a[0], int) and ev[3] < a[0]:
                    msgs.append("an alarm callback ran before its due time")
                for h, b in alarms.items():
                    if h != ev[1] and b[1] == "pending" and not b[2] and isinstance(b[0], int) and isinstance(a[0], int) and b[0] < a[0]:
                        msgs.append("an alarm callback ran before an alarm due earlier")
                        break
                a[1] = "called"
            required_idle = {h for h, st in idles.items() if st == "registered"}
            idle_seen = set()
        elif k == "watch_set":
            watched[ev[1]] = ev[2]
            unserved.discard(ev[1])      # registered anew: the new callback is served from the next poll on
        elif k == "rm_watch":
            if ev[1] in watched:
                if not ev[2]:
                    msgs.append("remove_watch_file of a watched descriptor reported failure")
                del watched[ev[1]]
                unserved.discard(ev[1])
        elif k == "watch_call":
            if ev[1] not in watched:
                msgs.append("the callback of a removed watch ran")
            unserved.discard(ev[1])
            required_idle = {h for h, st in idles.items() if st == "registered"}
            idle_seen = set()
        elif k == "idle_set":
            idles[ev[1]] = "registered"
        elif k == "rm_idle":
            if idles.get(ev[1]) == "registered" and ev[2]:
                idles[ev[1]] = "removed"
                if required_idle is not None:
                    required_idle.discard(ev[1])
        elif k == "idle_call":
            if idles.get(ev[1]) == "removed":
                msgs.append("a removed idle callback was called again")
            idle_seen.add(ev[1])
        elif k == "select":
            to, regs, t, ready = ev[1], ev[2], ev[3], ev[4]
            if unserved:
                msgs.append("a watched descriptor was readable but its callback did not run before the next select")
            unserved = {fd for fd in ready if fd in watched}
            if dist is not None and len(unserved) != len(set(ready)):
                dist["obs:select_reports_unwatched_fd"] = dist.get("obs:select_reports_unwatched_fd", 0) + 1
            quiescent = to is None or (isinstance(to, int) and to > 0)
            if quiescent:
                if required_idle is not None and not required_idle <= idle_seen:
                    msgs.append("the loop went quiescent after an alarm/watch callback without running the idle callbacks")
                required_idle = None
                if to is None and any(a[1] == "pending" for a in alarms.values()):
                    msgs.append("the loop waits without timeout while an alarm is pending")
        elif k == "raise":
            raised = ev[1]
            raised_any.append(ev[1])
    if False in raised_any:
        raised = False       # several callbacks of one batch raised: the other exception wins over ExitMainLoop
    if raised is True and outcome != "returned":
        msgs.append(f"a callback raised ExitMainLoop but run() ended with '{outcome}'")
    if raised is False and outcome != "raised":
        msgs.append(f"a callback raised an exception but run() ended with '{outcome}' instead of re-raising it")
    if raised is None and outcome not in ("env_end", "blocked", "spin"):
        msgs.append(f"no callback raised but run() ended with '{outcome}'")
    return msgs


# =====================================================================================
# adapters: contract scenarios on the REAL runtimes (one scenario per subprocess)
# =====================================================================================
ADAPTERS = ["select", "zmq", "asyncio", "tornado", "twisted", "trio"]
SCENARIOS = ["alarms", "many_alarms", "overdue_order", "overdue_remove", "watch", "watch_fd0", "watch_sibling", "idle",
             "idle_remove", "exc_alarm", "exc_watch", "exc_idle", "bexc_alarm", "bexc_watch", "bexc_idle",
             "exit_alarm", "exit_watch", "exit_idle", "rerun_alarm", "rerun_watch", "rerun_idle", "overdue_many"]
# overdue_many: delays (units of 10 ms) of alarms that are all overdue when a blocking callback returns
OVERDUE_MANY = [5, 2, 8, 3, 7, 1, 6, 4]
OVERDUE_ROUNDS = {"trio": 8, "select": 3, "zmq": 3, "asyncio": 3, "tornado": 1, "twisted": 1}
# delays (in units) of the many_alarms scenario, registration order; the handles at REMOVED positions are removed before run()
MANY_DELAYS = [2, 8, 4, 12, 10, 14, 6, 16, 5, 9]
MANY_REMOVED = [3, 1]
U = 0.05


def make_loop(name):
    import urwid
    if name == "select":
        return urwid.SelectEventLoop()
    if name == "zmq":
        return urwid.ZMQEventLoop()
    if name == "asyncio":
        import asyncio
        return urwid.AsyncioEventLoop(loop=asyncio.new_event_loop())
    if name == "tornado":
        return urwid.TornadoEventLoop()
    if name == "twisted":
        return urwid.TwistedEventLoop()
    if name == "trio":
        return urwid.TrioEventLoop()
    raise SystemExit("unknown loop " + name)


def adapter_worker(name, scen):
    """runs in a subprocess; prints one JSON line"""
    import time
    from urwid import ExitMainLoop
    if scen == "overdue_many":
        # several rounds, a fresh loop each: a blocking callback makes 8 alarms (registered out of order) overdue at
        # the same time; they must still run in due order.  Runtimes that wake timers in random order need rounds.
        rounds = []
        seeded = False
        for _rnd in range(OVERDUE_ROUNDS.get(name, 1)):
            if name == "trio":
                # make trio's scheduler deterministic (the knob its Hypothesis plugin uses): every batch of runnable
                # tasks is sorted and then shuffled with the module RNG, which is seeded with the round number, so
                # the rounds are fixed wake-up orders instead of random ones
                try:
                    import trio._core._run as _trio_run
                    _trio_run._ALLOW_DETERMINISTIC_SCHEDULING = True
                    _trio_run._r.seed(_rnd)
                    seeded = True
                except Exception:
                    seeded = False
            lp = make_loop(name)
            order = []

            def byebye():
                raise ExitMainLoop()
            lp.alarm(0.005, lambda: time.sleep(0.12))
            for d in OVERDUE_MANY:
                lp.alarm(d * 0.01, lambda d=d: order.append(d))
            lp.alarm(0.25, byebye)
            try:
                lp.run()
            except BaseException as e:
                order.append("raised:" + type(e).__name__)
            rounds.append(order)
        print("C13RESULT " + json.dumps({"outcome": "returned", "log": [], "res": {"rounds": rounds, "seeded": seeded}}), flush=True)
        os._exit(0)
    if name == "trio":
        # a fixed adversarial scheduling order instead of trio's random batch reversal (see overdue_many)
        try:
            import trio._core._run as _trio_run
            _trio_run._ALLOW_DETERMINISTIC_SCHEDULING = True
            _trio_run._r.seed(len(scen))
        except Exception:
            pass
    loop = make_loop(name)
    t0 = time.monotonic()
    log = []
    res = {}

    def L(x):
        log.append([x, int((time.monotonic() - t0) * 1000)])

    def alarm(units, label, fn=None):
        def cb():
            L(label)
            if fn is not None:
                fn()
            L(label + ":end")
        L("set:" + label)
        return loop.alarm(units * U, cb)

    def bye():
        raise ExitMainLoop()

    boom = BaseBoom("x") if scen.startswith("bexc_") else Boom("x")

    def kaboom():
        raise boom
    raiser = kaboom if scen.startswith(("exc_", "bexc_")) else bye
    if scen.startswith("bexc_"):
        scen = scen[1:]          # same set-up as exc_*; only the class of the exception differs

    if scen == "alarms":
        h5 = [None]

        def in_a1():
            res["r3"] = bool(loop.remove_alarm(h5[0]))
            res["r4"] = bool(loop.remove_alarm(h5[0]))
        alarm(3, "a3")
        alarm(1, "a1", in_a1)
        h2 = alarm(2, "a2")
        h5[0] = alarm(5, "a5")
        res["r1"] = bool(loop.remove_alarm(h2))
        res["r2"] = bool(loop.remove_alarm(h2))
        alarm(8, "exit", bye)
    elif scen == "overdue_order":
        alarm(1, "slow", lambda: time.sleep(5 * U))
        alarm(4, "d4")
        alarm(2, "d2")
        alarm(3, "d3")
        alarm(12, "exit", bye)
    elif scen == "overdue_remove":
        # d2 and d3 are both overdue when the slow callback returns; d2 removes d3
        h3 = [None]

        def in_d2():
            if "d3" not in [n for n, _ in log]:
                res["rm3"] = bool(loop.remove_alarm(h3[0]))
        alarm(1, "slow", lambda: time.sleep(5 * U))
        h3[0] = alarm(3, "d3")
        alarm(2, "d2", in_d2)
        alarm(12, "exit", bye)
    elif scen == "many_alarms":
        # many pending alarms registered out of order, inner entries removed: the rest must fire in due order
        hs = [alarm(d, "m%d" % d) for d in MANY_DELAYS]
        for k, i in enumerate(MANY_REMOVED):
            res["rm%d" % k] = bool(loop.remove_alarm(hs[i]))
        alarm(20, "exit", bye)
    elif scen in ("watch", "watch_fd0", "exc_watch", "exit_watch"):
        r, w = os.pipe()
        if scen == "watch_fd0":
            os.dup2(r, 0)          # the watched descriptor is number 0 (standard input)
            os.close(r)
            r = 0
        n = [0]
        hh = [None]

        def wcb():
            os.read(r, 1)
            n[0] += 1
            L("w")
            if scen not in ("watch", "watch_fd0"):
                raiser()
            if n[0] == 2:
                res["rm1"] = bool(loop.remove_watch_file(hh[0]))
                res["rm2"] = bool(loop.remove_watch_file(hh[0]))
            L("w:end")
        hh[0] = loop.watch_file(r, wcb)
        os.write(w, b"abc")
        loop.enter_idle(lambda: L("i"))
        alarm(4, "late")
        alarm(8, "exit", bye)
    elif scen == "watch_sibling":
        # two readable descriptors; whichever callback runs first removes the watch of the other one
        r1, w1 = os.pipe()
        r2, w2 = os.pipe()
        hs = {}

        def mk(me, other, fd):
            def cb():
                os.read(fd, 1)
                L("w" + me)
                res["rm" + other] = bool(loop.remove_watch_file(hs[other]))
            return cb
        hs["1"] = loop.watch_file(r1, mk("1", "2", r1))
        hs["2"] = loop.watch_file(r2, mk("2", "1", r2))
        os.write(w1, b"x")
        os.write(w2, b"x")
        alarm(6, "exit", bye)
    elif scen == "idle":
        loop.enter_idle(lambda: L("i1"))
        loop.enter_idle(lambda: L("i2"))
        alarm(1, "a1")
        alarm(6, "a6")
        alarm(12, "exit", bye)
    elif scen == "idle_remove":
        h = [None]

        def i1():
            L("i1")
            res.setdefault("rm1", bool(loop.remove_enter_idle(h[0])))
            res.setdefault("rm2", bool(loop.remove_enter_idle(h[0])))
        h[0] = loop.enter_idle(i1)
        loop.enter_idle(lambda: L("i2"))
        alarm(1, "a1")
        alarm(5, "a5")
        alarm(10, "exit", bye)
    elif scen in ("exc_alarm", "exit_alarm"):
        alarm(1, "a1", raiser)
        alarm(7, "late")
        alarm(12, "exit", bye)
    elif scen in ("exc_idle", "exit_idle"):
        def ic():
            L("i")
            raiser()
        loop.enter_idle(ic)
        alarm(1, "a1")
        alarm(7, "late")
        alarm(12, "exit", bye)
    elif scen.startswith("rerun_"):
        # run() is called three times on the same loop object: the 1st is ended by an exception raised in an
        # alarm / watch / idle callback, the 2nd by ExitMainLoop, the 3rd by a new exception
        kind = scen.split("_")[1]
        phase = [1]
        booms = {1: Boom("first"), 3: Boom("third")}

        def trigger():
            L("t%d" % phase[0])
            if phase[0] == 2:
                raise ExitMainLoop()
            raise booms[phase[0]]
        outcomes = []
        for ph in (1, 2, 3):
            phase[0] = ph
            hnd = None
            if kind == "alarm":
                alarm(2, "trig%d" % ph, trigger)
            elif kind == "idle":
                hnd = loop.enter_idle(trigger)
                alarm(1, "kick%d" % ph)
            else:
                r, w = os.pipe()
                os.write(w, b"x")

                def wcb(r=r):
                    os.read(r, 1)
                    trigger()
                hnd = loop.watch_file(r, wcb)
            guard = alarm(12, "guard%d" % ph, bye)     # backstop: ends a run that did not stop by itself
            try:
                loop.run()
                outcomes.append("returned")
            except Boom as e:
                outcomes.append("raised-%s" % {id(booms[1]): "first", id(booms[3]): "third"}.get(id(e), "other-boom"))
            except BaseException as e:
                outcomes.append("raised:" + type(e).__name__)
                break
            L("run%d:end" % ph)
            loop.remove_alarm(guard)
            if kind == "idle":
                loop.remove_enter_idle(hnd)
            elif kind == "watch":
                loop.remove_watch_file(hnd)
        print("C13RESULT " + json.dumps({"outcome": ",".join(outcomes), "log": log, "res": res}), flush=True)
        os._exit(0)
    else:
        raise SystemExit("unknown scenario " + scen)
    try:
        loop.run()
        outcome = "returned"
    except (Boom, BaseBoom) as e:
        outcome = "raised-same" if e is boom else "raised-other-boom"
    except BaseException as e:
        outcome = "raised:" + type(e).__name__
    print("C13RESULT " + json.dumps({"outcome": outcome, "log": log, "res": res}), flush=True)
    os._exit(0)     # twisted / tornado may keep non-daemon machinery alive


def first(log, name, after=-1):
    for i, (n, t) in enumerate(log):
        if i > after and n == name:
            return i
    return None


def oracle_adapter(case, r):
    """returns (hard, soft): hard = violations that no scheduling delay can explain;
    soft = violations that a long stall of the process could also produce (need to repeat)"""
    hard, soft = [], []
    if "error" in r:
        return [f"scenario did not complete: {r['error']}"], []
    scen, log, res, outcome = case["scenario"], r["log"], r["res"], r["outcome"]
    names = [n for n, _ in log]
    tset = {n[4:]: t for n, t in log if n.startswith("set:")}

    def due_ms(label, units):
        return tset[label] + units * U * 1000

    def check_alarm(label, units):
        c = names.count(label)
        if c > 1:
            hard.append(f"alarm {label} ran {c} times")
        if c >= 1:
            t = log[names.index(label)][1]
            if t < due_ms(label, units) - 5:
                hard.append(f"alarm {label} ran before its due time")
    if scen.startswith("bexc_"):
        scen = scen[1:]        # judged exactly like exc_*: the class of the exception must make no difference
    exp_outcome = "raised-same" if scen.startswith("exc_") else "returned"
    if scen.startswith("rerun_"):
        exp_outcome = outcome      # judged below
    if outcome != exp_outcome:
        # when the backstop alarm ended the run, a long stall could be the reason: must repeat
        (soft if (outcome == "returned" and "exit" in names) else hard).append(
            f"run() ended with '{outcome}', expected '{exp_outcome}'")
    if scen == "alarms":
        for lab, u in (("a1", 1), ("a3", 3), ("a2", 2), ("a5", 5), ("exit", 8)):
            check_alarm(lab, u)
        if res.get("r1") is not True or res.get("r3") is not True:
            hard.append("remove_alarm of a pending alarm reported failure")
        if res.get("r2") is not False or res.get("r4") is not False:
            hard.append("removing an alarm again reported success")
        if "a2" in names or "a5" in names:
            hard.append("the callback of a removed alarm ran")
        if names.count("a1") != 1 or names.count("a3") != 1:
            soft.append("an alarm that was not removed did not run exactly once before a later alarm stopped the loop")
        elif names.index("a3") < names.index("a1"):
            soft.append("an alarm callback ran before an alarm due earlier")
    elif scen == "many_alarms":
        kept = [d for i, d in enumerate(MANY_DELAYS) if i not in MANY_REMOVED]
        for d in MANY_DELAYS:
            check_alarm("m%d" % d, d)
        if any(res.get("rm%d" % k) is not True for k in range(len(MANY_REMOVED))):
            hard.append("remove_alarm of a pending alarm reported failure")
        if any(("m%d" % MANY_DELAYS[i]) in names for i in MANY_REMOVED):
            hard.append("the callback of a removed alarm ran")
        order = [n for n in names if n in ["m%d" % d for d in kept]]
        if sorted(order) != sorted("m%d" % d for d in kept):
            soft.append("an alarm that was not removed did not run exactly once before a later alarm stopped the loop")
        elif order != ["m%d" % d for d in sorted(kept)]:
            # every alarm is 50 ms apart: a stall can make several overdue at once, which must still run in due order
            hard.append("an alarm callback ran before an alarm due earlier (many pending alarms, inner entries removed)")
    elif scen.startswith("rerun_"):
        outs = outcome.split(",")
        exp = ["raised-first", "returned", "raised-third"]
        for i, e in enumerate(exp):
            o = outs[i] if i < len(outs) else "missing"
            if o == "raised:ReactorNotRestartable" and case["adapter"] == "twisted":
                break   # a twisted reactor that was stopped cannot be started again in this process: nothing more to judge
            if o != e:
                msg = f"run() number {i + 1} on the same loop ended with '{o}', expected '{e}'"
                # a run ended by its backstop alarm could be a stall: must repeat
                (soft if ("guard%d" % (i + 1)) in names else hard).append(msg)
                break
            if ("t%d" % (i + 1)) not in names:
                soft.append(f"the {scen.split('_')[1]} callback registered for run() number {i + 1} never ran: "
                            "the run was ended by the backstop alarm")
                break
            if names.count("t%d" % (i + 1)) > 3:
                soft.append("the raising callback kept running: the loop did not stop")
    elif scen == "overdue_many":
        for order in res.get("rounds", []):
            if sorted(map(str, order)) != sorted(map(str, OVERDUE_MANY)):
                soft.append("an overdue alarm did not run exactly once before the backstop alarm stopped the loop")
            elif order != sorted(OVERDUE_MANY):
                hard.append("overdue alarms ran out of due order (an alarm ran before an alarm due earlier; 8 alarms overdue together)")
                break
        if not res.get("rounds"):
            soft.append("the overdue_many scenario produced no round")
    elif scen == "overdue_order":
        for lab, u in (("slow", 1), ("d2", 2), ("d3", 3), ("d4", 4)):
            check_alarm(lab, u)
        order = [n for n in names if n in ("d2", "d3", "d4")]
        if sorted(order) != ["d2", "d3", "d4"]:
            soft.append("an overdue alarm did not run exactly once")
        elif order != ["d2", "d3", "d4"]:
            hard.append("overdue alarms ran out of due order (an alarm ran before an alarm due earlier)")
    elif scen == "overdue_remove":
        for lab, u in (("slow", 1), ("d2", 2), ("d3", 3)):
            check_alarm(lab, u)
        if "d2" not in names:
            soft.append("an overdue alarm did not run")
        elif "d3" in names and names.index("d3") < names.index("d2"):
            hard.append("overdue alarms ran out of due order (an alarm ran before an alarm due earlier)")
        elif res.get("rm3") is not True:
            hard.append("remove_alarm of a pending alarm reported failure")
        elif "d3" in names:
            hard.append("the callback of a removed alarm ran")
    elif scen in ("watch", "watch_fd0"):
        if names.count("w") > 2:
            hard.append("the callback of a removed watch ran (data remained readable)")
        elif names.count("w") < 2:
            soft.append("the watch callback did not run although its descriptor was readable")
        if res.get("rm1") is not True:
            hard.append("remove_watch_file of a watched descriptor reported failure")
        if res.get("rm2") is not False:
            hard.append("removing a watch again reported success")
        i_w = first(log, "w:end")
        i_late = first(log, "late")
        if i_w is not None and i_late is not None and "i" not in names[i_w:i_late]:
            soft.append("no idle callback between a watch callback and the next wait")
    elif scen == "watch_sibling":
        nw = names.count("w1") + names.count("w2")
        if nw > 1:
            hard.append("the callback of a watch removed by a sibling callback ran")
        elif nw == 0:
            soft.append("no watch callback ran although the descriptors were readable")
    elif scen == "idle":
        for a, b in (("a1:end", "a6"), ("a6:end", "exit")):
            ia, ib = first(log, a), first(log, b)
            if ia is None or ib is None:
                soft.append("an alarm did not run")
                continue
            seg = names[ia:ib]
            if "i1" not in seg or "i2" not in seg:
                soft.append("the idle callbacks did not run between an alarm callback and the next wait")
    elif scen == "idle_remove":
        if names.count("i1") > 1:
            hard.append("a removed idle callback was called again")
        if res.get("rm2") is True:
            hard.append("removing an idle callback again reported success")
        if "rm1" in res and res["rm1"] is not True:
            hard.append("remove_enter_idle of a registered callback reported failure")
        ia, ib = first(log, "a5:end"), first(log, "exit")
        if ia is not None and ib is not None and "i2" not in names[ia:ib]:
            soft.append("the remaining idle callback did not run after an alarm callback")
    elif scen in ("exc_alarm", "exit_alarm", "exc_idle", "exit_idle", "exc_watch", "exit_watch"):
        if "late" in names:
            soft.append("a later alarm ran although an earlier callback had raised")
        # How often the raising callback itself runs while the runtime winds down is not fixed by the
        # property (trio calls a raising idle callback once more before the nursery fails): only "never"
        # and "the loop clearly kept going" are judged; the count is recorded as an observation.
        trig = {"alarm": "a1", "idle": "i", "watch": "w"}[scen.split("_")[1]]
        if names.count(trig) == 0:
            soft.append("the raising callback never ran")
        elif names.count(trig) > 3:
            soft.append(f"the raising callback ran {names.count(trig)} times: the loop did not stop")
    return hard, soft


def run_adapter_once(case, timeout=20):
    env = dict(os.environ)
    env.setdefault("PYTHONPATH", core.REPO + ":" + core.ROOT)
    try:
        p = subprocess.run([core.PY, "-m", "harness.props.c13", "adapter", case["adapter"], case["scenario"]],
                           cwd=core.ROOT, env=env, capture_output=True, text=True, timeout=timeout)
    except subprocess.TimeoutExpired:
        return {"error": f"hard timeout after {timeout}s (the loop did not stop)"}
    for line in p.stdout.splitlines():
        if line.startswith("C13RESULT "):
            return json.loads(line[len("C13RESULT "):])
    return {"error": "no result (rc=%s): %s" % (p.returncode, (p.stderr or p.stdout)[-300:].replace("\n", " | "))}


# =====================================================================================
# the check
# =====================================================================================
class C13(core.Check):
    pid = "C13"
    gen_modules = []
    model_targets = ["theories/Model/SelectLoop.vo", "theories/Model/ZmqLoop.vo", "theories/Model/AdapterLoop.vo", "theories/Model/TornadoLoop.vo", "theories/Model/AdapterCheck.vo"]
    prop_file = "theories/Properties/C13.v"
    extract_v = "Extract/C13X.v"
    allowed_axioms = set()
    design_ref = "DESIGN.md section 5, C13"
    correspondence_name = "virtual-clock SelectEventLoop/ZMQEventLoop vs extracted model"
    search_budget = {"quick": 40, "thorough": 300}
    technique = ("Coq theorems (a state/history invariant preserved by every method, by callbacks that call back into the "
                 "loop and by every _loop iteration; induction over the environment trace) about hand-written executable "
                 "models of SelectEventLoop, ZMQEventLoop and of the AsyncioEventLoop wrapper over an abstract host (theorems "
                 "relative to a host specification on the log of host answers); extracted-model correspondence under a virtual "
                 "clock and a scripted selector/poller installed from outside (for asyncio: a real SelectorEventLoop subclass "
                 "with virtual time() and a scripted selector); history oracle; contract scenarios on the real "
                 "asyncio/tornado/twisted/trio/zmq/select runtimes in subprocesses")
    level_text = ("PARTIAL claim.  Theorem-backed (Coq, for ALL setups, ALL callback behaviours incl. callbacks that "
                  "add/remove alarms, watches and idle callbacks or raise, and ALL environment traces of any length) for the "
                  "SelectEventLoop and ZMQEventLoop models: an alarm callback runs at most once, never before its due time, "
                  "never after a successful removal, and only when no pending alarm is earlier (tie = creation order); the loop "
                  "never waits past a pending alarm's due time; remove_alarm returns True iff the alarm is pending, then False; a "
                  "watch callback runs only while registered and only for a descriptor reported readable by the last "
                  "select()/poll() (never after removal, also inside one ready batch) and every reported descriptor is served "
                  "before the next select() unless removed; a wait without timeout or with a positive timeout happens only after "
                  "a complete idle round that followed the last alarm/watch callback; a removed idle callback is not called again; "
                  "a raise is the last event, run() returns iff it was ExitMainLoop, re-raises otherwise, and never ends by an "
                  "exception no callback raised.  For ZMQ the watch clause is relative to _queue_callbacks (remove_watch_file "
                  "pops the callback whatever it returns); which descriptors its poller holds and the value returned by "
                  "remove_watch_file are not claimed (a descriptor registered twice stays polled after one removal).  Both "
                  "models are hand-written and tied to select_loop.py / zmq_loop.py by an exact correspondence of the whole "
                  "observable history (every select(timeout) call with its registered and ready descriptors, every callback with "
                  "its virtual time, every return value, the outcome of run(), the final state) on exhaustive small scenarios (<= 3 "
                  "alarms, 2 descriptors, 2 idle callbacks, every callback behaviour of a menu) and random ones.  ADAPTERS, "
                  "theorem-backed RELATIVE TO A HOST SPECIFICATION (_partial): Model/AdapterLoop.v models the AsyncioEventLoop "
                  "wrapper (alarm -> call_later + _also_call_idle, _idle_asyncio_handle, _entering_idle, remove_alarm / watch_file / "
                  "remove_watch_file return values, enter_idle / remove_enter_idle, _exception_handler, the _exc re-raise of run()) "
                  "over ANY host given as a record of operations; for every host, setup, behaviour, environment and fuel, IF the "
                  "log of the host's answers satisfies host_ok (fresh handles due at now+delay, a timer runs once / not cancelled / "
                  "not early, monotonic clock, readers run only while registered, truthful cancelled()/remove_reader, never polls "
                  "past a pending timer nor after stop(), run_forever returns only after stop()) THEN: alarm callbacks run once, "
                  "not early, never after removal; remove_alarm / remove_watch_file results; watch callbacks only while "
                  "registered; idle callbacks only while registered; no poll after a raise; a poll that can wait happens only "
                  "after an idle round that followed the last alarm/watch callback; run() re-raises iff a callback raised the "
                  "other exception and returns only after ExitMainLoop.  That wrapper model, with a concrete model of the asyncio "
                  "host (exact heapq of TimerHandles compared by when, _ready queue, _run_once, add/remove_reader, stop), is tied "
                  "by exact correspondence to asyncio_loop.py running on a REAL asyncio.SelectorEventLoop whose clock and selector "
                  "are the virtual environment.  The hypothesis host_ok is CHECKED on every case of the correspondence by an executable "
                  "checker (hostok_b, proved sound in Coq) evaluated by the extracted model on the log of its asyncio host: a failing "
                  "verdict shows up as a correspondence difference, so for every tested run the contract is proved for the model's "
                  "run (asyncio_checked_run_contract_partial).  NOT proved: that the asyncio host model satisfies host_ok on ALL "
                  "runs (asyncio_host_meets_spec_full is stated only); alarm ORDER for adapters (host property; oracle only).  The same "
                  "is done for TornadoEventLoop (Model/TornadoLoop.v: _pending_alarms, watch-handle table, handle_exit catching "
                  "BaseException, clean-up order), over the same host record, with its own contract (remove_alarm True iff the alarm "
                  "is pending) proved for every host satisfying host_ok, tied by correspondence to tornado_loop.py on a real tornado "
                  "AsyncIOLoop over the virtual asyncio loop, hypothesis checked run by run.  ORACLE "
                  "ONLY (no theorem): twisted and trio adapters and all loops on their real poller/selector are "
                  "contract-tested on the real runtimes (22 scenarios each: order, once-ness, not-before-due, removal results, "
                  "same-batch sibling removal, overdue order, many out-of-order alarms with removals, descriptor 0, idle-after-callback, exception propagation also for BaseException-derived exceptions, 8 alarms overdue together in repeated rounds, run() called again after an exception); no known finding is left; glib is not installed "
                  "and not covered.")
    level_note = ("Trusted: Coq kernel; ExtrOcamlBasic extraction + OCaml driver; the hand-written models (validated by the "
                  "correspondence, not proved against CPython); the virtual environment (Python VEnv/FakeSel/FakePoller and "
                  "do_select in the model implement the same documented step semantics: select never returns empty before its "
                  "timeout elapsed on the clock that time.time() reads; the clock is monotonic; heapq behaves as a priority "
                  "queue on (time, tie)); the Python oracles.  Adapter scenarios use real timers: order/once-ness/removal/"
                  "exception facts are asserted at once, facts that a long stall of the process could also produce only when "
                  "they repeat 3 times in a row.")
    rule = ("virtual cases = (loop, setup calls, behaviour table id x call-number -> actions, environment steps); exhaustive "
            "small scope: 7 alarm sets x 4 watch sets (incl. descriptor 0) x 0..2 idle callbacks x every registered callback as the actor x 26 "
            "behaviours (remove sibling/self, double remove, remove+re-add, add alarm incl. overdue, add idle/watch, slow "
            "callback, ExitMainLoop, other exception) x environments (quick: sampled, thorough: all) + random cases + cases with "
            "5..10 alarms registered in arbitrary order with removals of inner entries (thorough: every order of 7); "
            "non-trivial = at least one callback ran; distinct by hash of (case, history); adapter cases = 6 loops x 22 scenarios "
            "(incl. 10 out-of-order alarms with removals, a watched descriptor number 0, three run() calls on one loop object)")
    trusted_base = [
        "Coq 8.16.1 kernel (coqc; vm_compute only for closed examples and the refutation witness)",
        "extraction: ExtrOcamlBasic only; Z stays a Coq datatype; OCaml 4.13.1; tools/driver/driver.ml",
        "hand-written models Model/SelectLoop.v, Model/ZmqLoop.v, Model/AdapterLoop.v and Model/TornadoLoop.v (validated by this correspondence, not proved against Python)",
        "adapter theorems: the host specification host_ok (Proofs/AdapterLoopSpec.v) is a HYPOTHESIS; the asyncio host model is tied to the real asyncio loop by correspondence only",
        "the virtual environment: VEnv / FakeSel / FakePoller in harness/props/c13.py and do_select / zdo_select in the models",
        "Python oracles in harness/props/c13.py (oracle_history, oracle_adapter)",
        "the real runtimes for the adapter scenarios (asyncio, tornado 6.5, twisted 26.4, trio 0.34, pyzmq 27)",
    ]
    assumptions = [
        "select()/poll() never return an empty ready list before the timeout has elapsed on time.time(); time.time() is monotonic",
        "alarm handles passed to remove_alarm are handles returned by alarm() (identified by their tie-break number)",
        "callbacks are deterministic functions of (their identity, how often they were called before)",
        "the models cover one run() per loop object (run() called again after an exception / ExitMainLoop is covered by the adapter scenarios rerun_* on the real runtimes only); signals / InterruptedError / run_in_executor / watch_queue are not modelled",
        "adapter theorems assume the host specification host_ok for the run at hand; fewer than 100 cancelled timers (asyncio rebuilds its heap beyond that); negative alarm delays are not judged for order on host runtimes",
        "tornado virtual cases never register a second handler on a descriptor that still has one (tornado raises ValueError there); the tornado IOLoop layer over asyncio (call_at -> call_later(max(0, ..)), add_handler -> add_reader) is part of the implementation side of the correspondence",
        "twisted, trio are covered by scenarios on the real runtimes only (no theorem; trio with its scheduler made deterministic through trio._core._run._ALLOW_DETERMINISTIC_SCHEDULING and a seeded RNG); glib not covered",
    ]

    # corpus: virtual cases go through the correspondence; adapter cases (regressions of repaired
    # defects) are run with the adapter scenarios in extra_checks
    def corpus_cases(self):
        return [c for c in super().corpus_cases() if "adapter" not in c]

    def corpus_adapter_cases(self):
        return [c for c in core.Check.corpus_cases(self) if "adapter" in c]

    # ---------- implementation ----------
    def run_impl(self, case):
        if "adapter" in case:
            return run_adapter_once(case)
        if case["loop"] == "select":
            return run_select_virtual(case)
        if case["loop"] == "zmq":
            return run_zmq_virtual(case)
        if case["loop"] == "asyncio":
            return run_asyncio_virtual(case)
        if case["loop"] == "tornado":
            return run_tornado_virtual(case)
        raise core.MachineryError("unknown loop " + str(case.get("loop")))

    def encode(self, case):
        return encode_case(case)

    def decode(self, case, ints):
        return decode_result(ints, case.get("loop"))

    def oracle(self, case, res):
        if "adapter" in case:
            hard, soft = oracle_adapter(case, res)
            return hard + soft
        if "trace" not in res:
            return []
        return oracle_history(res["trace"], res["outcome"], getattr(self, "_dist", None),
                              batch_stop=(case.get("loop") in ("asyncio", "tornado")))

    def nontrivial(self, case, res):
        return any(e[0].endswith("_call") for e in res.get("trace", []))

    def signature(self, case, msg):
        import re
        return case.get("adapter", case.get("loop", "")) + ":" + case.get("scenario", "") + ":" + re.sub(r"\d+", "N", msg)

    def distribution(self, case, res, dist):
        self._dist = dist
        k = "outcome:%s:%s" % (case.get("loop"), res.get("outcome"))
        dist[k] = dist.get(k, 0) + 1
        for e in res.get("trace", []):
            if e[0].endswith("_call") or e[0] == "raise":
                dist["ev:" + e[0]] = dist.get("ev:" + e[0], 0) + 1
            elif e[0] == "select":
                q = "select:none" if e[1] is None else ("select:0" if e[1] == 0 else "select:positive")
                dist[q] = dist.get(q, 0) + 1
            elif e[0].startswith("rm_"):
                q = "%s:%s" % (e[0], e[2])
                dist[q] = dist.get(q, 0) + 1

    def shrink_candidates(self, case):
        if "adapter" in case:
            return
        for key in ("env", "beh", "setup"):
            l = case[key]
            for i in range(len(l)):
                c = dict(case)
                c[key] = l[:i] + l[i + 1:]
                yield c
        for i, (id_, when, acts) in enumerate(case["beh"]):
            for j in range(len(acts)):
                c = dict(case)
                c["beh"] = case["beh"][:i] + [[id_, when, acts[:j] + acts[j + 1:]]] + case["beh"][i + 1:]
                yield c

    # ---------- generators ----------
    ACTOR_MENU = [
        [["rm_alarm", 0]], [["rm_alarm", 1]], [["rm_alarm", 2]], [["rm_alarm", 1], ["rm_alarm", 1]],
        [["rm_watch", 7]], [["rm_watch", 8]], [["rm_watch", 7], ["watch", 7, 42]], [["rm_watch", 8], ["rm_watch", 8]],
        [["rm_watch", 0]], [["rm_watch", 0], ["rm_watch", 0]],
        [["rm_idle", 1]], [["rm_idle", 2]], [["rm_idle", 1], ["rm_idle", 1]], [["rm_idle", 1], ["idle", 41]],
        [["alarm", 0, 40]], [["alarm", 2, 40]], [["alarm", -1, 40]], [["idle", 41]], [["watch", 7, 42]], [["watch", 9, 42]],
        [["sleep", 3]], [["sleep", 3], ["rm_alarm", 1]], [["exit"]], [["boom"]], [["rm_watch", 7], ["boom"]],
        [["alarm", 1, 40], ["exit"]],
    ]
    ALARM_SETS = [[], [1], [2, 1], [1, 1], [0, 2], [3, 1, 2], [2, 2, 2]]
    WATCH_SETS = [[], [7], [7, 8], [0, 8]]
    WATCH_ID = {7: 20, 8: 21, 0: 23}
    ENVS = [
        [[0, []]] * 10 + [[0, [7, 8]], [0, []], [0, []]],
        [[0, []], [1, [7]]] + [[0, []]] * 6 + [[1, [8, 7]], [0, []], [0, [7]], [0, []], [0, []]],
        [[0, [7, 8]]] + [[0, []]] * 7 + [[0, [7, 8]], [0, []], [0, []], [0, [8]], [0, []]],
        [[0, [8, 7]], [0, [7]], [0, [8, 9]]] + [[0, []]] * 6 + [[3, [7]], [0, []], [0, []]],
        [[2, []]] * 8 + [[2, [7, 8]], [2, []], [2, []]],
        [[0, []], [0, []], [1, [7, 8]], [0, [7]], [5, [8]]] + [[0, []]] * 6 + [[0, [8, 7]], [0, []], [0, []]],
        [[0, [0, 8]], [0, []], [1, [0]], [0, [8, 0]]] + [[0, []]] * 5 + [[0, [0, 7, 8]], [0, []], [0, [0]], [0, []]],
    ]

    def small_scenarios(self, loop, rng, tier):
        """exhaustive over a small scope: <= 3 alarms, 2 fds, 2 idle callbacks; one acting callback
        with every behaviour of the menu (on every call / first call / second call only), every
        environment of ENVS"""
        for al in self.ALARM_SETS:
            for ws in self.WATCH_SETS:
                for nidle in (0, 1, 2):
                    setup = [["alarm", dt, 10 + i] for i, dt in enumerate(al)]
                    setup += [["watch", fd, self.WATCH_ID[fd]] for fd in ws]
                    setup += [["idle", 31 + j] for j in range(nidle)]
                    ids = [a[2] for a in setup if a[0] in ("alarm", "watch")] + [a[1] for a in setup if a[0] == "idle"]
                    if not ids:
                        yield {"loop": loop, "setup": setup, "beh": [], "env": self.ENVS[0][:3]}
                        continue
                    for actor in ids:
                        for acts in self.ACTOR_MENU:
                            whens = (-1, 0, 1) if tier == "thorough" else (rng.choice((-1, 0, 1)),)
                            envs = self.ENVS if tier == "thorough" else rng.sample(self.ENVS, 2)
                            for when in whens:
                                beh = [[actor, when, acts], [40, -1, rng.choice([[], [["exit"]], [["rm_idle", 2]], [["boom"]]])],
                                       [42, -1, rng.choice([[], [["rm_watch", 7]], [["exit"]]])]]
                                for env in envs:
                                    case = {"loop": loop, "setup": setup, "beh": beh, "env": env}
                                    if any(a[0] == "boom" for e in beh for a in e[2]) and rng.random() < 0.5:
                                        case["base"] = True
                                    yield case

    def random_action(self, rng):
        k = rng.choice(["nop", "alarm", "alarm", "rm_alarm", "rm_alarm", "watch", "rm_watch", "rm_watch", "idle", "rm_idle",
                        "rm_idle", "sleep", "exit", "boom"])
        if k == "alarm":
            return [k, rng.choice([-1, 0, 0, 1, 1, 2, 3, 5]), rng.randrange(10, 18)]
        if k == "rm_alarm":
            return [k, rng.choice([0, 0, 1, 1, 2, 3, 4, -1, 9])]
        if k == "watch":
            return [k, rng.choice([0, 7, 8, 9]), rng.randrange(20, 24)]
        if k == "rm_watch":
            return [k, rng.choice([0, 7, 8, 9])]
        if k == "idle":
            return [k, rng.randrange(30, 34)]
        if k == "rm_idle":
            return [k, rng.choice([0, 1, 1, 2, 2, 3, 4])]
        if k == "sleep":
            return [k, rng.choice([0, 1, 2, 4])]
        return [k]

    def random_case(self, loop, rng):
        setup = []
        for _ in range(rng.choice([0, 1, 2, 3, 3, 4, 6])):
            a = self.random_action(rng)
            while a[0] in ("exit", "boom", "sleep", "nop"):
                a = self.random_action(rng)
            setup.append(a)
        if rng.random() < 0.5:
            setup.append(["alarm", rng.choice([0, 1, 2, 3]), rng.randrange(10, 18)])
        beh = []
        for _ in range(rng.choice([0, 1, 2, 3, 5])):
            acts = [self.random_action(rng) for _ in range(rng.choice([1, 1, 2, 3]))]
            if rng.random() < 0.7:       # raising is interesting but ends the run: keep it rarer
                acts = [a for a in acts if a[0] not in ("exit", "boom")] or [["nop"]]
            beh.append([rng.choice(list(range(10, 18)) + list(range(20, 24)) + list(range(30, 34))), rng.choice([-1, -1, 0, 1, 2]), acts])
        base = rng.random() < 0.3
        env = []
        for _ in range(rng.choice([3, 6, 10, 16])):
            fds = [fd for fd in (0, 7, 8, 9) if rng.random() < 0.3]
            rng.shuffle(fds)
            env.append([rng.choice([0, 0, 0, 1, 2, 4]), fds])
        case = {"loop": loop, "setup": setup, "beh": beh, "env": env}
        if base:
            case["base"] = True      # the other exception derives from BaseException, not from Exception
        return case

    def many_alarms_case(self, loop, rng, delays=None):
        """5..10 pending alarms registered in an arbitrary order, inner entries removed (before run() and from
        callbacks), sometimes re-added: the alarm container must keep firing them in due order"""
        if delays is None:
            n = rng.choice([5, 7, 7, 8, 9, 10, 11, 12])
            r = rng.random()
            if r < 0.4:
                delays = rng.sample(range(1, 3 * n), n)                 # arbitrary registration order
            elif r < 0.5:
                delays = [rng.randrange(1, n) for _ in range(n)]        # with equal due times
            else:
                # registration order = a random binary-heap layout (each entry not earlier than its parent), so
                # that sibling subtrees are unrelated: explores the shapes a heap-based container can take
                delays = [rng.randint(1, 3)]
                for i in range(1, n):
                    delays.append(delays[(i - 1) // 2] + rng.choice([0, 1, 1, 2, 3, 5, 8]))
        n = len(delays)
        setup = [["alarm", d, 100 + i] for i, d in enumerate(delays)]
        for _ in range(rng.choice([1, 2, 2, 3, 4])):
            setup.append(["rm_alarm", rng.randrange(n)])
            if rng.random() < 0.2:
                setup.append(["alarm", rng.randrange(1, 2 * n), 100 + n + len(setup)])
        beh = []
        for _ in range(rng.choice([0, 0, 1, 2])):      # a callback that removes another pending alarm
            beh.append([100 + rng.randrange(n), -1, [["rm_alarm", rng.randrange(n)]] + ([["alarm", rng.randrange(0, n), 90]] if rng.random() < 0.3 else [])])
        late = rng.choice([0, 0, 0, 3])
        return {"loop": loop, "setup": setup, "beh": beh, "env": [[late, []]] * (2 * n + 8)}

    def loops(self):
        return ["select", "zmq", "asyncio", "tornado"]

    def cases(self, rng, tier):
        for loop in self.loops():
            yield from self.small_scenarios(loop, rng, tier)
            for _ in range(2000 if tier == "quick" else 30000):
                yield self.random_case(loop, rng)
            for _ in range(1000 if tier == "quick" else 6000):
                yield self.many_alarms_case(loop, rng)
            if tier == "thorough":     # every registration order of 7 distinct delays, one inner removal each
                for perm in itertools.permutations(range(1, 8)):
                    yield self.many_alarms_case(loop, rng, list(perm))

    def search_cases(self, rng, tier):
        for loop in self.loops():
            yield from self.small_scenarios(loop, rng, "thorough")
        while True:
            yield self.random_case(rng.choice(self.loops()), rng)
            yield self.many_alarms_case(rng.choice(self.loops()), rng)

    # ---------- adapters on the real runtimes ----------
    def extra_checks(self, tier, rng, ev):
        from concurrent.futures import ThreadPoolExecutor
        cases = [{"adapter": a, "scenario": s} for a in ADAPTERS for s in SCENARIOS]
        for c in self.corpus_adapter_cases():
            if c not in cases:
                cases.append(c)
        viols = []
        dist = ev["dist"]

        def attempt(case):
            """hard violations count at once; soft ones only when they repeat 3 times in a row"""
            for n in range(3):
                r = run_adapter_once(case)
                hard, soft = oracle_adapter(case, r)
                if hard:
                    return case, hard, r
                if not soft:
                    return case, [], r
            return case, soft, r
        with ThreadPoolExecutor(max_workers=6) as ex:
            for case, msgs, r in ex.map(attempt, cases):
                ev["evaluations"] += 1
                key = "adapter:%s:%s" % (case["adapter"], "ok" if not msgs else "violation")
                dist[key] = dist.get(key, 0) + 1
                if not msgs and "log" in r:
                    ev["distinct"].add(core.h([case, [n for n, _ in r["log"]]]))
                if case["scenario"].startswith("rerun_"):
                    k = "obs:%s:%s:%s" % (case["adapter"], case["scenario"], r.get("outcome"))
                    dist[k] = dist.get(k, 0) + 1
                if "log" in r and case["scenario"].split("_")[0] in ("exc", "exit"):
                    trig = {"alarm": "a1", "idle": "i", "watch": "w"}[case["scenario"].split("_")[1]]
                    k = "obs:%s:%s:raising_callback_ran_%d" % (case["adapter"], case["scenario"], [x for x, _ in r["log"]].count(trig))
                    dist[k] = dist.get(k, 0) + 1
                for m in msgs:
                    viols.append((case, m))
        return viols


CHECK = C13

if __name__ == "__main__":
    if len(sys.argv) == 4 and sys.argv[1] == "adapter":
        adapter_worker(sys.argv[2], sys.argv[3])
