"""C07 - ListBox always shows a gap-free window of its items containing the focus.

Case = a list of flow widgets of prescribed heights (rows labelled "<id>:<row>", so that the window
can be read back from the rendered text), a walker kind, an optional directly written view state
(offset_rows, inset_fraction) and a history of steps; every step is one action followed by
render((cols, maxrow), focus).  The implementation result is compared exactly with the extracted
Coq model (Model/ListBoxView.v) and judged by an oracle written from the property text.
"""
import ast
import glob
import itertools
import json
import os
import re
import warnings

from harness import core

warnings.simplefilter("ignore")

ERRN = {1: "IndexError", 2: "ValueError", 3: "TypeError", 4: "WidgetError", 5: "CanvasError", 6: "ListBoxError",
        7: "AttrSpecError", 8: "KeyError", 9: "RuntimeError", 10: "OtherError"}
CF = {None: 0, "above": 1, "below": 2}
KEYC = {"up": 1, "down": 2, "j": 3, "k": 4, "home": 5, "end": 6, "page up": 7, "page down": 8}
VALC = {"top": [1], "middle": [2], "bottom": [3]}
COLS = 8
EDITS = ("insert", "delete", "replace", "reflow", "clear", "imul", "iadd", "setslice", "delslice", "reverse", "sort")
REAL_COLS = 12
WRITERS = ("__init__", "shift_focus", "change_focus")
VIEW_ATTRS = ("offset_rows", "inset_fraction")


def norm_err(name):
    """error classes the comparison distinguishes: the two the view code raises itself"""
    return name if name in ("ListBoxError", "ValueError") else "Error"


# ------------------------------------------------------------------------------------------------
# widgets (created lazily: urwid must be imported from the tree under test)
_W = {}


def widgets():
    if _W:
        return _W
    import urwid

    class Item(urwid.Widget):
        """flow widget of h rows labelled '<n>:<r>'; optional cursor row; 'j'/'k' move the cursor"""
        _sizing = frozenset(["flow"])

        def __init__(self, n, h, sel, cy):
            super().__init__()
            self.n, self.h, self._selectable, self.cy = n, h, bool(sel), cy

        def rows(self, size, focus=False):
            return self.h

        def render(self, size, focus=False):
            c = urwid.CompositeCanvas(urwid.TextCanvas([b"%d:%d" % (self.n, r) for r in range(self.h)], maxcol=size[0]))
            if focus and self.cy is not None and self._selectable:
                c.cursor = (0, self.cy)
            return c

        def keypress(self, size, key):
            if key in ("j", "k") and self.cy is not None:
                ncy = self.cy + (1 if key == "j" else -1)
                if 0 <= ncy < self.h:
                    self.cy = ncy
                    self._invalidate()
                    return None
            return key

        def get_cursor_coords(self, size):
            return (0, self.cy) if self.cy is not None else None

        def mouse_event(self, size, event, button, col, row, focus):
            return False

        def spec(self):
            return [self.h, 1 if self._selectable else 0, self.cy]

        def reflow(self, h, sel, cy):
            self.h, self._selectable, self.cy = h, bool(sel), cy
            self._invalidate()

    class Zero(urwid.Widget):
        """zero-height flow widget for the real-widget histories"""
        _sizing = frozenset(["flow"])
        _selectable = False
        n = None

        def rows(self, size, focus=False):
            return 0

        def render(self, size, focus=False):
            return urwid.CompositeCanvas(urwid.TextCanvas([], maxcol=size[0]))

    class Sel(urwid.WidgetWrap):
        """selectable wrapper without a cursor"""

        def selectable(self):
            return True

        def keypress(self, size, key):
            return key

    class IdxWalker(urwid.ListWalker):
        """a custom list walker: walker protocol v1 over integer positions + positions()"""

        def __init__(self, ws):
            self.ws = list(ws)
            self.f = 0

        def get_focus(self):
            if not self.ws:
                return None, None
            return self.ws[self.f], self.f

        def set_focus(self, pos):
            if not isinstance(pos, int) or not 0 <= pos < len(self.ws):
                raise IndexError(f"no position {pos!r}")
            self.f = pos
            self._modified()

        def get_next(self, pos):
            p = pos + 1
            return (self.ws[p], p) if 0 <= p < len(self.ws) else (None, None)

        def get_prev(self, pos):
            p = pos - 1
            return (self.ws[p], p) if 0 <= p < len(self.ws) else (None, None)

        def positions(self, reverse=False):
            return range(len(self.ws) - 1, -1, -1) if reverse else range(len(self.ws))

        def __len__(self):
            return len(self.ws)

        def __iter__(self):
            return iter(list(self.ws))

        # edits (the focus follows its item; a deleted focus item is replaced by its successor)
        def insert(self, i, w):
            i = max(0, min(i, len(self.ws)))
            self.ws.insert(i, w)
            if len(self.ws) > 1 and i <= self.f:
                self.f += 1
            self._modified()

        def __delitem__(self, i):
            del self.ws[i]
            if i < self.f:
                self.f -= 1
            self.f = max(0, min(self.f, len(self.ws) - 1))
            self._modified()

        def __setitem__(self, i, w):
            self.ws[i] = w
            self._modified()

        def __getitem__(self, i):
            return self.ws[i]

        def replace_all(self, ws):
            """any other in-place edit: the focus index is kept when it is still valid"""
            self.ws = list(ws)
            self.f = max(0, min(self.f, len(self.ws) - 1))
            self._modified()

    _W.update(Item=Item, Zero=Zero, Sel=Sel, IdxWalker=IdxWalker, urwid=urwid)
    return _W


def make_widget(kind, n, spec):
    W = widgets()
    urwid = W["urwid"]
    h, sel, cy = spec[:3]
    if kind != "real":
        return W["Item"](n, h, sel, cy)
    if len(spec) > 3 and spec[3] is not None:
        # a multi-shard item: two columns of different heights, every cell labelled (item, row, column)
        left = urwid.Text("\n".join(f"{n}:{r}L" for r in range(h))) if h else W["Zero"]()
        right = urwid.Text("\n".join(f"{n}:{r}R" for r in range(spec[3]))) if spec[3] else W["Zero"]()
        w = urwid.Columns([(REAL_COLS // 2, left), (REAL_COLS // 2, right)])
    elif h == 0:
        w = W["Zero"]()
    else:
        text = "\n".join(f"{n}:{r}" for r in range(h))
        if not sel:
            w = urwid.Text(text)
        elif cy is None:
            w = W["Sel"](urwid.Text(text))
        else:
            w = urwid.Edit("", text, multiline=True)
            w.set_edit_pos(sum(len(f"{n}:{r}") + 1 for r in range(cy)))   # start of line cy
    w.n = n
    return w


def widget_cy(w, cols):
    """cursor row the focus widget itself reports (independent of the list box)"""
    if not w.selectable() or not hasattr(w, "get_cursor_coords"):
        return None
    c = w.get_cursor_coords((cols,))
    return None if c is None else c[1]


def read_rows(canvas):
    """rows of a canvas as ([widget id, row] / [-1, -1] for blank / [-3, -3] for anything else, text of the row).
    A row of a multi-column item carries one label per column: they must name the same (item, row)."""
    out, texts = [], []
    for row in canvas.content():
        txt = b"".join(t for _a, _cs, t in row).decode("ascii", "replace").rstrip()
        texts.append(txt)
        toks = txt.split()
        ms = [re.fullmatch(r"(\d+):(\d+)[LR]?", t) for t in toks]
        if not toks:
            out.append([-1, -1])
        elif all(ms) and len({(m.group(1), m.group(2)) for m in ms}) == 1:
            out.append([int(ms[0].group(1)), int(ms[0].group(2))])
        else:
            out.append([-3, -3])
    return out, texts


def window_candidates(vid, ids, hs):
    """(number of leading non-blank rows, every p such that the stacked rows [p, p+nb) are those rows)"""
    stack = [[ids[k], j] for k, h in enumerate(hs) for j in range(h)]
    nb = next((j for j, row in enumerate(vid) if row == [-1, -1]), len(vid))
    content = vid[:nb]
    if nb == 0:
        return nb, [len(stack)], stack
    return nb, [p for p in range(len(stack) - nb + 1) if stack[p:p + nb] == content], stack


class C07(core.Check):
    pid = "C07"
    gen_modules = ["monitored_list"]       # C16's translated focus arithmetic, used by Model/ListBoxWalker.v
    model_targets = ["theories/Model/MonitoredList.vo", "theories/Model/ListBoxView.vo", "theories/Model/ListBoxWalker.vo"]
    prop_file = "theories/Properties/C07.v"
    extract_v = "Extract/C07X.v"
    allowed_axioms = set()
    design_ref = "DESIGN.md section 5 (C07) and Appendix D"
    search_budget = {"quick": 60, "thorough": 400}
    correspondence_name = "ListBoxView model vs ListBox (render windows, errors, view state after every step)"

    def __init__(self):
        super().__init__()
        self._cache = {}

    # ---------- implementation ----------
    def build(self, case):
        W = widgets()
        urwid = W["urwid"]
        kind = case.get("kind", "item")
        ws = [make_widget(kind, n, spec) for n, spec in enumerate(case["items"])]
        wk = case.get("walker", "sflw")
        if wk == "sflw":
            body = urwid.SimpleFocusListWalker(ws)
        elif wk == "slw":
            body = urwid.SimpleListWalker(ws)
        else:
            body = W["IdxWalker"](ws)
        lb = urwid.ListBox(body)
        if ws:
            body.set_focus(case.get("focus", 0))
        st = case.get("state")
        if st is not None:
            lb.offset_rows, lb.inset_fraction = st[0], (st[1], st[2])
            lb.set_focus_pending = None
            lb._invalidate()
        return lb, body, ws

    @staticmethod
    def lb_state(lb, body):
        w, pos = body.get_focus()
        p = lb.set_focus_pending
        if p is None:
            pe = [0]
        elif p == "first selectable":
            pe = [1]
        else:
            pe = [2, CF.get(p[0], 0), p[2] if isinstance(p[2], int) else -1]
        vp = lb.set_focus_valign_pending
        if vp is None:
            ve = [0]
        elif str(getattr(vp[0], "value", vp[0])) in VALC:
            ve = VALC[str(getattr(vp[0], "value", vp[0]))]
        else:
            ve = [4, vp[1]]
        return [(-1 if w is None else pos), lb.offset_rows, lb.inset_fraction[0], lb.inset_fraction[1], pe, ve]

    @staticmethod
    def modelled(case, a):
        """actions the Coq model executes itself: everything on the labelled item widgets (histories on real
        widgets are judged by the oracle only)"""
        if case.get("kind", "item") != "item":
            return False
        k = a[0]
        return k in ("none", "key", "mouse", "set_focus", "valign", "shift", "change", "mcv") or k in EDITS

    def do_action(self, lb, body, kind, a, size, nxt):
        """returns the 'act' observable or None"""
        k = a[0]
        if k == "none":
            return None
        if k == "key":
            r = lb.keypress(size, a[1])
            return 1 if r is not None else 0
        if k == "mouse":
            r = lb.mouse_event(size, "mouse press", a[1], 0, a[2], True)
            return 1 if r else 0
        if k == "set_focus":
            lb.set_focus(a[1], a[2])
        elif k == "valign":
            v = a[1]
            lb.set_focus_valign(tuple(v) if isinstance(v, list) else v)
        elif k == "shift":
            lb.shift_focus(size, a[1])
        elif k == "change":
            lb.change_focus(size, a[1], a[2], a[3])
        elif k == "mcv":
            lb.make_cursor_visible(size)
        elif k == "insert":
            w = make_widget(kind, nxt[0], a[2])
            nxt[0] += 1
            body.insert(max(0, min(a[1], len(body))), w)
        elif k == "delete":
            if 0 <= a[1] < len(body):
                del body[a[1]]
        elif k == "replace":
            if 0 <= a[1] < len(body):
                body[a[1]] = make_widget(kind, nxt[0], a[2])
                nxt[0] += 1
        elif k == "clear":
            if hasattr(body, "replace_all"):
                body.replace_all([])
            else:
                del body[:]
        elif k == "reflow":
            for w, sp in zip(list(body), a[1]):
                if hasattr(w, "reflow"):
                    w.reflow(*sp)
        elif k == "delslice":
            # deletion of a slice, extended slices (step other than 1) included
            sl = slice(a[1], a[2], a[3])
            if hasattr(body, "replace_all"):
                l = list(body)
                del l[sl]
                body.replace_all(l)
            else:
                del body[sl]
        elif k in ("imul", "iadd", "setslice", "reverse", "sort"):
            new = []
            if k == "iadd":
                new = [make_widget(kind, nxt[0] + i, sp) for i, sp in enumerate(a[1])]
            elif k == "setslice":
                new = [make_widget(kind, nxt[0] + i, sp) for i, sp in enumerate(a[3])]
            nxt[0] += len(new)
            if hasattr(body, "replace_all"):          # the custom walker: the same edit on its plain list
                l = list(body)
                if k == "imul":
                    l *= a[1]
                elif k == "iadd":
                    l += new
                elif k == "setslice":
                    l[a[1]:a[2]] = new
                elif k == "reverse":
                    l.reverse()
                else:
                    l.sort(key=lambda w: w.n, reverse=bool(a[1]))
                body.replace_all(l)
            elif k == "imul":
                body *= a[1]
            elif k == "iadd":
                body += new
            elif k == "setslice":
                body[a[1]:a[2]] = new
            elif k == "reverse":
                body.reverse()
            else:
                body.sort(key=lambda w: w.n, reverse=bool(a[1]))
        else:
            raise core.MachineryError("unknown action " + k)
        return None

    def run_impl(self, case):
        if "ast" in case:
            return {"sites": [list(x) for x in self.scan_sites()[0]]}
        W = widgets()
        urwid = W["urwid"]
        kind = case.get("kind", "item")
        cols = case.get("cols", COLS if kind == "item" else REAL_COLS)
        lb, body, ws = self.build(case)
        nxt = [len(ws)]
        steps, aux = [], []
        keep = []      # like a screen, the harness holds on to the canvases it was given (the canvas cache is weak)
        if case.get("state") is not None:
            urwid.CanvasCache.clear()
        for stp in case["steps"]:
            a, maxrow, ff = stp["a"], stp["mr"], bool(stp["ff"])
            size = (cols, maxrow)
            out, ax = {}, {}
            steps.append(out)
            aux.append(ax)
            ax["mod"] = self.modelled(case, a)
            ax["ids0"] = [getattr(w, "n", None) for w in list(body)]
            ax["nxt0"] = nxt[0]
            try:
                act = self.do_action(lb, body, kind, a, size, nxt)
            except core.MachineryError:
                raise
            except Exception as e:    # noqa: BLE001 - every exception class is an observable here
                if a[0] in EDITS:
                    # a walker edit that raises is the walker's business (C16); the list box goes on with whatever
                    # the walker holds now, and has to show that
                    act = None
                    out["edit_exc"] = type(e).__name__
                else:
                    out.update(err=norm_err(type(e).__name__), exc=type(e).__name__, where="action",
                               msg=re.sub(r"-?\d+", "N", str(e))[:80])
                    break
            cur_ws = list(body)
            ids = [getattr(w, "n", None) for w in cur_ws]
            ax["sa"] = self.lb_state(lb, body)
            ax["items"] = [w.spec() for w in cur_ws] if kind == "item" else None
            ax["dups"] = len(set(map(id, cur_ws))) != len(cur_ws)
            ax["nnew"] = nxt[0] - ax["nxt0"]
            out["fa"] = ax["sa"][0]
            if ax["mod"]:
                out["sa"] = ax["sa"]
                if act is not None:
                    out["act"] = act
            if stp.get("nr"):
                continue                 # a step without a render (requests may stay pending)
            try:
                canv = lb.render(size, ff)
                keep.append(canv)
                del keep[:-3]
                vid, texts = read_rows(canv)
                cur = canv.cursor
            except Exception as e:    # noqa: BLE001
                out.update(err=norm_err(type(e).__name__), exc=type(e).__name__, where="render")
                out["n"] = len(cur_ws)
                break
            out["cur"] = None if cur is None else cur[1]
            out["st"] = self.lb_state(lb, body)
            fw, _fp = body.get_focus()
            f = out["f"] = out["st"][0]
            out["fcy"] = None if (fw is None or not ff) else widget_cy(fw, cols)
            hs = out["hs"] = [w.rows((cols,), False) for w in cur_ws]
            out["sel"] = [1 if w.selectable() else 0 for w in cur_ws]
            out["ids"] = ids
            out["vid"] = vid
            out["view"] = self.positional_view(vid, ids, hs, f)
            if kind != "item":
                # the items' own renderings at that width, for the cell-wise comparison
                out["vt"] = texts
                out["stk"] = [t for w in cur_ws for t in read_rows(w.render((cols,), False))[1]]
        res = {"steps": steps}
        self._cache = {"key": core.canon(case), "res": res, "aux": aux}
        return res

    @staticmethod
    def positional_view(vid, ids, hs, f):
        """the window as [walker position, row]: the rows are located in the stack of the items (the same widget
        may be listed twice after 'walker *= 2'); a window that is no slice keeps the last position of each id"""
        nb, cands, _stack = window_candidates(vid, ids, hs)
        pos = [[k, j] for k, h in enumerate(hs) for j in range(h)]
        if cands and nb:
            before = sum(hs[:f]) if f is not None and 0 <= f < len(hs) else 0
            hf = hs[f] if f is not None and 0 <= f < len(hs) else 0
            best = [p for p in cands if p < before + hf and before < p + nb] or cands
            view = pos[best[0]:best[0] + nb]
        else:
            last = {n: k for k, n in enumerate(ids)}
            view = [[last.get(n, -2), r] if n >= 0 else [n, r] for n, r in vid[:nb]]
        rest = {n: k for k, n in enumerate(ids)}
        return view + [[rest.get(n, -2), r] if n >= 0 else [n, r] for n, r in vid[nb:]]

    # ---------- model wire format ----------
    @staticmethod
    def enc_items(items):
        out = [len(items)]
        for h, sel, cy in items:
            out += [h, 1 if sel else 0, 0 if cy is None else cy + 1]
        return out

    def cached(self, case):
        if self._cache.get("key") != core.canon(case):
            self.run_impl(case)
        return self._cache["res"], self._cache["aux"]

    def plan(self, case):
        """per step: ('model', action ints) | ('sync', state) | ('stop',) ; shared by encode and decode"""
        res, aux = self.cached(case)
        plan = []
        for i, stp in enumerate(case["steps"]):
            if i >= len(res["steps"]):
                break
            a, maxrow = stp["a"], stp["mr"]
            r, ax = res["steps"][i], aux[i]
            k = a[0]
            if ax.get("dups"):
                # the same widget object listed twice ('walker *= 2'): positions in the window are ambiguous,
                # the rest of the history is judged by the oracle only
                plan.append(("stop",))
                break
            if ax["mod"]:
                if k == "none":
                    plan.append(("model", []))
                elif k == "key":
                    plan.append(("model", [2, maxrow, KEYC.get(a[1], 9)]))
                elif k == "valign":
                    v = a[1]
                    plan.append(("model", [10] + (VALC[v] if isinstance(v, str) else [4, v[1]])))
                elif k == "mouse":
                    plan.append(("model", [3, maxrow, a[1], a[2]]))
                elif k == "set_focus":
                    plan.append(("model", [4, a[1], CF[a[2]]]))
                elif k == "shift":
                    plan.append(("model", [7, maxrow, a[1]]))
                elif k == "change":
                    plan.append(("model", [8, maxrow, a[1], a[2], CF[a[3]]]))
                elif k == "mcv":
                    plan.append(("model", [9, maxrow]))
                elif case.get("walker", "sflw") == "sflw":
                    # SimpleFocusListWalker: the edit is executed by the MonitoredFocusList model of C16 inside
                    # Model/ListBoxWalker.v - the focus after the edit is computed by the model
                    if "sa" not in ax:
                        plan.append(("stop",))
                        break
                    plan.append(("model", self.enc_edit(a, ax)))
                else:   # other walkers: the model is told the new contents and the walker's focus
                    if "sa" not in ax:
                        plan.append(("stop",))
                        break
                    plan.append(("model", [6] + self.enc_items(ax["items"]) + [ax["sa"][0]]))
            else:
                if "st" not in r and not (stp.get("nr") and "sa" in ax):
                    plan.append(("stop",))
                    break
                st = r["st"] if "st" in r else ax["sa"]
                plan.append(("sync", [6] + self.enc_items(ax["items"]) + [st[0]] + [5, st[0], st[1], st[2], st[3]] + list(st[4]) + list(st[5])))
        return plan

    @staticmethod
    def enc_tab(pairs):
        out = [len(pairs)]
        for n, (h, sel, cy) in pairs:
            out += [n, h, 1 if sel else 0, 0 if cy is None else cy + 1]
        return out

    def enc_edit(self, a, ax):
        """a walker edit as an operation of C16's MonitoredFocusList model (Model/MonitoredList.v dec_op) on widget
        identities, preceded by the table of the widgets created for it"""
        def oz(v):
            return [0] if v is None else [1, v]
        k, ids0, n0 = a[0], ax["ids0"], ax["nxt0"]
        m = len(ids0)
        new = []
        if k == "reflow":
            return [12] + self.enc_tab(list(zip(ids0, [sp[:3] for sp in a[1]])))
        if k == "insert":
            new = [(n0, a[2][:3])]
            op = [5, max(0, min(a[1], m)), n0]
        elif k == "delete":
            if not 0 <= a[1] < m:
                return []
            op = [1, a[1]]
        elif k == "replace":
            if not 0 <= a[1] < m:
                return []
            new = [(n0, a[2][:3])]
            op = [2, a[1], n0]
        elif k == "clear":
            op = [3, 0, 0, 0]
        elif k == "imul":
            op = [13, a[1]]
        elif k == "iadd":
            new = [(n0 + i, sp[:3]) for i, sp in enumerate(a[1])]
            op = [12, len(new)] + [n for n, _ in new]
        elif k == "setslice":
            new = [(n0 + i, sp[:3]) for i, sp in enumerate(a[3])]
            op = [4] + oz(a[1]) + oz(a[2]) + [0] + [len(new)] + [n for n, _ in new]
        elif k == "delslice":
            op = [3] + oz(a[1]) + oz(a[2]) + oz(a[3])
        elif k == "reverse":
            op = [10]
        elif k == "sort":
            op = [11, 1 if a[1] else 0]
        else:
            raise core.MachineryError("no model operation for edit " + k)
        return [11] + self.enc_tab(new) + op

    def encode(self, case):
        if "ast" in case or case.get("kind", "item") != "item":
            return None
        st = case.get("state")
        l = self.enc_items(case["items"]) + [case.get("focus", 0) if case["items"] else -1]
        l += ([st[0], st[1], st[2], 0, 0] if st is not None else [0, 0, 1, 1, 0])
        ops = []
        for stp, pl in zip(case["steps"], self.plan(case)):
            if pl[0] == "stop":
                break
            ops += pl[1] + ([] if stp.get("nr") else [1, stp["mr"], 1 if stp["ff"] else 0])
        return l + [len(case["steps"])] + ops

    def decode(self, case, ints):
        res, _aux = self.cached(case)
        it = iter(ints)

        def state():
            f, o, n, d = next(it), next(it), next(it), next(it)
            p = next(it)
            pe = [p] if p in (0, 1) else [2, next(it), next(it)]
            v = next(it)
            ve = [v] if v != 4 else [4, next(it)]
            return [f, o, n, d, pe, ve]

        def reply():
            """one model reply: (err | None, outcome, state)"""
            c = next(it)
            if c != 0:
                return norm_err(ERRN.get(c, "?")), None, None
            t = next(it)
            if t == 0:
                oc = None
            elif t == 3:
                oc = ("edit", next(it))
            elif t == 1:
                oc = next(it)
            else:
                n = next(it)
                rows = [[next(it), next(it)] for _ in range(n)]
                cur = None if next(it) == 0 else next(it)
                oc = (rows, cur)
            return None, oc, state()

        steps = []
        try:
            for i, (stp, pl) in enumerate(zip(case["steps"], self.plan(case))):
                r = res["steps"][i]
                a = stp["a"]
                out = {}
                steps.append(out)
                if pl[0] == "stop":
                    out.update(r)           # nothing comparable from here on: the steps are taken as they are
                    steps.extend(dict(x) for x in res["steps"][i + 1:])
                    break
                if pl[0] == "model":
                    if pl[1]:
                        err, oc, st = reply()
                        if err:
                            out.update(err=err, exc=r.get("exc"), where="action", msg=r.get("msg"))
                            break
                    else:
                        st, oc = r.get("sa"), None
                    if isinstance(oc, tuple) and oc[0] == "edit":
                        if oc[1]:
                            out["edit_exc"] = ERRN.get(oc[1], "?")     # the exception is computed by the model
                    elif "edit_exc" in r:
                        out["edit_exc"] = r["edit_exc"]
                    out["fa"] = st[0]
                    out["sa"] = st
                    if a[0] in ("key", "mouse"):
                        out["act"] = oc
                else:
                    reply()                 # OItems
                    reply()                 # OSync
                    out["fa"] = r.get("fa")
                if stp.get("nr"):
                    continue
                err, oc, st = reply()
                if err:
                    out.update(err=err, exc=r.get("exc"), where="render")
                    out["n"] = r.get("n")
                    break
                out["view"], out["cur"] = oc
                out["st"] = st
                out["f"] = st[0]
                for kk in ("fcy", "hs", "sel", "ids", "vid"):
                    out[kk] = r.get(kk)
        except StopIteration:
            return {"malformed": ints[:60]}
        return {"steps": steps}

    # ---------- oracle: written from the property text; uses only the case and what was observed ----------
    # exceptions raised by keypress / mouse_event on the reference tree: (key | "mouse", class, message class)
    BASELINE_FILE = os.path.join(core.ROOT, "corpus", "C07", "baseline_keypress_exceptions.json")
    _baseline = None

    def baseline(self):
        if self._baseline is None:
            try:
                self._baseline = {tuple(x) for x in json.load(open(self.BASELINE_FILE))["baseline"]}
            except (OSError, ValueError, KeyError):
                self._baseline = set()
        return self._baseline

    def corpus_cases(self):
        out = []
        for path in sorted(glob.glob(os.path.join(core.ROOT, "corpus", self.pid, "*.json"))):
            if os.path.basename(path).startswith("baseline"):
                continue
            j = json.load(open(path))
            out.extend(j if isinstance(j, list) else [j])
        return out

    def oracle(self, case, res):
        if "ast" in case:
            return [m for c, m in self.judge_sites([tuple(x) for x in res["sites"]]) if c["ast"][:4] == case["ast"][:4]]
        msgs = []
        steps = res.get("steps", [])
        for i, r in enumerate(steps):
            stp = case["steps"][i]
            a, maxrow, ff = stp["a"], stp["mr"], bool(stp["ff"])
            tag = f"step {i} ({a[0]}{' ' + str(a[1]) if a[0] == 'key' else ''})"
            if "err" in r:
                if r.get("where") == "render":
                    msgs.append(f"{tag}: render raised {r.get('exc')}")
                elif a[0] in ("key", "mouse"):
                    # An exception out of keypress / mouse_event is not literally "rendering raises", but it ends the
                    # history.  Regression oracle: only the situations in which the reference tree raises are accepted.
                    sig = (a[1] if a[0] == "key" else "mouse", r.get("exc"), r.get("msg"))
                    if sig not in self.baseline():
                        msgs.append(f"{tag}: {'keypress' if a[0] == 'key' else 'mouse_event'} raised {r.get('exc')} "
                                    f"'{r.get('msg')}': not one of the recorded situations in which the reference tree "
                                    f"raises (corpus/C07/baseline_keypress_exceptions.json); the history can not go on")
                # exceptions raised by the direct calls (set_focus, shift_focus, change_focus) report invalid arguments
                break
            if "vid" not in r:
                continue
            vid, ids, hs, f = r["vid"], r["ids"], r["hs"], r["f"]
            if len(vid) != maxrow:
                msgs.append(f"{tag}: rendered {len(vid)} rows in a box of {maxrow}")
                continue
            nb, cands, stack = window_candidates(vid, ids, hs)
            if any(row != [-1, -1] for row in vid[nb:]):
                msgs.append(f"{tag}: a blank row lies above a row of an item: {vid}")
                continue
            if [-3, -3] in vid:
                msgs.append(f"{tag}: a row is not a row of any item (its cells are unreadable or name different rows): "
                            f"{r.get('vt', vid)}")
                continue
            if not cands:
                msgs.append(f"{tag}: the rows shown are not a contiguous slice of the stacked items: {vid}")
                continue
            vt, stk = r.get("vt"), r.get("stk")

            def complaints(p):
                c = []
                if nb < maxrow:
                    if p + nb != len(stack):
                        c.append(f"{tag}: blank rows below row {p + nb - 1} although items continue below: {vid}")
                    elif p != 0:
                        c.append(f"{tag}: blank rows at the bottom while {p} rows above the window are not shown: {vid}")
                if f is not None and 0 <= f < len(hs):
                    before = sum(hs[:f])
                    if hs[f] >= 1 and not (p < before + hs[f] and before < p + nb):
                        c.append(f"{tag}: no row of the focus item {f} is visible: {vid}")
                    fcy = r.get("fcy")
                    if fcy is not None and hs[f] >= 1 and ff:
                        cur = r.get("cur")
                        if cur is None or not (0 <= cur < nb) or cur != before + fcy - p:
                            c.append(f"{tag}: the cursor row {fcy} of the focus item {f} is not shown at the canvas cursor "
                                     f"(cursor y {cur}): {vid}")
                elif stack:
                    c.append(f"{tag}: no focus although the list has rows")
                if vt is not None and stk is not None and len(stk) == len(stack):
                    if vt[:nb] != stk[p:p + nb]:
                        bad = next(k for k in range(nb) if vt[k] != stk[p + k])
                        c.append(f"{tag}: cell-wise, row {bad} of the window shows {vt[bad]!r} where the item's own rendering "
                                 f"has {stk[p + bad]!r}: not a slice of the concatenated renderings")
                return c

            best = min((complaints(p) for p in cands), key=len)
            msgs.extend(best)
            # button-1 press on a visible selectable item makes it the focus
            if a[0] == "mouse" and a[1] == 1 and i > 0:
                prev, pstp = steps[i - 1], case["steps"][i - 1]
                if "view" in prev and pstp["mr"] == maxrow and pstp["ff"] and 0 <= a[2] < maxrow:
                    tgt, fa = prev["view"][a[2]][0], r.get("fa")
                    pid = prev["ids"]
                    if 0 <= tgt < len(pid) and prev["sel"][tgt] and not (fa is not None and 0 <= fa < len(pid) and pid[fa] == pid[tgt]):
                        msgs.append(f"{tag}: button-1 press on row {a[2]} (selectable item {tgt}) left the focus at {fa}")
        return msgs

    def nontrivial(self, case, res):
        if "ast" in case:
            return True
        return any(("view" in s and any(row != [-1, -1] for row in s["view"])) or "err" in s for s in res.get("steps", []))

    def signature(self, case, msg):
        msg = re.sub(r"\[\[.*", "", msg)
        return re.sub(r"\d+", "N", msg)

    def distribution(self, case, res, dist):
        if "ast" in case:
            return

        def inc(k):
            dist[k] = dist.get(k, 0) + 1
        inc("kind:" + case.get("kind", "item") + ("/state" if case.get("state") is not None else "/history"))
        inc("walker:" + case.get("walker", "sflw"))
        inc("items:%d" % min(len(case["items"]), 9))
        for stp, r in zip(case["steps"], res.get("steps", [])):
            a = stp["a"]
            inc("action:" + a[0] + (":" + str(a[1]) if a[0] == "key" else ""))
            if "edit_exc" in r:
                inc(f"walker_edit_raised:{a[0]}:{r['edit_exc']}")
            if a[0] == "delslice" and a[3] not in (1, None):
                inc("extended_slice_deletion")
            if "err" in r:
                inc(f"raised:{r['where']}:{a[0]}{':' + str(a[1]) if a[0] == 'key' else ''}:{r.get('exc')}"
                    + (f":{r.get('msg')}" if a[0] in ("key", "mouse") else ""))
                continue
            if "view" not in r:
                inc("step_without_render")
                continue
            nb = sum(1 for row in r["view"] if row != [-1, -1])
            inc("view:" + ("full" if nb == len(r["view"]) else "blank" if nb == 0 else "short"))
            f, hs = r["f"], r["hs"]
            if f is not None and 0 <= f < len(hs) and hs[f] == 0:
                inc("focus_zero_height")
            if r.get("fcy") is not None:
                inc("cursor_checked")
            if r["st"][2] != 0:
                inc("inset_state")
            if len(set(r["ids"])) != len(r["ids"]):
                inc("walker_lists_a_widget_twice")
            if r.get("vt") and r["vid"][0][1] > 0 and re.search(r"[LR]\b", r["vt"][0]):
                inc("multi_shard_item_cut_at_the_top")

    # ---------- generators ----------
    @staticmethod
    def step(a, mr, ff=1):
        return {"a": a, "mr": mr, "ff": ff}

    def state_cases(self, nmax, hmax, mrmax):
        wk = itertools.cycle(["sflw", "slw", "custom"])
        for n in range(1, nmax + 1):
            for hs in itertools.product(range(0, hmax + 1), repeat=n):
                for maxrow in range(1, mrmax + 1):
                    for fpos in range(n):
                        for off in range(0, maxrow + 2):
                            insets = [(0, 1)] if off else [(0, 1), (1, 2), (1, 3), (2, 3)]
                            for ins in insets:
                                for cy in [None] + list(range(hs[fpos])):
                                    items = [[hs[i], 1, cy if i == fpos else None] for i in range(n)]
                                    yield {"walker": next(wk), "items": items, "focus": fpos,
                                           "state": [off, ins[0], ins[1]],
                                           "steps": [self.step(["none"], maxrow, 1)]}

    KEYS = ["up", "down", "page up", "page down", "home", "end", "j", "k", "x"]

    def rand_spec(self, rng, hmax, kind="item"):
        h = rng.choice([0, 1, 1, 2, 3, hmax, hmax + 2])
        if kind == "real" and rng.random() < 0.3:
            # a multi-shard item: two columns of different heights
            return [h, 0, None, rng.choice([x for x in (0, 1, 2, 3, 5, hmax + 1) if x != h])]
        sel = rng.random() < 0.6
        cy = rng.randrange(h) if (h and sel and rng.random() < 0.6) else None
        return [h, 1 if sel else 0, cy]

    def random_history(self, rng, kind="item", nsteps=12):
        n = rng.choice([0, 1, 2, 3, 3, 4, 5, 7])
        hmax = rng.choice([2, 3, 5])
        items = [self.rand_spec(rng, hmax, kind) for _ in range(n)]
        if kind == "item" and rng.random() < 0.2:
            for it in items:
                it[1] = 1
        maxrow = rng.choice([1, 2, 3, 4, 5, 6])
        case = {"kind": kind, "walker": rng.choice(["sflw", "sflw", "slw", "custom"]), "items": items,
                "focus": rng.randrange(n) if n else 0, "steps": []}
        if kind == "item" and rng.random() < 0.3 and n:
            off = rng.randrange(0, maxrow + 2)
            d = rng.choice([1, 2, 3, 5])
            case["state"] = [off, (rng.randrange(d) if off == 0 else 0), d]
        cur = [list(x) for x in items]
        steps = [self.step(["none"], maxrow, 1)]
        for _ in range(nsteps):
            x = rng.random()
            ff = 0 if rng.random() < 0.1 else 1
            if rng.random() < 0.12:
                maxrow = rng.choice([1, 2, 3, 4, 5, 6, 8])
            m = len(cur)
            if x < 0.45:
                # characters would change the row labels of a real Edit: cursor keys only there
                a = ["key", rng.choice(self.KEYS[:6] * 3 + (self.KEYS[6:] if kind == "item" else ["left", "right", "right"]))]
            elif x < 0.57:
                a = ["mouse", rng.choice([1, 1, 1, 4, 5, 2]), rng.randrange(maxrow)]
            elif x < 0.67:
                a = ["set_focus", rng.randrange(m) if m and rng.random() < 0.93 else rng.choice([-1, m, m + 2]),
                     rng.choice([None, "above", "below"])]
            elif x < 0.73:
                a = ["valign", rng.choice(["top", "middle", "bottom", ["relative", rng.choice([0, 10, 33, 50, 90, 100])]])]
            elif x < 0.80:
                a = ["insert", rng.randrange(m + 1), self.rand_spec(rng, hmax, kind)]
            elif x < 0.86:
                a = ["delete", rng.randrange(m)] if m else ["none"]
            elif x < 0.89:
                a = ["replace", rng.randrange(m), self.rand_spec(rng, hmax, kind)] if m else ["none"]
            elif x < 0.905 and kind == "item":
                a = ["reflow", [self.rand_spec(rng, hmax) for _ in range(m)]]
            elif x < 0.92:
                y = rng.randrange(7)
                if y >= 5:
                    a = ["delslice", rng.choice([None, None, 0, 1, 2, -1]), rng.choice([None, None, None, m, -1, 2]),
                         rng.choice([2, 2, 3, -1, -2, -3, 1])]
                elif y == 0:
                    a = ["imul", rng.choice([0, 1, 2, 2, 3])]
                elif y == 1:
                    a = ["iadd", [self.rand_spec(rng, hmax, kind) for _ in range(rng.choice([0, 1, 2]))]]
                elif y == 2:
                    i0 = rng.randrange(m + 1)
                    a = ["setslice", i0, min(m, i0 + rng.choice([0, 1, 2])),
                         [self.rand_spec(rng, hmax, kind) for _ in range(rng.choice([0, 1, 2]))]]
                elif y == 3:
                    a = ["reverse"]
                else:
                    a = ["sort", rng.choice([0, 1])]
            elif x < 0.93:
                a = ["clear"]
            elif x < 0.96 and m:
                a = ["shift", rng.randrange(-hmax, maxrow + 1)]
            elif x < 0.98 and m:
                a = ["change", rng.randrange(m), rng.randrange(-hmax, maxrow + 2), rng.choice([None, "above", "below"])]
            elif m:
                a = ["mcv"]
            else:
                a = ["none"]
            if a[0] == "insert":
                cur.insert(a[1], a[2])
            elif a[0] == "delete":
                del cur[a[1]]
            elif a[0] == "replace":
                cur[a[1]] = a[2]
            elif a[0] == "reflow":
                cur = [list(x) for x in a[1]]
            elif a[0] == "clear":
                cur = []
            elif a[0] == "imul":
                cur = cur * a[1]
            elif a[0] == "iadd":
                cur = cur + a[1]
            elif a[0] == "setslice":
                cur[a[1]:a[2]] = a[3]
            elif a[0] == "delslice":
                del cur[slice(a[1], a[2], a[3])]
            steps.append(self.step(a, maxrow, ff))
            if a[0] in ("set_focus", "valign", "insert", "delete", "replace", "clear", "imul", "iadd", "setslice", "delslice") and rng.random() < 0.25:
                steps[-1]["nr"] = 1
        case["steps"] = steps
        return case

    def key_histories(self, rng, nmax, depth, sample):
        """every key sequence of the given depth over small lists (sampled lists when sample is set)"""
        keys = ["up", "down", "page up", "page down", "home", "end"]
        lists = []
        for n in range(1, nmax + 1):
            for hs in itertools.product(range(0, 4), repeat=n):
                for sels in itertools.product([0, 1], repeat=n):
                    lists.append((hs, sels))
        if sample and len(lists) > sample:
            lists = rng.sample(lists, sample)
        for hs, sels in lists:
            n = len(hs)
            for maxrow in (1, 2, 4):
                items = [[hs[i], sels[i], (hs[i] - 1 if (hs[i] and sels[i] and i % 2 == 0) else None)] for i in range(n)]
                for seq in itertools.product(keys, repeat=depth):
                    yield {"walker": "sflw", "items": items, "focus": rng.randrange(n),
                           "steps": [self.step(["none"], maxrow)] + [self.step(["key", k], maxrow) for k in seq]}

    def shard_histories(self, rng, n):
        """lists with multi-shard items (two columns of different heights) scrolled line by line through boxes
        of every small height, down and back up"""
        pairs = [(5, 2), (2, 5), (4, 1), (1, 4), (3, 6), (6, 3), (3, 0), (0, 3), (2, 2)]
        for _ in range(n):
            k = rng.choice([1, 2, 2, 3])
            items = []
            for _i in range(k):
                a, b = rng.choice(pairs)
                items.append([a, 0, None, b])
                items += [[rng.choice([1, 1, 2]), 0, None] for _j in range(rng.choice([0, 1, 2]))]
            if rng.random() < 0.5:
                items.insert(rng.randrange(len(items) + 1), [rng.choice([1, 3]), 1, 0])
            total = sum(max(x[0], x[3] if len(x) > 3 else 0) for x in items)
            maxrow = rng.choice([1, 2, 3, 4, 5])
            keys = ["down"] * (total + 1) + ["up"] * (total + 1) if rng.random() < 0.6 else \
                   [rng.choice(["down", "down", "page down", "up", "page up", "end", "home"]) for _i in range(total + 4)]
            yield {"kind": "real", "walker": rng.choice(["sflw", "slw", "custom"]), "items": items, "focus": 0,
                   "steps": [self.step(["none"], maxrow)] + [self.step(["key", key], maxrow) for key in keys]}

    def spaced_histories(self, kind, gaps, heights):
        """selectable items separated by `gap` one-row unselectable ones, paged through boxes of every height"""
        seq = ["page down", "page down", "page up", "page down", "page down", "page down", "page up", "page up"]
        for gap in gaps:
            for maxrow in heights:
                for rows in (1, 2):
                    items = []
                    for _n in range(4):
                        items.append([rows, 1, rows - 1])
                        items += [[1, 0, None] for _i in range(gap)]
                    yield {"kind": kind, "walker": "sflw", "items": items, "focus": 0,
                           "steps": [self.step(["none"], maxrow)] + [self.step(["key", key], maxrow) for key in seq]}

    def edit_histories(self, rng):
        """every kind of in-place walker edit between two renders at the same size (the previous canvas is still
        referenced, as by a screen): the second render has to show the edited list"""
        fresh = [[2, 1, None], [1, 0, None]]
        for wk in ("sflw", "slw", "custom"):
            for kind in ("item", "real"):
                for n in (1, 2, 4, 5):
                    items = [[rng.choice([1, 1, 2]), rng.choice([0, 1]), None] for _ in range(n)]
                    # slice deletions (extended ones included) for every focus position
                    for st, sp, stp in ((None, None, 2), (1, None, 2), (None, None, 3), (None, None, -2), (None, None, -1),
                                        (1, None, 3), (None, -1, 2), (0, 2, 1), (n - 1, None, 1), (-2, None, 1)):
                        for f in range(n):
                            yield {"kind": kind, "walker": wk, "items": items, "focus": f,
                                   "steps": [self.step(["none"], 4), self.step(["delslice", st, sp, stp], 4),
                                             self.step(["key", "down"], 4), self.step(["key", "up"], 4)]}
                    edits = [["imul", 0], ["imul", 2], ["imul", 3], ["iadd", fresh], ["iadd", []],
                             ["setslice", 0, 1, fresh], ["setslice", n, n, fresh], ["setslice", 0, n, []],
                             ["reverse"], ["sort", 1], ["insert", 0, fresh[0]], ["insert", n, fresh[1]],
                             ["delete", 0], ["delete", n - 1], ["replace", 0, fresh[0]], ["clear"]]
                    for e in edits:
                        for maxrow in (3, 6):
                            yield {"kind": kind, "walker": wk, "items": items, "focus": rng.randrange(n),
                                   "steps": [self.step(["none"], maxrow), self.step(e, maxrow), self.step(["none"], maxrow),
                                             self.step(["key", "down"], maxrow)]}

    def cases(self, rng, tier):
        if tier == "quick":
            yield from self.state_cases(3, 3, 4)
            for _ in range(1500):
                yield self.random_history(rng, "item", rng.choice([6, 10, 14]))
            for _ in range(400):
                yield self.random_history(rng, "real", rng.choice([6, 10, 14]))
            yield from self.key_histories(rng, 3, 2, 12)
            yield from self.shard_histories(rng, 150)
            yield from self.spaced_histories("real", range(0, 8), range(1, 8))
            yield from self.spaced_histories("item", range(0, 8), range(1, 8))
            yield from self.edit_histories(rng)
        else:
            yield from self.state_cases(3, 4, 5)
            for _ in range(45000):
                yield self.random_history(rng, "item", rng.choice([6, 10, 14, 24]))
            for _ in range(10000):
                yield self.random_history(rng, "real", rng.choice([6, 10, 14, 24]))
            yield from self.key_histories(rng, 3, 3, 120)
            yield from self.shard_histories(rng, 3000)
            yield from self.spaced_histories("real", range(0, 12), range(1, 12))
            yield from self.spaced_histories("item", range(0, 12), range(1, 12))
            for _ in range(4):
                yield from self.edit_histories(rng)

    def search_cases(self, rng, tier):
        yield from self.state_cases(2, 4, 6)
        while True:
            yield self.random_history(rng, rng.choice(["item", "item", "real"]), rng.choice([4, 8, 16]))

    def shrink_candidates(self, case):
        if "steps" not in case:
            return
        steps = case["steps"]
        for i in range(len(steps) - 1, -1, -1):
            c = dict(case)
            c["steps"] = steps[:i] + steps[i + 1:]
            if c["steps"]:
                yield c
        for i in range(len(steps) - 1, 0, -1):
            if steps[i]["a"][0] != "none":
                c = dict(case)
                c["steps"] = steps[:i]
                yield c
        n = len(case["items"])
        edits = any(s["a"][0] in EDITS + ("set_focus", "change") for s in steps)
        if n > 1 and not edits:
            for i in range(n):
                if i == case.get("focus", 0):
                    continue
                c = dict(case)
                c["items"] = case["items"][:i] + case["items"][i + 1:]
                c["focus"] = case.get("focus", 0) - (1 if i < case.get("focus", 0) else 0)
                yield c
        for i in range(n):
            h, sel, cy = case["items"][i][:3]
            if h > 1 and (cy is None or cy < h - 1):
                c = dict(case)
                c["items"] = [list(x) for x in case["items"]]
                c["items"][i][0] = h - 1
                yield c

    # ---------- the two-writers scan (part of the tie between the theorems and the code) ----------
    def scan_sites(self):
        sites, problems = [], []
        root = os.path.join(core.REPO, "urwid")
        for path in sorted(glob.glob(os.path.join(root, "**", "*.py"), recursive=True)):
            rel = os.path.relpath(path, core.REPO)
            try:
                tree = ast.parse(open(path, encoding="utf8").read())
            except SyntaxError as e:
                problems.append(({"ast": [rel, "", "", "", 0, "syntax"]}, f"cannot parse {rel}: {e}"))
                continue
            self._scan(tree, rel, sites)
        return sites, problems

    @staticmethod
    def judge_sites(sites):
        viols = []
        expected = {("urwid/widget/listbox.py", "ListBox", fn) for fn in WRITERS}
        per = {}
        for rel, cls, fn, attr, line, how in sites:
            per[(rel, cls, fn, attr)] = per.get((rel, cls, fn, attr), 0) + 1
            if (rel, cls, fn) not in expected or how != "assign":
                viols.append(({"ast": [rel, cls, fn, attr, line, how]},
                              f"offset_rows/inset_fraction written outside shift_focus/change_focus: {rel}:{line} "
                              f"{cls}.{fn} ({how} of {attr}); the invariant argument of C07 no longer covers the code"))
        want = {("__init__", 1), ("shift_focus", 2), ("change_focus", 2)}
        for fn, cnt in want:
            for attr in VIEW_ATTRS:
                got = per.get(("urwid/widget/listbox.py", "ListBox", fn, attr), 0)
                if got != cnt:
                    viols.append(({"ast": ["urwid/widget/listbox.py", "ListBox", fn, attr, got, "count"]},
                                  f"ListBox.{fn} writes {attr} at {got} sites, the model has {cnt}"))
        return viols

    def extra_checks(self, tier, rng, ev):
        sites, problems = self.scan_sites()
        ev["dist"]["view_state_write_sites"] = len(sites)
        return problems + self.judge_sites(sites)

    @staticmethod
    def _scan(tree, rel, sites):
        def targets(node):
            if isinstance(node, (ast.Tuple, ast.List)):
                for e in node.elts:
                    yield from targets(e)
            elif isinstance(node, ast.Starred):
                yield from targets(node.value)
            else:
                yield node

        def visit(node, cls, fn):
            for child in ast.iter_child_nodes(node):
                c, f = cls, fn
                if isinstance(child, ast.ClassDef):
                    c, f = child.name, None
                elif isinstance(child, (ast.FunctionDef, ast.AsyncFunctionDef)):
                    f = child.name if fn is None else fn + "." + child.name
                tg, how = [], "assign"
                if isinstance(child, ast.Assign):
                    tg = [t for x in child.targets for t in targets(x)]
                elif isinstance(child, (ast.AugAssign, ast.AnnAssign)):
                    tg, how = list(targets(child.target)), "assign" if isinstance(child, ast.AnnAssign) else "augassign"
                elif isinstance(child, ast.Delete):
                    tg, how = [t for x in child.targets for t in targets(x)], "del"
                elif isinstance(child, (ast.For, ast.AsyncFor)):
                    tg, how = list(targets(child.target)), "for-target"
                elif isinstance(child, (ast.With, ast.AsyncWith)):
                    tg, how = [t for it in child.items if it.optional_vars is not None for t in targets(it.optional_vars)], "with-target"
                elif isinstance(child, ast.NamedExpr):
                    tg = [child.target]
                for t in tg:
                    if isinstance(t, ast.Attribute) and t.attr in VIEW_ATTRS:
                        sites.append((rel, c, f, t.attr, t.lineno, how))
                if isinstance(child, ast.Call):
                    fnm = child.func.id if isinstance(child.func, ast.Name) else getattr(child.func, "attr", "")
                    if fnm in ("setattr", "delattr", "__setattr__", "__delattr__") or fnm == "update":
                        for arg in child.args:
                            if isinstance(arg, ast.Constant) and arg.value in VIEW_ATTRS:
                                sites.append((rel, c, f, arg.value, child.lineno, fnm))
                        for kw in child.keywords:
                            if kw.arg in VIEW_ATTRS:
                                sites.append((rel, c, f, kw.arg, child.lineno, fnm + "-kw"))
                visit(child, c, f)
        visit(tree, None, None)

    technique = ("[walker edits: C16 model imported] Coq proof that EVERY view state with offset_rows >= 0 and 0 <= inum < iden renders a gap-free window "
                 "(three fill loops of calculate_visible in closed form, lia), that the only two writers of the view state "
                 "establish that invariant and that any history preserves it; hand model tied by an exact extracted-model "
                 "correspondence on states and histories; ast scan of the write sites; slice oracle on real list boxes")
    level_text = ("Proved in Coq, no size bounds.  view_ok: for every list of flow widgets with heights >= 0 (zero-height included), "
                  "every focus, offset_rows >= 0, inset fraction 0 <= n < d, maxrow >= 1, focus flag and cursor row inside the "
                  "focus widget, render does not raise and shows the slice [p, p+maxrow) of the stacked item rows followed by "
                  "blanks only; blanks only when p = 0; a focus item with >= 1 row has a row in the slice; the cursor row is in "
                  "the slice at the canvas cursor.  writers_establish_view_ok + history_keeps_view_ok + "
                  "page_and_alignment_ops_keep_view_ok: shift_focus and change_focus (with any snap_rows; the only writers of "
                  "offset_rows/inset_fraction - ast scan of all of urwid on every run) always leave such a state, and any history "
                  "of render / up / down / PAGE UP / PAGE DOWN / HOME / END / item keys / mouse press and wheel / set_focus / "
                  "SET_FOCUS_VALIGN / direct shift_focus, change_focus, make_cursor_visible calls / walker edits keeps it (all of "
                  "these are now inside the model and compared exactly; OSync remains only as a stand-in for foreign code).  "
                  "render_never_raises / render_never_raises_any_history: after any such history render completes a pending "
                  "'first selectable', set_focus (also a stale one) or set_focus_valign request without raising and shows such a "
                  "window.  mouse_press_focuses.  page_down_never_raises: keypress 'page down' (and _keypress_page_down) never "
                  "raises and leaves a ViewOK state over the same widgets (before the repair 1f3edac it was refuted: a candidate "
                  "completely above the new page; kept as a regression case).  page_up_never_raises, home_end_never_raise: the same for 'page up', 'home', 'end'.  "
                  "NOT proved: that 'up', 'down' and mouse_event never raise (correspondence + regression "
                  "oracle with an empty baseline: any exception out of keypress / mouse_event is reported).  "
                  "operations_are_chains_of_atomic_transitions: every state an operation returns is reached through the two "
                  "writers, walker set_focus calls on existing positions, pending-flag updates and cursor moves.  "
                  "walker_histories_keep_focus_and_view_valid + window_contains_focus_after_any_history_of_keys_and_edits: for a "
                  "list box over a SimpleFocusListWalker the walker edits (item/slice assignment and deletion with any step, "
                  "insert, +=, *=, reverse, sort) are executed by C16's MonitoredFocusList model (focus arithmetic re-translated "
                  "from monitored_list.py each run, C16's theorem step_sound imported), so the focus after an edit is computed "
                  "by the model; over any history of keys, mouse events, requests and edits the focus stays inside the list, "
                  "render never raises and a non-empty list is never drawn blank.  "
                  "NOT modelled: widgets with move_cursor_to_coords (real Edit histories are oracle only), widgets whose "
                  "rows()/render()/cursor disagree, wrap-around walkers, maxrow = 0; canvas-level trimming of multi-shard items "
                  "and cache invalidation by walker edits are oracle only; exceptions out of keypress / mouse_event are judged "
                  "by a regression oracle (signatures recorded from the reference tree).")
    level_note = ("Trusted: Coq kernel; the hand transcription Model/ListBoxView.v (validated by exact correspondence: 17 100 "
                  "directly written states + ~2000 random histories per quick run on three walker kinds); the ast scan "
                  "that finds every assignment to offset_rows/inset_fraction; ExtrOcamlBasic extraction + OCaml driver; the "
                  "Python oracle.  Assumes item widgets whose rows() and render() agree and whose cursor row lies inside the "
                  "widget, heights >= 0, maxrow >= 1, index walkers without wrap-around.")
    rule = ("cases = (walker kind, items [rows, selectable, cursor row, optional second-column height], focus, optional "
            "directly written offset_rows / inset_fraction, steps); each step is one action (render only, "
            "up/down/page up/page down/home/end/item keys, mouse press button 1/2/4/5, set_focus with coming_from, "
            "set_focus_valign, shift_focus, change_focus, make_cursor_visible, walker insert/delete/replace/clear/*=/+=/"
            "slice assignment/slice deletion (extended slices included)/reverse/sort, in-place reflow of every item) followed by render((cols, maxrow), focus) unless "
            "flagged 'nr'; the previous canvases stay referenced, as by a screen, so a stale cached canvas shows.  Exhaustive "
            "states: <= 3 items x heights 0..3 x maxrow 1..4 x every focus x offset 0..maxrow+1 x inset fractions x cursor "
            "rows; random histories on labelled item widgets (model compared) and on real Text/Edit/selectable/two-column "
            "(multi-shard) widgets (oracle only, window compared cell-wise with the items' own renderings); every key pair on "
            "small lists; multi-shard lists scrolled line by line; regularly spaced selectable items paged through every box "
            "height; every kind of walker edit between two renders.  An exception out of keypress/mouse_event is accepted "
            "only with a signature recorded from the reference tree (corpus/C07/baseline_keypress_exceptions.json).  "
            "non-trivial = some render showed an item row or something raised; distinct by hash of (case, outcome)")
    trusted_base = [
        "Coq 8.16.1 kernel (coqc; vm_compute only in closed examples and the refutation witness)",
        "hand transcription of calculate_visible/render/shift_focus/change_focus/make_cursor_visible/_set_focus_complete/"
        "_set_focus_first_selectable/_keypress_up/_keypress_down/mouse_event in Model/ListBoxView.v (validated by this correspondence, not proved against Python)",
        "C16's files, imported read-only: Model/MonitoredList.v (hand wiring of the MonitoredFocusList methods, validated by C16's own correspondence), Gen/monitored_list_gen.v (py2v translation of _adjust_focus_on_contents_modified), Proofs/MonitoredListProofs.v",
        "the ast scan in harness/props/c07.py (assignment, augmented assignment, del, for/with targets, setattr/delattr of offset_rows / inset_fraction anywhere in urwid/)",
        "extraction: ExtrOcamlBasic only; Z/positive stay Coq datatypes; OCaml 4.13.1; tools/driver/driver.ml",
        "the labelled-row test widgets and the Python oracle in harness/props/c07.py",
    ]
    assumptions = [
        "item widgets: rows() >= 0, rows() and render() agree, the cursor row reported lies inside the widget (hypotheses heights_ok / cursor_ok of view_ok)",
        "maxrow >= 1 (StateOK); positions are list indices, no wrap-around walker",
        "the item widgets of the model have no move_cursor_to_coords: change_focus ends after the offset assignment (cursor_coords only sets pref_col); histories with real Edit widgets are judged by the oracle only",
        "an exception out of keypress/mouse_event is accepted only with a signature recorded in corpus/C07/baseline_keypress_exceptions.json, which is empty: every such exception is reported",
    ]


CHECK = C07
