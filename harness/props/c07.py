"""C07 - ListBox always shows a gap-free window of its items containing the focus.

Case = a list of flow widgets of prescribed heights (rows labelled "<id>:<row>", so that the window
can be read back from the rendered text), a walker kind, an optional directly written view state
(focus, offset_rows, inset_fraction) and a history of steps; every step is one action followed by
render((cols, maxrow), focus) .  The implementation result is compared exactly with the extracted
Coq model (Model/ListBoxView.v) and judged by an oracle written from the property text.
"""
import ast
import itertools
import os
import re
import warnings

from harness import core

warnings.simplefilter("ignore")

ERRN = {1: "IndexError", 2: "ValueError", 3: "TypeError", 4: "WidgetError", 5: "CanvasError", 6: "ListBoxError",
        7: "AttrSpecError", 8: "KeyError", 9: "RuntimeError", 10: "OtherError"}
CF = {None: 0, "above": 1, "below": 2}
CFN = {0: None, 1: "above", 2: "below"}
KEYC = {"up": 1, "down": 2, "j": 3, "k": 4}
MODELLED_KEYS = set(KEYC)
COLS = 8


def norm_err(name):
    """error classes the comparison distinguishes: the two the view code raises itself"""
    return name if name in ("ListBoxError", "ValueError") else "Error"


# ------------------------------------------------------------------------------------------------
# widgets (created lazily: urwid must be imported from the tree under test)
_W = {}


def widgets():
    if _W:
        return _W
    import urwid

    class Item(urwid.Widget):
        """flow widget of h rows labelled '<n>:<r>'; optional cursor row; 'j'/'k' move the cursor"""
        _sizing = frozenset(["flow"])

        def __init__(self, n, h, sel, cy):
            super().__init__()
            self.n, self.h, self._selectable, self.cy = n, h, bool(sel), cy

        def rows(self, size, focus=False):
            return self.h

        def render(self, size, focus=False):
            c = urwid.CompositeCanvas(urwid.TextCanvas([b"%d:%d" % (self.n, r) for r in range(self.h)], maxcol=size[0]))
            if focus and self.cy is not None and self._selectable:
                c.cursor = (0, self.cy)
            return c

        def keypress(self, size, key):
            if key in ("j", "k") and self.cy is not None:
                ncy = self.cy + (1 if key == "j" else -1)
                if 0 <= ncy < self.h:
                    self.cy = ncy
                    self._invalidate()
                    return None
            return key

        def get_cursor_coords(self, size):
            return (0, self.cy) if self.cy is not None else None

        def mouse_event(self, size, event, button, col, row, focus):
            return False

        def spec(self):
            return [self.h, 1 if self._selectable else 0, self.cy]

        def reflow(self, h, sel, cy):
            self.h, self._selectable, self.cy = h, bool(sel), cy
            self._invalidate()

    class Zero(urwid.Widget):
        """zero-height flow widget for the real-widget histories"""
        _sizing = frozenset(["flow"])
        _selectable = False

        def rows(self, size, focus=False):
            return 0

        def render(self, size, focus=False):
            return urwid.CompositeCanvas(urwid.TextCanvas([], maxcol=size[0]))

    class Sel(urwid.WidgetWrap):
        """selectable wrapper without a cursor"""
        _selectable = True

        def selectable(self):
            return True

        def keypress(self, size, key):
            return key

    class IdxWalker(urwid.ListWalker):
        """a custom list walker: walker protocol v1 over integer positions + positions()"""

        def __init__(self, ws):
            self.ws = list(ws)
            self.f = 0

        def get_focus(self):
            if not self.ws:
                return None, None
            return self.ws[self.f], self.f

        def set_focus(self, pos):
            if not isinstance(pos, int) or not 0 <= pos < len(self.ws):
                raise IndexError(f"no position {pos!r}")
            self.f = pos
            self._modified()

        def get_next(self, pos):
            p = pos + 1
            return (self.ws[p], p) if 0 <= p < len(self.ws) else (None, None)

        def get_prev(self, pos):
            p = pos - 1
            return (self.ws[p], p) if 0 <= p < len(self.ws) else (None, None)

        def positions(self, reverse=False):
            return range(len(self.ws) - 1, -1, -1) if reverse else range(len(self.ws))

        def __len__(self):
            return len(self.ws)

        # edits (the focus follows its item; a deleted focus item is replaced by its successor)
        def insert(self, i, w):
            i = max(0, min(i, len(self.ws)))
            self.ws.insert(i, w)
            if len(self.ws) > 1 and i <= self.f:
                self.f += 1
            self._modified()

        def __delitem__(self, i):
            del self.ws[i]
            if i < self.f:
                self.f -= 1
            self.f = max(0, min(self.f, len(self.ws) - 1))
            self._modified()

        def __setitem__(self, i, w):
            self.ws[i] = w
            self._modified()

        def __getitem__(self, i):
            return self.ws[i]

    _W.update(Item=Item, Zero=Zero, Sel=Sel, IdxWalker=IdxWalker, urwid=urwid)
    return _W


def make_widget(kind, n, spec):
    W = widgets()
    urwid = W["urwid"]
    h, sel, cy = spec
    if kind != "real":
        return W["Item"](n, h, sel, cy)
    if h == 0:
        return W["Zero"]()
    text = "\n".join(f"{n}:{r}" for r in range(h))
    if not sel:
        return urwid.Text(text)
    if cy is None:
        return W["Sel"](urwid.Text(text))
    e = urwid.Edit("", text, multiline=True)
    # put the cursor at the start of line cy
    e.set_edit_pos(sum(len(f"{n}:{r}") + 1 for r in range(cy)))
    return e


def widget_cy(w, cols):
    """cursor row the focus widget itself reports (independent of the list box)"""
    if not w.selectable() or not hasattr(w, "get_cursor_coords"):
        return None
    c = w.get_cursor_coords((cols,))
    return None if c is None else c[1]


def read_rows(canvas, ids):
    """rows of a canvas as [index, row] / [-1, -1] for blank; ids: widget id -> current index"""
    out = []
    for row in canvas.content():
        txt = b"".join(t for _a, _cs, t in row).decode("ascii", "replace").strip()
        m = re.fullmatch(r"(\d+):(\d+)", txt)
        if m:
            out.append([ids.get(int(m.group(1)), -2), int(m.group(2))])
        elif txt == "":
            out.append([-1, -1])
        else:
            out.append([-3, -3])
    return out


def apply_edit(items, a):
    """the same edit on a plain list of item specs (oracle side and model side)"""
    items = [list(x) for x in items]
    k = a[0]
    if k == "insert":
        items.insert(max(0, min(a[1], len(items))), list(a[2]))
    elif k == "delete":
        if 0 <= a[1] < len(items):
            del items[a[1]]
    elif k == "replace":
        if 0 <= a[1] < len(items):
            items[a[1]] = list(a[2])
    elif k == "reflow":
        items = [list(x) for x in a[1]][:len(items)] + items[len(a[1]):]
    elif k == "clear":
        items = []
    return items


EDITS = ("insert", "delete", "replace", "reflow", "clear")


class C07(core.Check):
    pid = "C07"
    gen_modules = []
    model_targets = ["theories/Model/ListBoxView.vo"]
    prop_file = "theories/Properties/C07.v"
    extract_v = "Extract/C07X.v"
    allowed_axioms = set()
    design_ref = "DESIGN.md section 5 (C07) and Appendix D"
    search_budget = {"quick": 60, "thorough": 400}

    # ---------- implementation ----------
    def __init__(self):
        super().__init__()
        self._cache = {}

    def build(self, case):
        W = widgets()
        urwid = W["urwid"]
        kind = case.get("kind", "item")
        ws = [make_widget(kind, n, spec) for n, spec in enumerate(case["items"])]
        wk = case.get("walker", "sflw")
        if wk == "sflw":
            body = urwid.SimpleFocusListWalker(ws)
        elif wk == "slw":
            body = urwid.SimpleListWalker(ws)
        else:
            body = W["IdxWalker"](ws)
        lb = urwid.ListBox(body)
        if ws:
            body.set_focus(case.get("focus", 0))
        st = case.get("state")
        if st is not None:
            lb.offset_rows, lb.inset_fraction = st[0], (st[1], st[2])
            lb.set_focus_pending = None
            lb._invalidate()
        return lb, body, ws

    @staticmethod
    def lb_state(lb, body, ws):
        w, pos = body.get_focus()
        p = lb.set_focus_pending
        if p is None:
            pe = [0]
        elif p == "first selectable":
            pe = [1]
        else:
            pe = [2, CF.get(p[0], 0), p[2] if isinstance(p[2], int) else -1]
        va = lb.set_focus_valign_pending
        st = [(-1 if w is None else pos), lb.offset_rows, lb.inset_fraction[0], lb.inset_fraction[1], pe]
        if va is not None:
            st.append("valign-pending")
        return st

    def run_impl(self, case):
        W = widgets()
        urwid = W["urwid"]
        from urwid.widget.listbox import ListBoxError
        kind = case.get("kind", "item")
        cols = case.get("cols", COLS)
        lb, body, ws = self.build(case)
        nxt = [len(ws)]
        steps, aux = [], []
        if case.get("state") is not None:
            urwid.CanvasCache.clear()
        for stp in case["steps"]:
            a, maxrow, ff = stp["a"], stp["mr"], bool(stp["ff"])
            size = (cols, maxrow)
            out = {}
            ax = {}
            k = a[0]
            try:
                if k == "none":
                    pass
                elif k == "key":
                    r = lb.keypress(size, a[1])
                    if a[1] in MODELLED_KEYS and kind == "item":
                        out["act"] = 1 if r is not None else 0
                elif k == "mouse":
                    r = lb.mouse_event(size, "mouse press", a[1], 0, a[2], True)
                    out["act"] = 1 if r else 0
                elif k == "set_focus":
                    lb.set_focus(a[1], a[2])
                elif k == "valign":
                    v = a[1]
                    lb.set_focus_valign(tuple(v) if isinstance(v, list) else v)
                elif k == "shift":
                    lb.shift_focus(size, a[1])
                elif k == "change":
                    lb.change_focus(size, a[1], a[2], a[3])
                elif k == "mcv":
                    lb.make_cursor_visible(size)
                elif k == "insert":
                    w = make_widget(kind, nxt[0], a[2])
                    nxt[0] += 1
                    body.insert(a[1], w)
                elif k == "delete":
                    if 0 <= a[1] < len(body):
                        del body[a[1]]
                elif k == "replace":
                    if 0 <= a[1] < len(body):
                        body[a[1]] = make_widget(kind, nxt[0], a[2])
                        nxt[0] += 1
                elif k == "clear":
                    del body[:] if not hasattr(body, "ws") else [body.__delitem__(0) for _ in range(len(body))]
                elif k == "reflow":
                    for w, sp in zip(list(body), a[1]):
                        if hasattr(w, "reflow"):
                            w.reflow(*sp)
                else:
                    raise core.MachineryError("unknown action " + k)
            except core.MachineryError:
                raise
            except Exception as e:    # noqa: BLE001 - every exception class is an observable here
                out["err"] = type(e).__name__
                out["where"] = "action"
                steps.append(out)
                aux.append(ax)
                break
            cur_ws = list(body)
            ids = {}
            for i, w in enumerate(cur_ws):
                n = getattr(w, "n", None)
                if n is None:
                    n = self._real_id(w)
                ids[n] = i
            ax["sa"] = self.lb_state(lb, body, cur_ws)
            ax["items"] = [w.spec() for w in cur_ws] if kind == "item" else None
            if self.modelled(case, a):
                out["sa"] = ax["sa"]
            try:
                canv = lb.render(size, ff)
                out["view"] = read_rows(canv, ids)
                cur = canv.cursor
                out["cur"] = None if cur is None else cur[1]
            except Exception as e:    # noqa: BLE001
                out["err"] = type(e).__name__
                out["where"] = "render"
                steps.append(out)
                aux.append(ax)
                break
            out["st"] = self.lb_state(lb, body, cur_ws)
            fw, _fp = body.get_focus()
            out["fcy"] = None if (fw is None or not ff) else widget_cy(fw, cols)
            out["hs"] = [w.rows((cols,), False) for w in cur_ws]
            out["sel"] = [1 if w.selectable() else 0 for w in cur_ws]
            steps.append(out)
            aux.append(ax)
        res = {"steps": steps}
        self._cache = {"key": core.canon(case), "res": res, "aux": aux}
        return res

    @staticmethod
    def _real_id(w):
        t = getattr(w, "_w", w)
        try:
            txt = t.get_edit_text() if hasattr(t, "get_edit_text") else t.text
        except Exception:  # noqa: BLE001
            return -9
        m = re.match(r"(\d+):", txt if isinstance(txt, str) else txt.decode())
        return int(m.group(1)) if m else -9

    @staticmethod
    def modelled(case, a):
        """actions the Coq model executes itself (everything else is re-synchronised)"""
        if case.get("kind", "item") != "item":
            return False
        k = a[0]
        if k == "key":
            return a[1] in MODELLED_KEYS
        return k in ("none", "mouse", "set_focus", "shift", "change", "mcv") or k in EDITS

    # ---------- model wire format ----------
    @staticmethod
    def enc_items(items):
        out = [len(items)]
        for h, sel, cy in items:
            out += [h, 1 if sel else 0, 0 if cy is None else cy + 1]
        return out

    @staticmethod
    def enc_pend(pe):
        return list(pe)

    def encode(self, case):
        if case.get("kind", "item") != "item":
            return None
        if self._cache.get("key") != core.canon(case):
            self.run_impl(case)
        res, aux = self._cache["res"], self._cache["aux"]
        st = case.get("state")
        l = self.enc_items(case["items"]) + [case.get("focus", 0) if case["items"] else -1]
        l += ([st[0], st[1], st[2], 0] if st is not None else [0, 0, 1, 1])
        ops = []
        nops = 0
        for i, stp in enumerate(case["steps"]):
            a, maxrow, ff = stp["a"], stp["mr"], 1 if stp["ff"] else 0
            k = a[0]
            if i >= len(res["steps"]):
                break
            r, ax = res["steps"][i], aux[i]
            acted = "sa" in ax
            if self.modelled(case, a):
                if k == "none":
                    pass
                elif k == "key":
                    ops += [2, maxrow, KEYC[a[1]]]
                elif k == "mouse":
                    ops += [3, maxrow, a[1], a[2]]
                elif k == "set_focus":
                    ops += [4, a[1], CF[a[2]]]
                elif k == "shift":
                    ops += [7, maxrow, a[1]]
                elif k == "change":
                    ops += [8, maxrow, a[1], a[2], CF[a[3]]]
                elif k == "mcv":
                    ops += [9, maxrow]
                elif k in EDITS:
                    if not acted:
                        break
                    ops += [6] + self.enc_items(ax["items"]) + [ax["sa"][0]]
            else:
                if not acted:
                    break        # the unmodelled action raised: nothing to compare from here on
                sa = ax["sa"]
                if len(sa) > 5:
                    # a pending valign is completed inside render: synchronise after the render
                    if "st" not in r:
                        break
                    sa = r["st"]
                ops += [5, sa[0], sa[1], sa[2], sa[3]] + self.enc_pend(sa[4])
            ops += [1, maxrow, ff]
        return l + [nops] + ops

    def decode(self, case, ints):
        res, aux = self._cache["res"], self._cache["aux"]
        it = iter(ints)

        def state():
            f, o, n, d = next(it), next(it), next(it), next(it)
            p = next(it)
            pe = [p] if p in (0, 1) else [2, next(it), next(it)]
            return [f, o, n, d, pe]

        def reply():
            """one model reply: (err | None, outcome, state)"""
            c = next(it)
            if c != 0:
                return ERRN.get(c, "?"), None, None
            t = next(it)
            if t == 0:
                oc = None
            elif t == 1:
                oc = next(it)
            else:
                n = next(it)
                rows = [[next(it), next(it)] for _ in range(n)]
                cur = None if next(it) == 0 else next(it)
                oc = (rows, cur)
            return None, oc, state()

        steps = []
        try:
            for i, stp in enumerate(case["steps"]):
                if i >= len(res["steps"]):
                    break
                a = stp["a"]
                r, ax = res["steps"][i], aux[i]
                out = {}
                if self.modelled(case, a):
                    if a[0] != "none":
                        if a[0] in EDITS and "sa" not in ax:
                            steps.append(dict(r))
                            break
                        err, oc, st = reply()
                        if err:
                            out.update(err=err, where="action")
                            steps.append(out)
                            break
                        if a[0] in ("key", "mouse"):
                            out["act"] = oc
                        out["sa"] = st
                    else:
                        out["sa"] = ax.get("sa")
                else:
                    if "sa" not in ax or (len(ax["sa"]) > 5 and "st" not in r):
                        steps.append(dict(r))     # not comparable: copy
                        break
                    reply()                       # the OSync
                err, oc, st = reply()
                if err:
                    out.update(err=err, where="render")
                    steps.append(out)
                    break
                out["view"], out["cur"] = oc
                out["st"] = st
                for kk in ("fcy", "hs", "sel"):
                    out[kk] = r.get(kk)
                steps.append(out)
        except StopIteration:
            return {"malformed": ints[:60]}
        return self.canon_res({"steps": steps})

    @staticmethod
    def canon_res(res):
        for s in res["steps"]:
            if "err" in s:
                s["err"] = norm_err(s["err"])
        return res

    # the comparison in core is canon(model) == canon(impl): normalise the impl side the same way
    def run_impl_canon(self, case):
        return self.canon_res(self.run_impl(case))
