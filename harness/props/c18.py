"""C18 - colour specifications (urwid.display.common.AttrSpec) round-trip and degrade to the nearest colour."""
import itertools
import re
import warnings

from harness import core

warnings.simplefilter("ignore")

TRUE = 2 ** 24
DEPTHS = (1, 16, 88, 256, TRUE)
NAMES = ["black", "dark red", "dark green", "brown", "dark blue", "dark magenta", "dark cyan", "light gray",
         "dark gray", "light red", "light green", "yellow", "light blue", "light magenta", "light cyan", "white"]
# wire order of the settings (Model/Colours.v dec_setting)
SETTINGS = ["bold", "italics", "underline", "blink", "standout", "strikethrough"]
# order in which AttrSpec.foreground lists them (Model/Colours.v settings_of)
FG_ORDER = ["bold", "italics", "standout", "blink", "underline", "strikethrough"]
ERRN = {1: "IndexError", 2: "ValueError", 3: "TypeError", 4: "WidgetError", 5: "CanvasError", 6: "ListBoxError",
        7: "AttrSpecError", 8: "KeyError", 9: "RuntimeError", 10: "OtherError"}
BAD = (7, 0)

# ------------------------------------------------------------------ reference data (xterm)
# XTerm-col.ad / X11 rgb.txt: color0..color15
XTERM_BASIC = [(0, 0, 0), (205, 0, 0), (0, 205, 0), (205, 205, 0), (0, 0, 238), (205, 0, 205), (0, 205, 205),
               (229, 229, 229), (127, 127, 127), (255, 0, 0), (0, 255, 0), (255, 255, 0), (0x5c, 0x5c, 0xff),
               (255, 0, 255), (0, 255, 255), (255, 255, 255)]
CUBE256 = [0] + [55 + 40 * k for k in range(1, 6)]          # 256colres.h: 0 | 55+40k
GRAY256 = [8 + 10 * k for k in range(24)]                   # 256colres.h: 8+10k
CUBE88 = [0x00, 0x8b, 0xcd, 0xff]                           # 88colres.h
GRAY88 = [0x2e, 0x5c, 0x73, 0x8b, 0xa2, 0xb9, 0xd0, 0xe7]   # 88colres.h


def xterm_rgb(n, depth):
    cube, gray = (CUBE88, GRAY88) if depth == 88 else (CUBE256, GRAY256)
    k = len(cube)
    if n < 16:
        return XTERM_BASIC[n]
    if n < 16 + k ** 3:
        m = n - 16
        return (cube[m // (k * k)], cube[(m // k) % k], cube[m % k])
    return (gray[n - 16 - k ** 3],) * 3


def nearest(cands, steps):
    """steps that are nearest to one of the candidate values (ties: both)."""
    out = set()
    for v in cands:
        best = min(abs(s - v) for s in steps)
        out |= {s for s in steps if abs(s - v) == best}
    return out


# ------------------------------------------------------------------ strict reference grammar (from the docstring)
RE_H = re.compile(r"h(0|[1-9][0-9]{0,2})\Z")
RE_CUBE = re.compile(r"#[0-9a-f]{3}\Z")
RE_TRUE = re.compile(r"#[0-9a-f]{6}\Z")
RE_GDEC = re.compile(r"g(0|[1-9][0-9]{0,2})\Z")
RE_GHEX = re.compile(r"g#[0-9a-f]{2}\Z")
RE_WORD = re.compile(r"[A-Za-z][A-Za-z ]*\Z")


def token_class(tok):
    """('default'|'basic'|'h'|'cube'|'gdec'|'ghex'|'true'|'word'|'other', value)"""
    if tok == "default":
        return ("default", None)
    if tok in NAMES:
        return ("basic", NAMES.index(tok))
    if RE_H.match(tok):
        return ("h", int(tok[1:]))
    if RE_CUBE.match(tok):
        return ("cube", int(tok[1:], 16))
    if RE_TRUE.match(tok):
        return ("true", int(tok[1:], 16))
    if RE_GDEC.match(tok):
        return ("gdec", int(tok[1:]))
    if RE_GHEX.match(tok):
        return ("ghex", int(tok[2:], 16))
    if RE_WORD.match(tok):
        return ("word", None)
    return ("other", None)


def colour_status(cls, depth):
    """'ok' | 'reject' | 'unknown' for one strict colour token at a declared depth"""
    k, v = cls
    if k == "default":
        return "ok"
    if k == "basic":
        return "ok" if depth >= 16 else "reject"
    if k == "word":
        return "reject"                       # an unknown colour name
    if k == "other":
        return "unknown"
    if depth in (1, 16):
        return "reject"                       # high / true colours beyond the declared depth
    if k == "h":
        if v > 255 or (depth == 88 and v > 87):
            return "reject"
        return "ok"
    if k == "gdec":
        return "ok" if v <= 100 else "reject"
    if k in ("cube", "ghex"):
        return "ok"
    if k == "true":
        return "ok" if depth == TRUE else "unknown"     # degraded at 88/256 by the library: not judged
    return "unknown"


def reference(case):
    """What the property text demands for this input: ('valid'|'reject'|'unknown', info)."""
    fg, bg, depth = case["fg"], case["bg"], case["colors"]
    if depth not in DEPTHS:
        return "unknown", {}
    parts = [p.strip(" ") for p in fg.split(",")]       # only blanks are judged; other white space -> 'other'
    settings = [p for p in parts if p in SETTINGS]
    colours = [p for p in parts if p not in SETTINGS]
    info = {"settings": settings}
    if len(set(settings)) != len(settings):
        return "reject", info                 # duplicated setting
    nonempty = [c for c in colours if c != ""]
    empties = len(colours) - len(nonempty)
    classes = [token_class(c) for c in nonempty]
    bgc = token_class(bg) if bg != "" else ("default", None)
    stat = [colour_status(c, depth) for c in classes]
    bstat = colour_status(bgc, depth)
    if "reject" in stat or bstat == "reject":
        return "reject", info                 # unknown colour name / colour beyond the declared depth
    if "unknown" in stat or bstat == "unknown":
        return "unknown", info
    if len(nonempty) >= 2:
        return "reject", info                 # several colours in one foreground
    if empties and (nonempty or empties > 1):
        return "unknown", info                # stray empty parts ("red," / ",,"): not judged
    info["fg"] = classes[0] if classes else ("default", None)
    info["bg"] = bgc
    return "valid", info


def expected_rgb(cls, depth):
    """set of acceptable (r,g,b) (or {None}) for one accepted strict colour token; None = not judged"""
    k, v = cls
    if k == "default":
        return {None}
    if k == "basic":
        return {XTERM_BASIC[v]}
    if depth == 88:
        cube, gray = CUBE88, GRAY88
    else:
        cube, gray = CUBE256, GRAY256
    grays = [0] + gray + [255]
    if k == "h":
        return {xterm_rgb(v, 88 if depth == 88 else 256)}
    if k == "cube":
        digs = [(v >> 8) & 15, (v >> 4) & 15, v & 15]
        opts = [nearest([d * 17], cube) for d in digs]
        out = set(itertools.product(*opts))
        if depth == TRUE:
            out.add(tuple(d * 17 for d in digs))
        return out
    if k == "gdec":
        cands = {(v * 255) // 100, -((-v * 255) // 100)}      # v% of 255, rounded down and up
        out = {(g, g, g) for g in nearest(cands, grays)}
        if depth == TRUE:
            out |= {(c, c, c) for c in cands}
        return out
    if k == "ghex":
        out = {(g, g, g) for g in nearest([v], grays)}
        if depth == TRUE:
            out.add((v, v, v))
        return out
    if k == "true":
        if depth == TRUE:
            return {((v >> 16) & 255, (v >> 8) & 255, v & 255)}
        return None
    return None


# ------------------------------------------------------------------ lexing glue for the model (mirrors the lexing lines)
def lex_plain(p):
    """the string tests and int() calls of _parse_color_256 / _parse_color_88 (after its length-7 collapse)"""
    if len(p) > 4:
        return BAD
    try:
        if p.startswith("h"):
            return (2, int(p[1:], 10))
        if p.startswith("#") and len(p) == 4:
            return (3, int(p[1:], 16))
        if p.startswith("g#"):
            return (5, int(p[2:], 16))
        if p.startswith("g"):
            return (4, int(p[1:], 10))
        return BAD
    except ValueError:
        return BAD


def lex_colour(p, depth):
    if p in ("", "default"):
        return (0, 0)
    if p in NAMES:
        return (1, NAMES.index(p))
    if depth == 88:
        if len(p) == 7:
            p = p[0:2] + p[3] + p[5]
        return lex_plain(p)
    if depth == TRUE:
        d = lex_plain(p)
        if d != BAD and not (d[0] == 3 and d[1] < 0):
            return d
        if not p.startswith("#"):
            return BAD
        try:
            if len(p) == 7:
                return (6, int(p[1:], 16))
            if len(p) == 4:
                return (6, int(f"0x{p[1]}0{p[2]}0{p[3]}", 16))
        except ValueError:
            return BAD
        return BAD
    # 1, 16, 256:  _parse_color_256(_true_to_256(part) or part)
    if p.startswith("#") and len(p) == 7:
        if re.match(r"[0-9a-fA-F]{6}\Z", p[1:]):
            return (6, int(p[1:], 16))
        try:
            comps = [int(x, 16) // 16 for x in (p[1:3], p[3:5], p[5:7])]
        except ValueError:
            return BAD
        if all(0 <= c < 16 for c in comps):
            return (6, (comps[0] << 20) | (comps[1] << 12) | (comps[2] << 4))
        return BAD
    return lex_plain(p)


def unlex(t, p):
    if t == 0:
        return "default"
    if t == 1:
        return NAMES[p] if 0 <= p < 16 else f"<basic {p}>"
    if t == 2:
        return f"h{p:d}"
    if t == 3:
        return f"#{p:03x}" if p >= 0 else f"<cube {p}>"
    if t == 4:
        return f"g{p:d}"
    if t == 5:
        return f"g#{p:02x}"
    if t == 6:
        return f"#{p:06x}" if p >= 0 else f"<true {p}>"
    return "<bad>"


WHY = [("specified more than once", 1), ("Unrecognised color specification in background", 4),
       ("Unrecognised color specification", 2), ("More than one color", 3), ("require more colors", 5),
       ("invalid number of colors", 6)]


def build(fg, bg, colors):
    from urwid.display.common import AttrSpec, AttrSpecError
    try:
        return AttrSpec(fg, bg, colors), None
    except AttrSpecError as e:
        why = next((c for s, c in WHY if s in str(e)), 0)
        return None, ("AttrSpecError", why)
    except Exception as e:  # noqa: BLE001
        return None, (type(e).__name__, 0)


def guarded(f):
    try:
        return f()
    except Exception as e:  # noqa: BLE001
        return {"exc": type(e).__name__}


class C18(core.Check):
    pid = "C18"
    gen_modules = ["colours"]
    model_targets = ["theories/Model/Colours.vo"]
    prop_file = "theories/Properties/C18.v"
    extract_v = "Extract/C18X.v"
    allowed_axioms = set()
    design_ref = "DESIGN.md section 5, C18"
    technique = ("Coq theorems (complete vm_compute sweeps of the finite description domain lifted with forallb_forall, "
                 "arithmetic/bit-vector proofs for true colour and for the packing, a verified lexer lifting everything to raw "
                 "strings) about a model whose tables, masks, parsers and describers are re-translated from display/common.py "
                 "on every run at description level and at string level; extracted-model correspondence on raw strings over the "
                 "whole finite string domain plus malformed strings; CPython primitive models validated per code point; "
                 "xterm-table / round-trip oracle")
    level_text = ("Proved in Coq (40 theorems, all closed under the global context).  The METHODS of AttrSpec (__init__, "
                  "__set_foreground with its loop, __set_background, _foreground_color, foreground, background, get_rgb_values, "
                  "copy_modified, __eq__) are now re-translated from display/common.py on every run too; the extracted model compared "
                  "with the implementation runs the translated functions, and they are proved equal, for all inputs, to the "
                  "hand-written form in which the theorems are proved (translated_methods_are_the_model), so round trip, rejection, "
                  "reported depth, RGB and copy_modified() == self hold of the translated code for every pair of strings.  The model "
                  "CONTAINS THE STRING LEXING: strings are lists of code points; split(','), strip(), the setting / colour name tables, startswith, len, "
                  "slicing, int(s, 10/16) with CPython's acceptance rules (white space, sign, '0x' + one '_', single underscores, "
                  "Unicode decimal digits and spaces) and the f-string formatting are Gallina functions, and _parse_color_* / "
                  "_color_desc_* / _true_to_256 are re-translated from display/common.py on strings without any abstraction.  For "
                  "EVERY pair of strings and every depth (no well-formedness hypothesis): the strings reported by foreground / "
                  "background rebuild exactly the same packed value at the declared and at the reported depth (string_roundtrip: "
                  "parse(describe v) = v); the reported depth is <= the declared one and no smaller depth yields the value; "
                  "get_rgb_values is the xterm value of what the reported strings lex to; every rejection is AttrSpecError from one "
                  "of the six raise statements (string_reject_is_attrspecerror).  The string-level parsers / constructor are proved "
                  "equal to the description-level ones after an explicit Gallina lexer, and every lexed input is well formed, which "
                  "lifts the description-level theorems (round trip for any order / repetition of parts, settings reported, order "
                  "irrelevant, rgb_matches_xterm, colors_expresses, colors_minimal, reject_is_attrspecerror) to all strings.  Finite "
                  "domains by complete vm_compute sweeps (bounds in the statements): parse o describe for all palette numbers at 256 "
                  "and 88 on descriptions and on strings, nearest step for all v < 256 in the four lookup tables with exact steps "
                  "preserved, '#rgb'/'g#XX'/'gNN' reach a nearest palette entry, both RGB tables equal the xterm closed forms; true "
                  "colour by arithmetic for all n < 2^24 (int(f'{n:06x}', 16) = n via a Horner lemma).  Nothing is _partial.  Tied to "
                  "the implementation by an exact correspondence on RAW STRINGS (_value, colors, foreground, background, "
                  "get_rgb_values, exception class and raise site), by a cross-check of the former harness lexer on every 6th case, "
                  "and by a validation of the int()/isspace()/strip()/split() models against CPython for every code point and "
                  "exhaustively for short strings over the lexer's alphabet.")
    level_note = ("Trusted: Coq kernel (vm_compute), tools/py2v/mods/colours.py (ColTr/StrTr subclasses of Tr: constants, "
                  "comprehensions, for/extend loop, checked subscripts, walrus, try/except ValueError around int(), string slices, "
                  "f-strings, ''.join over a tuple; the description-level ABS table is now only a proof device), ExtrOcamlBasic "
                  "extraction + driver.ml, the MethTr translation of the AttrSpec methods (state threading of self.__value, the "
                  "split loop as a fold, raise sites numbered by message; the hand model is no longer trusted: it is proved equal "
                  "to the translation), the Gallina model of CPython's "
                  "int()/str.strip()/str.isspace()/str.split() with its two Unicode 15.0 tables (validated against the running "
                  "interpreter for all 1,114,112 code points each run), the oracle's xterm reference tables.")
    rule = ("case = (foreground string, background string, declared depth).  Exhaustive: every colour string of the finite "
            "domain (default, '', 16 names, h0..h255, #000..#fff, g0..g100, g#00..g#ff) as foreground and as background at "
            "each depth 1/16/88/256/2^24 with a pseudo-random subset, order and spacing of the six settings; every subset of "
            "the settings; sampled foreground x background pairs; sampled '#rrggbb'; the rejection classes of the property; a "
            "malformed-string stream (now with Unicode spaces/digits, control characters, surrogates); every 6th case also through "
            "the harness lexer; primitives: int(chr(c)) and chr(c).isspace() for every code point, int(s, 10/16) for every string of "
            "length <= 3 over a 19-character alphabet plus random longer ones, strip and split(',') on random white-space strings.  "
            "non-trivial = anything but ('default','default'); distinct by hash of (case, outcome)")
    trusted_base = [
        "Coq 8.16.1 kernel; vm_compute for the complete sweeps of the finite description domain",
        "tools/py2v/mods/colours.py (ColTr and StrTr, subclasses of py2v_core.Tr; Gen/colours_gen.v regenerated from display/common.py and util.py every run, description level and string level)",
        "Base/ColourStr.v: the Gallina model of CPython 3.12 int(str, 10/16), str.strip, str.split(','), str.startswith, slicing and format(n, 'd'/'x'/'06x'), with the Unicode 15.0 white-space and Nd tables (compared with the running interpreter for every code point and exhaustively on short strings each run)",
        "extraction: ExtrOcamlBasic only; Z/positive stay Coq datatypes; OCaml 4.13.1; tools/driver/driver.ml",
        "MethTr in tools/py2v/mods/colours.py: the AttrSpec methods (__init__, __set_foreground, __set_background, _foreground_color, foreground, background, get_rgb_values, copy_modified, __eq__) are translated each run; the hand model in Model/Colours.v is proved equal to the translation (Proofs/ColoursGenMeth.v) and is no longer part of the trusted base",
        "Python oracle in harness/props/c18.py with its own xterm reference tables (XTerm-col.ad basic colours, 256colres.h / 88colres.h closed forms)",
    ]
    assumptions = [
        "strings are sequences of code points 0..0x10FFFF; int() is modelled for bases 10 and 16 on the short strings the lexer passes to it (the 4300-digit limit of CPython is out of reach: at most 7 characters)",
        "s[i] on a string is modelled as the total s[i:i+1]; the source only indexes below a length test",
        "__eq__/__hash__ are modelled as equality / a function of the packed value (hash((class, value)))",
        "'gNN' is read as NN percent scaled by int_scale(NN, 101, 256); the oracle accepts the nearest gray of either rounding of NN*2.55, and both nearest entries on a tie",
        "at 2^24 colours the oracle accepts for '#rgb'/'gNN'/'g#XX' both the 256-palette entry (what the library does) and the exact expansion; '#rrggbb' at 88/256 colours is not judged for RGB (only round trip, depth, exception class)",
        "__eq__ is translated under the typing assumption isinstance(other, AttrSpec); __hash__ is a function of the packed value (hash((class, value)))",
        "__repr__ and the display-side use of AttrSpec are not modelled",
    ]

    # ---------- CPython primitives the string-level model relies on (validated, not judged) ----------
    @staticmethod
    def prim_impl(case):
        op = case["op"]
        if op == "cps":
            out = []
            for c in range(case["lo"], case["hi"]):
                ch = chr(c)
                try:
                    d = int(ch)
                except ValueError:
                    d = -1
                out += [d, 1 if ch.isspace() else 0]
            return {"scan": out}
        if op == "int":
            try:
                return {"int": int(case["s"], case["base"])}
            except ValueError:
                return {"int": None}
        if op == "strip":
            return {"str": case["s"].strip()}
        if op == "split":
            return {"parts": case["s"].split(",")}
        raise core.MachineryError("unknown op " + op)

    @staticmethod
    def prim_encode(case):
        op = case["op"]
        if op == "cps":
            return [2, case["lo"], case["hi"]]
        if op == "int":
            return [3, case["base"]] + [ord(c) for c in case["s"]]
        if op == "strip":
            return [4] + [ord(c) for c in case["s"]]
        return [5] + [ord(c) for c in case["s"]]

    @staticmethod
    def prim_decode(case, ints):
        op = case["op"]
        try:
            if op == "cps":
                return {"scan": list(ints)}
            if op == "int":
                return {"int": None if ints[0] == 0 else ints[1]}
            if op == "strip":
                return {"str": "".join(chr(c) for c in ints)}
            parts, i = [], 0
            while i < len(ints):
                n = ints[i]
                parts.append("".join(chr(c) for c in ints[i + 1:i + 1 + n]))
                i += 1 + n
            return {"parts": parts}
        except (IndexError, ValueError):
            return {"malformed": ints[:40]}

    # ---------- implementation ----------
    def run_impl(self, case):
        if case.get("op") in ("cps", "int", "strip", "split"):
            return self.prim_impl(case)
        a, err = build(case["fg"], case["bg"], case["colors"])
        if a is None:
            return {"err": err[0], "why": err[1]}
        rgb = guarded(lambda: list(a.get_rgb_values()))
        out = {"value": a._value, "colors": a.colors, "fg": guarded(lambda: a.foreground),
               "bg": guarded(lambda: a.background), "rgb": rgb}
        if case.get("op") != "lex":
            out["copy"] = self.copy_of(a)
        return out

    @staticmethod
    def copy_of(a):
        from urwid.display.common import AttrSpecError
        try:
            return a.copy_modified()._value
        except AttrSpecError as e:
            return {"exc": "AttrSpecError", "why": next((c for s_, c in WHY if s_ in str(e)), 0)}
        except Exception as e:  # noqa: BLE001
            return {"exc": type(e).__name__, "why": 0}

    # ---------- model wire format ----------
    def encode(self, case):
        if case.get("op") in ("cps", "int", "strip", "split"):
            return self.prim_encode(case)
        if case.get("op") != "lex":
            # raw strings: the model does split / strip / name lookup / int() itself
            fg, bg = case["fg"], case["bg"]
            return [1, case["colors"], len(fg)] + [ord(c) for c in fg] + [len(bg)] + [ord(c) for c in bg]
        return [0] + self.encode_lexed(case)

    def encode_lexed(self, case):
        """description-level wire (cross-check): the harness performs the lexing"""
        depth = case["colors"]
        parts = []
        for p in case["fg"].split(","):
            p = p.strip()
            if p in SETTINGS:
                parts.append([0, SETTINGS.index(p)])
            else:
                parts.append([1, *lex_colour(p, depth)])
        out = [depth, len(parts)]
        for p in parts:
            out += p
        return out + list(lex_colour(case["bg"], depth))

    def decode(self, case, ints):
        if case.get("op") in ("cps", "int", "strip", "split"):
            return self.prim_decode(case, ints)
        if case.get("op") != "lex":
            return self.decode_str(ints)
        return self.decode_lexed(case, ints)

    @staticmethod
    def decode_str(ints):
        it = iter(ints)

        def take_str():
            if next(it):
                n = next(it)
                return "".join(chr(next(it)) for _ in range(n))
            return {"exc": ERRN.get(next(it), "?")}
        try:
            tag = next(it)
            if tag == 0:
                return {"err": ERRN.get(next(it), "?"), "why": next(it)}
            if tag != 1:
                return {"malformed": ints[:40]}
            out = {"value": next(it), "colors": next(it)}
            out["fg"] = take_str()
            out["bg"] = take_str()
            if next(it):
                out["rgb"] = [next(it) if next(it) else None for _ in range(6)]
            else:
                out["rgb"] = {"exc": ERRN.get(next(it), "?")}
            if next(it):
                out["copy"] = next(it)
            else:
                out["copy"] = {"exc": ERRN.get(next(it), "?"), "why": next(it)}
            return out
        except (StopIteration, ValueError):
            return {"malformed": ints[:40]}

    def decode_lexed(self, case, ints):
        it = iter(ints)
        try:
            tag = next(it)
            if tag == 0:
                return {"err": ERRN.get(next(it), "?"), "why": next(it)}
            if tag != 1:
                return {"malformed": ints[:40]}
            out = {"value": next(it), "colors": next(it)}
            if next(it):
                t, p = next(it), next(it)
                bits = [next(it) for _ in range(6)]
                out["fg"] = unlex(t, p) + "".join("," + n for n, b in zip(FG_ORDER, bits) if b)
            else:
                out["fg"] = {"exc": ERRN.get(next(it), "?")}
            if next(it):
                out["bg"] = unlex(next(it), next(it))
            else:
                out["bg"] = {"exc": ERRN.get(next(it), "?")}
            if next(it):
                rgb = []
                for _ in range(2):
                    if next(it):
                        rgb += [next(it), next(it), next(it)]
                    else:
                        rgb += [None, None, None]
                out["rgb"] = rgb
            else:
                out["rgb"] = {"exc": ERRN.get(next(it), "?")}
            return out
        except StopIteration:
            return {"malformed": ints[:40]}

    # ---------- oracle: written from the property text ----------
    FLOOD = 3      # messages of one class reported per run (core keeps 200 in all and dedupes by class anyway)

    def oracle(self, case, res):
        msgs = self.judge(case, res)
        if getattr(self, "_shrinking", False) or not msgs:
            return msgs
        seen = self.__dict__.setdefault("_seen", {})
        out = []
        for m in msgs:
            k = self.signature(case, m)
            seen[k] = seen.get(k, 0) + 1
            if seen[k] <= self.FLOOD:
                out.append(m)
        return out

    def shrink(self, case, msg):
        self._shrinking = True
        try:
            return super().shrink(case, msg)
        finally:
            self._shrinking = False

    def judge(self, case, res):
        if case.get("op") in ("cps", "int", "strip", "split"):
            return []          # CPython primitives: model validation only (correspondence)
        msgs = []
        fg, bg, depth = case["fg"], case["bg"], case["colors"]
        ref, info = reference(case)
        if "err" in res:
            if res["err"] != "AttrSpecError":
                return [f"wrong-exception: AttrSpec({fg!r}, {bg!r}, {depth}) raised {res['err']}, not AttrSpecError"]
            if ref == "valid":
                return [f"valid-rejected: the valid specification AttrSpec({fg!r}, {bg!r}, {depth}) was rejected"]
            return []
        if ref == "reject":
            msgs.append(f"invalid-accepted: AttrSpec({fg!r}, {bg!r}, {depth}) must be rejected (unknown colour name, duplicated "
                        f"setting, several colours or a colour beyond the declared depth) but was accepted as "
                        f"({res['fg']!r}, {res['bg']!r})")
        for side in ("fg", "bg", "rgb"):
            if isinstance(res[side], dict):
                msgs.append(f"describe-raised: {side} of AttrSpec({fg!r}, {bg!r}, {depth}) raised {res[side]['exc']}")
        if msgs and any(m.startswith("describe-raised") for m in msgs):
            return msgs
        a, _ = build(fg, bg, depth)
        nfg, nbg, rep = res["fg"], res["bg"], res["colors"]
        # --- the normalised descriptions rebuild an equal specification; parsing a description is idempotent
        b, err = build(nfg, nbg, depth)
        if b is None:
            msgs.append(f"roundtrip: the reported descriptions ({nfg!r}, {nbg!r}) of AttrSpec({fg!r}, {bg!r}, {depth}) are rejected ({err[0]})")
        else:
            if not (b == a) or (b != a):
                msgs.append(f"roundtrip: AttrSpec({nfg!r}, {nbg!r}, {depth}) differs from AttrSpec({fg!r}, {bg!r}, {depth})")
            elif hash(b) != hash(a):
                msgs.append(f"eq-hash: equal specifications with different hashes ({fg!r}, {bg!r}, {depth})")
            if guarded(lambda: b.foreground) != nfg or guarded(lambda: b.background) != nbg:
                msgs.append(f"idempotent: describing the rebuilt specification gives ({guarded(lambda: b.foreground)!r}, "
                            f"{guarded(lambda: b.background)!r}), not ({nfg!r}, {nbg!r})")
        # --- the reported depth: not above the declared one, expresses the specification, and is the smallest such depth
        kinds = self.kinds(info) if ref == "valid" else "?"
        if rep not in DEPTHS or rep > depth:
            msgs.append(f"depth-range: reported depth {rep} for declared depth {depth} ({fg!r}, {bg!r})")
        else:
            c, err = build(nfg, nbg, rep)
            if c is None or not (c == a):
                msgs.append(f"depth-rebuild[declared={depth},kinds={kinds}]: the reported depth {rep} does not express the specification: "
                            f"AttrSpec({nfg!r}, {nbg!r}, {rep}) " + ("is rejected" if c is None else "is a different specification")
                            + f" (from AttrSpec({fg!r}, {bg!r}, {depth}))")
            elif hash(c) != hash(a):
                msgs.append(f"eq-hash: equal specifications with different hashes ({nfg!r}, {nbg!r}, {rep})")
            for d in DEPTHS:
                if d < rep:
                    s, _ = build(nfg, nbg, d)
                    if s is not None and s == a:
                        msgs.append(f"depth-minimal: reported depth {rep} but depth {d} already expresses AttrSpec({nfg!r}, {nbg!r})")
                        break
        # --- copy_modified() with no argument is that rebuild: it must give an equal specification
        if "copy" in res and res["copy"] != res["value"]:
            msgs.append(f"copy: AttrSpec({fg!r}, {bg!r}, {depth}).copy_modified() is not an equal specification ({res['copy']!r})")
        # --- valid specifications: settings kept, colours mapped to the nearest palette entry, xterm RGB values
        if ref == "valid":
            rs = [p for p in nfg.split(",")[1:]]
            if sorted(rs) != sorted(info["settings"]):
                msgs.append(f"settings: foreground {fg!r} is reported as {nfg!r}")
            rgb = res["rgb"]
            for name, cls, got in (("foreground", info["fg"], rgb[0:3]), ("background", info["bg"], rgb[3:6])):
                exp = expected_rgb(cls, depth)
                if exp is None:
                    continue
                g = None if got == [None, None, None] else tuple(got)
                if g not in exp:
                    other = info["bg"] if name == "foreground" else info["fg"]
                    tag = "rgb"
                    if cls[0] == "basic" and depth == TRUE and other[0] not in ("basic", "default"):
                        tag = "rgb-basic-with-true"
                    msgs.append(f"{tag}: get_rgb_values() of AttrSpec({fg!r}, {bg!r}, {depth}) reports {g} for the {name}, "
                                f"the xterm tables / nearest palette entry give {sorted(exp, key=str)[:4]}")
        return msgs

    @staticmethod
    def kinds(info):
        def k(c):
            return {"default": "default", "basic": "basic", "true": "true"}.get(c[0], "high")
        return k(info["fg"]) + "/" + k(info["bg"])

    def nontrivial(self, case, res):
        if "fg" not in case:
            return True
        return not (case["fg"] in ("", "default") and case["bg"] in ("", "default"))

    def signature(self, case, msg):
        return msg.split(":", 1)[0]

    def distribution(self, case, res, dist):
        def inc(k):
            dist[k] = dist.get(k, 0) + 1
        if "fg" not in case:
            inc("prim:" + case["op"])
            return
        if case.get("op") == "lex":
            inc("wire:lexed-by-harness")
        inc("depth:%d" % case["colors"])
        if "err" in res:
            inc("outcome:%s/%d" % (res["err"], res["why"]))
        else:
            inc("outcome:ok")
            inc("reported-depth:%d" % res["colors"])
        inc("src:" + case.get("src", "?"))
        ref, _ = reference(case)
        inc("reference:" + ref)

    @staticmethod
    def size(case):
        return (len(case["fg"]) + len(case["bg"]), case["fg"], case["bg"])

    def shrink_candidates(self, case):
        if "fg" not in case:
            return
        for cand in self.shrink_candidates_all(case):
            if self.size(cand) < self.size(case):       # strictly decreasing: the shrink loop terminates
                yield cand

    def shrink_candidates_all(self, case):
        parts = case["fg"].split(",")
        for i in range(len(parts)):
            if len(parts) > 1:
                yield dict(case, fg=",".join(parts[:i] + parts[i + 1:]))
        if any(p != p.strip() for p in parts):
            yield dict(case, fg=",".join(p.strip() for p in parts))
        if case["bg"] not in ("default",):
            yield dict(case, bg="default")
        if case["fg"] != "default":
            yield dict(case, fg="default")
        for p in parts:
            if p.strip() not in SETTINGS and p.strip() not in ("default", "") and len(p) > 1:
                for q in ("black", "dark red", "h0", "#000", "g0", "#000000"):
                    if q != p.strip():
                        yield dict(case, fg=case["fg"].replace(p, q, 1))
        if case["bg"] not in ("default", ""):
            for q in ("black", "dark red", "h0", "#000", "g0", "#000000"):
                if q != case["bg"]:
                    yield dict(case, bg=q)

    # ---------- generators ----------
    @staticmethod
    def colour_domain():
        return (["default", ""] + NAMES + ["h%d" % i for i in range(256)] + ["#%03x" % i for i in range(4096)]
                + ["g%d" % i for i in range(101)] + ["g#%02x" % i for i in range(256)])

    @staticmethod
    def with_settings(rng, colour, subset=None, shuffle=True):
        if subset is None:
            subset = [s for s in SETTINGS if rng.random() < 0.3]
        parts = list(subset)
        if shuffle:
            rng.shuffle(parts)
        if colour is not None:
            parts.insert(rng.randrange(len(parts) + 1) if shuffle else 0, colour)
        sp = lambda: rng.choice(["", "", "", " ", "  "])   # noqa: E731
        return ",".join(sp() + p + sp() for p in parts) if shuffle else ",".join(parts)

    def true_colours(self, rng, n):
        edge = [0, 1, 0xf, 0x10, 0xff, 0x100, 0xffff, 0x10000, 0xffffff, 0xfffffe, 0x5f5f5f, 0x878787, 0x8a8a8a, 0x808080,
                0x7f7f7f, 0xcd0000, 0x5c5cff]
        for v in edge:
            yield "#%06x" % v
        for _ in range(n):
            r = rng.random()
            if r < 0.5:
                yield "#%06x" % rng.randrange(TRUE)
            elif r < 0.8:   # channels near the cube / gray steps and nibble boundaries
                ch = [min(255, max(0, rng.choice(CUBE256 + GRAY256 + CUBE88 + GRAY88 + [16 * k for k in range(16)]) + rng.randint(-2, 2)))
                      for _ in range(3)]
                yield "#%02x%02x%02x" % tuple(ch)
            else:
                g = rng.randrange(256)
                yield "#%02x%02x%02x" % (g, g, g)

    ALPHABET = list("hg#0123456789abcdefABCDEFxX_+- ,") + ["٣", "１", "\t", "\n", "G", "H", "z", ".", "e", "0x", "1_0",
                                                        "\x0b", "\x0c", "\r", "\x1c", "\x1f", "\x85", "\u00a0", "\u2003", "\u3000",
                                                        "\u200b", "\x00", "\x7f", "\ud800", "\U0001d7d7", "\U0001e953", "__", "0X"]
    WORDS = ["purple", "orange", "grey", "light grey", "dark yellow", "Dark Red", "BLACK", "bright red", "red", "blue", "green",
             "dark  red", "lightgray", "none", "transparent", "bolder", "under line", "h", "g", "hx", "gray", "dark grey"]

    def malformed(self, rng):
        dom = self.domain
        r = rng.random()
        if r < 0.35:
            s = "".join(rng.choice(self.ALPHABET) for _ in range(rng.choice([1, 2, 3, 3, 4, 4, 4, 5, 6, 7, 7, 7, 8, 12])))
        elif r < 0.7:
            s = list(rng.choice(dom[18:]))
            for _ in range(rng.choice([1, 1, 2])):
                k = rng.randrange(3)
                pos = rng.randrange(len(s) + 1)
                if k == 0:
                    s.insert(pos, rng.choice(self.ALPHABET))
                elif k == 1 and s:
                    del s[min(pos, len(s) - 1)]
                elif s:
                    s[min(pos, len(s) - 1)] = rng.choice(self.ALPHABET)
            s = "".join(s)
        elif r < 0.85:
            s = rng.choice(["#", "h", "g", "g#"]) + "".join(rng.choice("0123456789abcdef-+_ x") for _ in range(rng.choice([2, 3, 5, 6, 6])))
        else:
            s = rng.choice(self.WORDS)
        return s

    def reject_cases(self, rng):
        for d in DEPTHS:
            for w in self.WORDS:
                yield {"fg": w, "bg": "default", "colors": d, "src": "reject"}
                yield {"fg": "default", "bg": w, "colors": d, "src": "reject"}
                yield {"fg": self.with_settings(rng, w), "bg": "black", "colors": d, "src": "reject"}
            for s in SETTINGS:
                for c in (None, "default", "yellow", "h3", "#fa0"):
                    sub = [s, s] + [t for t in SETTINGS if t != s and rng.random() < 0.3]
                    yield {"fg": self.with_settings(rng, c, sub), "bg": "default", "colors": d, "src": "reject"}
            two = ["default", "black", "white", "h1", "#123", "g50", "g#7f", "#123456"]
            for x in two:
                for y in two:
                    yield {"fg": self.with_settings(rng, x, [y] + [t for t in SETTINGS if rng.random() < 0.2]), "bg": "default",
                           "colors": d, "src": "reject"}
            for c in ["h88", "h100", "h255", "h256", "h999", "g101", "g999", "h87", "h16", "#fff", "g3", "g#10", "dark red", "white",
                      "#ffffff", "h0"]:
                yield {"fg": c, "bg": "default", "colors": d, "src": "reject"}
                yield {"fg": "bold", "bg": c, "colors": d, "src": "reject"}
        for d in (0, 2, 8, 15, 17, 87, 89, 255, 257, 2 ** 24 - 1, 2 ** 24 + 1, -1, 2 ** 32):
            yield {"fg": "default", "bg": "default", "colors": d, "src": "reject"}
            yield {"fg": "h300,bold,bold", "bg": "zzz", "colors": d, "src": "reject"}

    def cases(self, rng, tier):
        # raw-string wire for every case; every 6th one is also sent through the harness lexer
        # (description-level wire) as a cross-check of the lexer that the Coq development formalises
        for i, c in enumerate(self.spec_cases(rng, tier)):
            yield c
            if i % 6 == 0:
                yield dict(c, op="lex")
        yield from self.primitive_cases(rng, tier)

    INT_ALPHABET = [" ", "\t", "+", "-", "_", "0", "x", "X", "1", "9", "a", "A", "f", "F", "g", "\x1c", "\u0663", "\u00a0", "\x00"]
    SPACES = [" ", "\t", "\n", "\x0b", "\x0c", "\r", "\x1c", "\x1d", "\x1e", "\x1f", "\x85", "\u00a0", "\u1680", "\u2000",
              "\u200a", "\u2028", "\u2029", "\u202f", "\u205f", "\u3000", "\u200b", "\u180e", "\ufeff", "a", ",", "b"]

    def primitive_cases(self, rng, tier):
        """int(str, 10/16), str.strip, str.split(","), and the two Unicode tables for EVERY code point"""
        step = 4096
        for lo in range(0, 0x110000, step):
            yield {"op": "cps", "lo": lo, "hi": min(lo + step, 0x110000)}
        alpha = self.INT_ALPHABET
        for n in (0, 1, 2, 3):
            for t in itertools.product(alpha, repeat=n):
                for base in (10, 16):
                    yield {"op": "int", "base": base, "s": "".join(t)}
        for _ in range(3000 if tier == "quick" else 60000):
            n = rng.choice([4, 4, 5, 6, 6, 7, 8])
            yield {"op": "int", "base": rng.choice([10, 16]), "s": "".join(rng.choice(alpha + ["0x", "0X", "__", "ff"]) for _ in range(n))}
        for _ in range(1500 if tier == "quick" else 20000):
            t = "".join(rng.choice(self.SPACES) for _ in range(rng.randrange(0, 9)))
            yield {"op": "strip", "s": t}
            yield {"op": "split", "s": t}

    def spec_cases(self, rng, tier):
        self.domain = dom = self.colour_domain()
        quick = tier == "quick"
        for d in DEPTHS:
            for c in dom:
                yield {"fg": self.with_settings(rng, c), "bg": "default", "colors": d, "src": "fg-exhaustive"}
                yield {"fg": self.with_settings(rng, None) or "default", "bg": c, "colors": d, "src": "bg-exhaustive"}
            # every subset of the settings, canonical and shuffled, with a few colours
            for k in range(7):
                for sub in itertools.combinations(SETTINGS, k):
                    for c in (None, "default", "yellow", "h7", "#abc", "g#5f"):
                        yield {"fg": self.with_settings(rng, c, list(sub), shuffle=False) or "", "bg": "default", "colors": d, "src": "settings"}
                        yield {"fg": self.with_settings(rng, c, list(sub)), "bg": "dark blue", "colors": d, "src": "settings"}
            for _ in range(3000 if quick else 20000):
                yield {"fg": self.with_settings(rng, rng.choice(dom)), "bg": rng.choice(dom), "colors": d, "src": "pairs"}
        if not quick:
            # every colour with every subset of the settings (canonical order) at the three high-colour depths
            subs = [list(s) for k in range(7) for s in itertools.combinations(SETTINGS, k)]
            for d in (88, 256, TRUE):
                for c in dom:
                    for sub in (subs[1:] if d != TRUE else rng.sample(subs[1:], 8)):
                        yield {"fg": ",".join([c] + sub), "bg": "default", "colors": d, "src": "fg-x-settings"}
        for t in self.true_colours(rng, 6000 if quick else 50000):
            other = rng.choice(["default", "default", rng.choice(NAMES), rng.choice(dom), "#%06x" % rng.randrange(TRUE)])
            yield {"fg": self.with_settings(rng, t), "bg": other, "colors": TRUE, "src": "true"}
            yield {"fg": self.with_settings(rng, other if "," not in other else "default"), "bg": t, "colors": TRUE, "src": "true"}
        for t in self.true_colours(rng, 1500 if quick else 20000):
            for d in (88, 256, 16):
                yield {"fg": t, "bg": rng.choice(["default", t]), "colors": d, "src": "true-degraded"}
        yield from self.reject_cases(rng)
        for _ in range(8000 if quick else 100000):
            yield self.malformed_case(rng)

    def malformed_case(self, rng):
        d = rng.choice(DEPTHS)
        r = rng.random()
        m = self.malformed(rng)
        if r < 0.45:
            return {"fg": m, "bg": rng.choice(["default", "black", "h1"]), "colors": d, "src": "malformed"}
        if r < 0.7:
            return {"fg": self.with_settings(rng, m), "bg": "default", "colors": d, "src": "malformed"}
        if r < 0.95:
            return {"fg": rng.choice(["default", "bold", "white"]), "bg": m, "colors": d, "src": "malformed"}
        return {"fg": m + "," + self.malformed(rng), "bg": self.malformed(rng), "colors": d, "src": "malformed"}

    def search_cases(self, rng, tier):
        self.domain = dom = self.colour_domain()
        subs = [list(s) for k in range(7) for s in itertools.combinations(SETTINGS, k)]
        for d in (256, 88, TRUE, 16, 1):
            for c in dom:
                yield {"fg": c, "bg": "default", "colors": d, "src": "search"}
                yield {"fg": "default", "bg": c, "colors": d, "src": "search"}
        for d in (256, 88, TRUE):
            for c in ("default", "yellow", "h7", "#abc", "g50"):
                for sub in subs:
                    for perm in itertools.islice(itertools.permutations(sub), 24):
                        yield {"fg": ",".join([c] + list(perm)), "bg": "default", "colors": d, "src": "search"}
        while True:
            r = rng.random()
            if r < 0.4:
                d = rng.choice(DEPTHS)
                yield {"fg": self.with_settings(rng, rng.choice(dom)), "bg": rng.choice(dom), "colors": d, "src": "search"}
            elif r < 0.7:
                t = "#%06x" % rng.randrange(TRUE)
                yield {"fg": t, "bg": rng.choice(["default", t, "black"]), "colors": rng.choice([TRUE, 256, 88]), "src": "search"}
            else:
                yield self.malformed_case(rng)


CHECK = C18
