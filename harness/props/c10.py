"""C10 - the Edit widget (and IntEdit / IntegerEdit / FloatEdit / NumEdit) as a reference text editor."""
import ast
import itertools
import os
import re
import warnings

from harness import core

warnings.simplefilter("ignore")

NAMED = {"tab": 2, "enter": 3, "left": 4, "right": 5, "backspace": 6, "delete": 7, "up": 8, "down": 9,
         "home": 10, "end": 11}
LAYOUT_KEYS = {"up", "down", "home", "end"}
ERRN = {0: None, 1: "IndexError", 2: "ValueError", 3: "TypeError", 9: "RuntimeError", 10: "UnicodeEncodeError"}
ALLOWED = "0123456789ABCDEFGHIJKLMNOPQRSTUVWXYZ"

WIDE, ACC, COMB = "世", "é", "́"
ASTRAL, ASTRAL2 = "\U0001F600", "\U00020000"      # 4 bytes in UTF-8 (1..4 bytes: "a", ACC, WIDE, ASTRAL)
UNUSED_KEYS = ["f5", "page up", "page down", "esc", "ctrl x", "shift tab", "insert", "\x01", "\n", "ab", "meta a",
               "ctrl l", "shift f1"]


WIDE_ENCS = ["euc-jp", "big5", "gbk", "uhc", "euc-kr"]     # urwid's 'wide' (double-byte) byte encodings
_WIDE_ALPHA = {}


def wide_alphabet(enc):
    """Two-byte characters of a double-byte encoding at every boundary of its lead- and trail-byte
    ranges (first/last value of every contiguous run of valid trail bytes, first/last lead byte)."""
    if enc in _WIDE_ALPHA:
        return _WIDE_ALPHA[enc]
    by_trail, by_lead = {}, {}
    for lead in range(0x81, 0xFF):
        for trail in range(0x40, 0xFF):
            try:
                ch = bytes([lead, trail]).decode(enc)
            except UnicodeDecodeError:
                continue
            if len(ch) == 1 and ch.encode(enc) == bytes([lead, trail]):
                by_trail.setdefault(trail, ch)
                by_lead.setdefault(lead, ch)
    picks = []
    for table in (by_trail, by_lead):
        vals = sorted(table)
        for i, v in enumerate(vals):
            if i == 0 or vals[i - 1] != v - 1 or i == len(vals) - 1 or vals[i + 1] != v + 1:
                if table[v] not in picks:
                    picks.append(table[v])
    _WIDE_ALPHA[enc] = picks
    return picks


class CaseTimeout(BaseException):
    """The implementation did not return within the per-case CPU time limit (a hang is a violation)."""


def _on_alarm(_signum, _frame):
    raise CaseTimeout()


CASE_TIME_LIMIT = 5.0


def cps(s):
    return [ord(c) for c in s]


def sstr(l):
    return "".join(chr(c) for c in l)


def enc_list(l):
    return [len(l)] + list(l)


def enc_oz(v):
    return [0] if v is None else [1, v]


def enc_layout(lay):
    out = [len(lay)]
    for ln in lay:
        out.append(len(ln))
        for seg in ln:
            if len(seg) == 2:
                if seg[1] is None:
                    out += [0, seg[0]]
                else:
                    out += [1, seg[0], seg[1]]
            elif isinstance(seg[2], int):
                out += [2, seg[0], seg[1], seg[2]]
            else:
                out += [1, seg[0], seg[1]]
    return out


def prefenc(p):
    if p is None:
        return None
    if isinstance(p, int) and not isinstance(p, bool):
        return [0, p]
    if p == "left":
        return [1, 0]
    if p == "right":
        return [2, 0]
    return ["?", repr(p)]


# ---------------------------------------------------------------------------------------------
# naive display model used by the oracle (written from the layout structure's documentation, not
# from calc_coords/calc_pos): for every display row the cells of the characters and the offsets
# that have no cell of their own (a removed blank/newline, the end of the text)
# ---------------------------------------------------------------------------------------------
class Rows:
    def __init__(self, lay, text, widthf):
        self.rows = []
        for ln in lay:
            x = 0
            cells = []     # (x0, x1, offset) for characters of non-zero width
            offs = []      # (x, offset) every offset present on this row, in order
            for seg in ln:
                sc = seg[0]
                if len(seg) == 2:
                    if seg[1] is not None:
                        offs.append((x, seg[1], "hint"))
                elif isinstance(seg[2], int):
                    cx = x
                    for o in range(seg[1], seg[2]):
                        w = widthf(text[o]) if o < len(text) else 0
                        offs.append((cx, o, "char"))
                        if w > 0:
                            cells.append((cx, cx + w, o))
                        cx += w
                else:
                    offs.append((x, seg[1], "hint"))
                x += sc
            self.rows.append({"cells": cells, "offs": offs, "width": x})

    def find(self, q):
        """(row, x, kind) of the first place offset q is shown, or None (not displayable)."""
        for y, r in enumerate(self.rows):
            for (x, o, kind) in r["offs"]:
                if o == q:
                    return y, x, kind
        return None

    def cell_at(self, y, col, shift=0):
        for (x0, x1, o) in self.rows[y]["cells"]:
            if x0 + shift <= col < x1 + shift:
                return o
        return None


class C10(core.Check):
    pid = "C10"
    gen_modules = ["str_util", "wcwidth_table"]       # C11's translated decode_one arithmetic / width table (bytes model)
    model_targets = ["theories/Model/EditBytes.vo"]
    prop_file = "theories/Properties/C10.v"
    extract_v = "Extract/C10X.v"
    allowed_axioms = set()
    design_ref = "DESIGN.md section 5, C10"
    technique = ("Coq theorems (simulation by induction over key/click histories, invariants) about a hand-written "
                 "executable model of Edit/IntEdit/NumEdit over layout data supplied by the real StandardTextLayout; "
                 "extracted-model correspondence after every event; reference-editor oracle on rendered output")
    search_budget = {"quick": 60, "thorough": 400}

    rule = ("cases = (widget variant, caption, text, wrap, align, flags, event list) where events are keypresses "
            "(printable, multi-character, named, unused), mouse clicks, renders, get_pref_col, set_edit_pos, each with "
            "its own width 1..9; exhaustive single events on every text of length <= 3 over {a, space, wide, newline} "
            "at widths 1..3 plus random histories; a separate bytes stream judged by the oracle only: utf-8 exhaustive "
            "(every text <= 3 of 1/2/3/4-byte characters x every boundary x left/right/backspace/delete) and random "
            "(utf-8 with 1..4-byte and combining characters; euc-jp, big5, gbk, uhc, euc-kr with the two-byte characters at "
            "every boundary of the lead/trail byte ranges and ASCII '~' '@' '\\', exhaustive texts <= 2 x boundaries x keys x "
            "clicks; latin-1); non-trivial = some event changed the text or the offset; distinct by hash of (case, outcome)")
    trusted_base = [
        "Coq 8.16.1 kernel (coqc; vm_compute used only for closed examples)",
        "extraction: ExtrOcamlBasic only; Z/positive stay Coq datatypes; OCaml 4.13.1",
        "tools/driver/driver.ml (int <-> Z conversion, line I/O)",
        "hand-written model Model/Edit.v of edit.py, numedit.py and text_layout.calc_coords/calc_pos/calc_line_pos/"
        "shift_line (validated by the per-event correspondence, not proved against Python)",
        "Model/EditBytes.v (bytes-mode wiring of Edit.keypress and the coordinate maps, all three byte-encoding modes) "
        "over C11's Model/Width.v (str_util on bytes: within_double_byte, move_prev/next_char, calc_width, calc_text_pos; "
        "decode_one arithmetic and width lookup re-translated by py2v every run) and C11's Proofs/Utf8Proofs.v, "
        "WideProofs.v, WideExact.v, Base/Utf8.v (utf8_encode / strict_decode = CPython's codec: validated by C11's check)",
        "the layout structures, character widths and str.upper / str.lower values sent to the model are those computed by the "
        "implementation (StandardTextLayout.layout, str_util.get_char_width, str.upper, str.lower): layout correctness is C03's, "
        "width arithmetic C11's",
        "Python oracle in harness/props/c10.py (naive reference editor + cell map built from the layout structure + "
        "the rendered canvas)",
    ]
    assumptions = [
        "str mode (code points) for parts 1-2; parts 3/3b are bytes mode (Model/EditBytes.v, parametric in str_util's "
        "byte-encoding mode utf8 / wide / narrow, over C11's str_util model Model/Width.v, imported read-only); every "
        "bytes stream (utf-8, euc-jp, big5, gbk, uhc, euc-kr, latin-1) goes through model + oracle",
        "wide / narrow theorems: well-formed double-byte text (single bytes < 0x80, lead 0x81..0xFF + trail 0x40..0x7E / "
        "0x80..0xFF) and ASCII keys; (historic: a non-ASCII key used to be inserted as UTF-8 bytes whatever the byte encoding) "
        "fixed by e68a774 (keys arrive as key.encode(get_encoding(), 'replace'); that encoder is data sent to the model for "
        "the wide / narrow codecs, computed in the model for utf8); characters of three or more bytes under a 'wide' codec "
        "(EUC-JP JIS X 0212, EUC-TW) are outside urwid's double-byte model (set_encoding: 'JISX 0208 only') and are not generated",
        "pos_on_char_boundary_inv: initial caption/text are UTF-8 encodings of scalar values and the offset is on a "
        "character boundary; layouts carried by up/down/home/end/click cut the displayed text at character boundaries "
        "(lay_bnd; counted on real layouts in the evidence: hyp:bytes-layout-*); set_edit_pos arguments designate a "
        "boundary; for ill-formed text nothing is claimed (examples ill_formed_* show what happens)",
        "Edit.highlight is None (no Edit method sets it; checked by an AST scan of edit.py/numedit.py every run)",
        "the default command_map (left/right/up/down/home/end are the only cursor commands)",
        "mask is None or one character; width >= 1; non-empty key strings",
        "render cache: the caller keeps only the most recently returned canvas alive (as a screen does), so a render "
        "is served from CanvasCache exactly when the previous render had the same (width, focus) and nothing was "
        "invalidated since",
        "numeric_alphabet_inv_NumEdit_code needs nothing about str.upper/str.lower; its restatement over the alphabet "
        "(numeric_alphabet_inv_NumEdit) needs lower_honest: a character equal to lower(upper(c)) with upper(c) occurring "
        "in the allowed string is in the alphabet; checked for the real str.upper/str.lower over all code points for "
        "every alphabet the generators use, every run (extra_checks)",
        "part-2 theorems (cursor_cell, cursor_visible, click_cell, row_home/row_end_*) speak about layout rows of the "
        "stated shape (text segment as wide as its text, only a leading pad negative); part 2b PROVES that shape for "
        "every row of C03's model of StandardTextLayout.layout (Model/TextLayout.v, imported read-only) and of the "
        "shifted view, so for click_cell the remaining assumption is that the layout data equals that model's output "
        "(C03's correspondence); the shape is also counted on the real layouts (hyp:* counters: always so far)",
    ]
    level_text = ("Proved in Coq, for every caption/text/flags/mask/variant, every history of events (printable, "
                  "multi-character and unused key strings, tab, enter, left/right/up/down/home/end, backspace, delete, "
                  "clicks, renders, get_pref_col, set_edit_pos, each with its own width) and ARBITRARY layout data, with "
                  "no size bound: after every event the model's text, offset, preferred column, view flags and return "
                  "value equal those of a small reference editor (edit_refines_ref, simulation by induction: insert at "
                  "the cursor, delete before/after, move by one, go to a column of a display row through the layout's "
                  "row/column maps, leading zeros removed in the numeric variants); 0 <= offset <= len always (pos_inv); "
                  "the signals of every event are a chain change(new)[text still old], postchange(old)[text already new] "
                  "from the text before to the text after (signals_order); a key returned unhandled leaves text and "
                  "offset unchanged and emits nothing, and rejected key strings / tab without allow_tab / enter without "
                  "multiline come back with the whole state untouched (unhandled_returned); IntEdit texts are digits; "
                  "NumEdit/IntegerEdit/FloatEdit: apart from one leading minus every character of the text passed the "
                  "test the code applies (upper(c) in allowed and c in {upper(c), lower(upper(c))}) with NO hypothesis on "
                  "upper/lower (numeric_alphabet_inv_NumEdit_code), hence lies in the alphabet under the one remaining "
                  "hypothesis lower_honest, which the harness checks for the real str.upper/str.lower over all code "
                  "points every run (numeric_alphabet_inv_NumEdit); the leading-zero loop has enough fuel.  Over layout rows of a stated "
                  "shape: the cursor of a shown offset is the cell where the layout shows it (cursor_cell), shifted into "
                  "the w columns at clamp(x,0,w-1) in a focused view (cursor_visible), a click on any column of a "
                  "character's cell selects that character (click_cell, column_to_offset), home/end go to the first / "
                  "last offset of the row (row_home, row_end_*); for the layouts of StandardTextLayout (C03's model, all wrap modes and "
                  "alignments) the row shape is proved, not assumed (standard_layout_rows_have_cell_shape, "
                  "click_cell_on_standard_layout).  NOT theorem-backed (correspondence / oracle only): "
                  "bytes mode and other encodings (offset on a character boundary; oracle on a bytes stream), the drawn "
                  "canvas (cursor cell holds the character at the offset, rows() == canvas rows, render never raises), that the layout data sent to the model is the output of C03's layout model (C03's correspondence; "
                  "the row shape is also counted on the real layouts), the preferred-column semantics of up/down beyond what the reference editor states; "
                  "highlight is not covered.  "
                  "BYTES MODE (utf8 byte encoding), part 3: pos_on_char_boundary_inv - for every event history from a UTF-8 "
                  "caption/text with the offset on a character boundary, the text stays valid UTF-8 and both halves around "
                  "the offset decode (the offset is never inside a multi-byte character): unconditional for printable / "
                  "unencodable / unused keys, tab, enter, left, right, backspace, delete; for up/down/home/end/click under the "
                  "hypothesis that the layout cuts at character boundaries (measured on real layouts); "
                  "bytes_keys_simulate_reference - insert/enter/left/right/backspace/delete on bytes simulate the "
                  "character-level reference editor through the boundary map boff (tab does not: its blank count uses the byte "
                  "offset - recorded); C11's move_prev_char/move_next_char/calc_text_pos theorems are reused.  WIDE (euc-jp, big5, gbk, uhc, euc-kr) and NARROW (latin-1) bytes, part "
                  "3b, from one generic development instantiated with C11's within_double_byte theorems: "
                  "wide_pos_on_char_boundary_inv (never inside a double-byte character, every history from well-formed text; "
                  "layout events under the boundary hypothesis), wide_keys_simulate_reference / "
                  "narrow_keys_simulate_reference (left/right/backspace/delete = one whole character, ASCII keys and enter "
                  "inserted at the cursor), bytes_pos_inv (any mode, ANY bytes: 0 <= offset <= len).  Tied by the per-event "
                  "correspondence on every bytes stream (exhaustive boundary-character scopes + random); typed non-ASCII "
                  "and unencodable keys included (wide_any_key_inserts_its_characters, narrow_any_key_inserts_its_bytes; the "
                  "codec's output for a key is data).")
    level_note = ("Trusted: Coq kernel, extraction + OCaml driver, the hand-written model Model/Edit.v (tied to the code by "
                  "an exact per-event comparison of text, offset, return value, signals with their arguments and the text "
                  "at emission time, pref_col_maxcol and _shift_view_to_cursor), the layout / width / str.upper data taken "
                  "from the implementation at each event, the Python oracle (reference editor + cell map built from the "
                  "layout structure + canvas content).")

    def __init__(self):
        super().__init__()
        self._last = None

    # ------------------------------------------------------------------ implementation
    def _build(self, case):
        import urwid
        from urwid import numedit
        v = case["variant"]
        cap, txt = case["caption"], case["text"]
        if case.get("bytes"):
            enc = case["enc"]
            cap, txt = cap.encode(enc), txt.encode(enc)
        if v[0] == "edit":
            e = urwid.Edit(cap, txt, multiline=case["multiline"], align=case["align"], wrap=case["wrap"],
                           allow_tab=case["allow_tab"], edit_pos=case["pos"], mask=case["mask"])
        else:
            if v[0] == "int":
                e = urwid.IntEdit(cap, txt if txt != "" else None)
            elif v[0] == "integer":
                d = txt
                if txt.startswith("-"):
                    d = int(txt)
                e = numedit.IntegerEdit(cap, d if d != "" else None, base=v[1], allow_negative=bool(v[2]))
            elif v[0] == "float":
                e = numedit.FloatEdit(cap, txt if txt != "" else None, decimal_separator=chr(v[1]),
                                      allow_negative=bool(v[2]))
            elif v[0] == "num":
                e = numedit.NumEdit(sstr(v[1]), cap, txt, trim_leading_zeros=bool(v[2]), allow_negative=bool(v[3]))
            else:
                raise core.MachineryError("unknown variant %r" % (v,))
            e.set_wrap_mode(case["wrap"])
            e.set_align_mode(case["align"])
            if case["pos"] is not None:
                e.set_edit_pos(case["pos"])
        if e.edit_text != txt:
            raise core.MachineryError("generator: initial text %r became %r" % (txt, e.edit_text))
        return e

    def _trace(self, case):
        """Run the implementation; returns (canonical result, per-step layouts, oracle observations)."""
        key = core.canon(case)
        if self._last is not None and self._last[0] == key:
            return self._last[1:]
        import urwid
        from urwid import str_util
        import signal
        urwid.set_encoding(case.get("enc", "utf-8"))
        # CPU time of this process, not wall time: a loaded machine must not look like a hang
        old_handler = signal.signal(signal.SIGVTALRM, _on_alarm)
        signal.setitimer(signal.ITIMER_VIRTUAL, CASE_TIME_LIMIT)
        try:
            out = self._trace_inner(case, urwid, str_util)
        finally:
            signal.setitimer(signal.ITIMER_VIRTUAL, 0)
            signal.signal(signal.SIGVTALRM, old_handler)
            urwid.set_encoding("utf-8")
        self._last = (key,) + out
        return out

    def _trace_inner(self, case, urwid, str_util):
        isb = bool(case.get("bytes"))
        e = self._build(case)
        sigs = []

        def txt_of(t):
            return list(t) if isb else cps(t)
        urwid.connect_signal(e, "change", lambda w_, new: sigs.append([1, txt_of(new), txt_of(w_.edit_text), w_.edit_pos]))
        urwid.connect_signal(e, "postchange", lambda w_, old: sigs.append([2, txt_of(old), txt_of(w_.edit_text), w_.edit_pos]))
        steps_out, lays, obs = [], [], []
        last_canvas = None       # like a screen, the caller keeps the most recent canvas (only) alive
        timed_out = False
        for st in case["steps"]:
            del sigs[:]
            kind = st[0]
            w = st[-1] if kind != "setpos" else None
            ob = {}
            lay = None
            if w is not None:
                full = e.get_text()[0]
                ob["disp"] = list(full) if isb else full
                try:
                    lay = e.layout.layout(full, w, e.align, e.wrap)
                except CaseTimeout:
                    lay = [[]]
                    ob["layout_exc"] = "a hang (no result within %gs)" % CASE_TIME_LIMIT
                    timed_out = True
                except Exception as ex:      # noqa: BLE001 - judged by the oracle
                    lay = [[]]
                    ob["layout_exc"] = type(ex).__name__
            lays.append(lay)
            err, ret = None, None
            try:
                if timed_out:
                    raise CaseTimeout()
                if kind == "key":
                    r = e.keypress((w,), st[1])
                    ret = ["handled"] if r is None else (["unhandled"] if r == st[1] else ["returned", repr(r)])
                elif kind == "click":
                    r = e.mouse_event((w,), "mouse press", st[1], st[2], st[3], True)
                    ret = ["bool", bool(r)] if isinstance(r, bool) else ["returned", repr(r)]
                elif kind == "render":
                    c = e.render((w,), bool(st[1]))
                    last_canvas = c
                    if st[1]:
                        cur = c.cursor
                        ret = ["coords", cur[0], cur[1], c.rows()] if cur is not None else ["coords", None, None, c.rows()]
                    else:
                        ret = ["rows", c.rows()]
                    ob["canvas"] = [bytes(b"".join(t for (_a, _cs, t) in row)).decode("utf-8", "replace")
                                    if not isb else list(b"".join(t for (_a, _cs, t) in row)) for row in c.content()]
                    ob["cols"] = c.cols()
                    ob["rows_call"] = e.rows((w,), bool(st[1]))
                elif kind == "prefcol":
                    ret = ["pref", prefenc(e.get_pref_col((w,)))]
                elif kind == "setpos":
                    e.set_edit_pos(st[1])
                    ret = ["unit"]
                else:
                    raise core.MachineryError("unknown step " + repr(st))
            except core.MachineryError:
                raise
            except CaseTimeout:
                err = "Timeout"
                timed_out = True
            except Exception as ex:      # noqa: BLE001 - the exception class is the observation
                err = type(ex).__name__
                ob["exc"] = repr(ex)[:200]
            pm = e.pref_col_maxcol
            steps_out.append({"err": err, "ret": ret, "sigs": [list(s) for s in sigs],
                              "text": txt_of(e.edit_text), "pos": e.edit_pos,
                              "pref": None if pm[0] is None and pm[1] is None else [prefenc(pm[0]), pm[1]],
                              "shiftv": bool(e._shift_view_to_cursor)})
            obs.append(ob)
            if timed_out:
                break
        del last_canvas
        return {"steps": steps_out}, lays, obs

    def run_impl(self, case):
        return self._trace(case)[0]

    # ------------------------------------------------------------------ model wire format
    def _encode_events(self, case, lays):
        l = []
        for st, lay in zip(case["steps"], lays):
            kind = st[0]
            if kind == "key":
                if st[1] in NAMED:
                    l.append(NAMED[st[1]])
                    if st[1] in LAYOUT_KEYS:
                        l += [st[2]] + enc_layout(lay)
                    else:
                        l += [st[2], 0]
                else:
                    l += [1] + enc_list(cps(st[1])) + [st[2], 0]
            elif kind == "click":
                l += [13, st[1], st[2], st[3], st[4]] + enc_layout(lay)
            elif kind == "render":
                l += [14, int(bool(st[1])), st[2]] + enc_layout(lay)
            elif kind == "prefcol":
                l += [17, st[1]] + enc_layout(lay)
            elif kind == "setpos":
                l += [15, st[1]]
        return l

    def encode(self, case):
        _res, lays, _obs = self._trace(case)
        if case.get("bytes"):
            if case["variant"] != ["edit"] or case["mask"] is not None:
                raise core.MachineryError("only bytes cases of Edit without a mask have a model")
            import wcwidth
            enc = case["enc"]
            sel = 100 if enc == "utf-8" else (101 if enc in WIDE_ENCS else 102)      # str_util byte encoding mode
            l = [sel] + enc_list(list(case["caption"].encode(enc))) + enc_list(list(case["text"].encode(enc)))
            l += enc_oz(case["pos"]) + [int(case["multiline"]), int(case["allow_tab"])]
            chars = set(case["caption"]) | set(case["text"]) | {"?"}
            for st in case["steps"]:
                if st[0] == "key" and st[1] not in NAMED:
                    chars |= set(st[1])
            chars = sorted(chars)
            l.append(len(chars))
            for c in chars:
                l += [ord(c), wcwidth.wcwidth(c)]
            # key.encode(get_encoding(), "replace") as data for the double-byte / single-byte codecs
            keys = sorted({st[1] for st in case["steps"] if st[0] == "key" and st[1] not in NAMED}) if sel != 100 else []
            l.append(len(keys))
            for k in keys:
                l += enc_list(cps(k)) + enc_list(list(k.encode(enc, "replace")))
            return l + self._encode_events(case, lays)
        from urwid import str_util
        v = case["variant"]
        if v[0] == "edit":
            l = [0]
        elif v[0] == "int":
            l = [1]
        elif v[0] == "integer":
            l = [2, v[1], int(bool(v[2]))]
        elif v[0] == "float":
            l = [3, v[1], int(bool(v[2]))]
        else:
            l = [4] + enc_list(v[1]) + [int(bool(v[2])), int(bool(v[3]))]
        l += enc_list(cps(case["caption"])) + enc_list(cps(case["text"])) + enc_oz(case["pos"])
        l += [int(case["multiline"]), int(case["allow_tab"])]
        l += enc_oz(None if case["mask"] is None else ord(case["mask"]))
        chars = set(case["caption"]) | set(case["text"]) | set(case["mask"] or "")
        keychars = set()
        for st in case["steps"]:
            if st[0] == "key" and st[1] not in NAMED:
                keychars |= set(st[1])
        chars |= keychars
        chars = sorted(chars)
        l.append(len(chars))
        for c in chars:
            l += [ord(c), str_util.get_char_width(c)]
        ups = sorted(keychars) if v[0] in ("integer", "float", "num") else []
        l.append(len(ups))
        for c in ups:
            l += [ord(c)] + enc_list(cps(c.upper()))
        lows = sorted({c.upper() for c in ups})
        l.append(len(lows))
        for u in lows:
            l += enc_list(cps(u)) + enc_list(cps(u.lower()))
        return l + self._encode_events(case, lays)

    def decode(self, case, ints):
        it = iter(ints)

        def lst():
            n = next(it)
            return [next(it) for _ in range(n)]

        def pref():
            k, x = next(it), next(it)
            return [0, x] if k == 0 else [k, 0]
        try:
            n = next(it)
            if n != len(case["steps"]):
                return {"malformed": ints[:40], "decoded_events": n}
            outs = []
            for _ in range(n):
                ec, rk = next(it), next(it)
                err = ERRN.get(ec, "?%d" % ec)
                ret = None
                if ec == 0:
                    if rk == 1:
                        ret = ["handled"]
                    elif rk == 2:
                        ret = ["unhandled"]
                    elif rk == 3:
                        ret = ["bool", bool(next(it))]
                    elif rk == 4:
                        ret = ["coords", next(it), next(it), next(it)]
                    elif rk == 5:
                        ret = ["rows", next(it)]
                    elif rk == 6:
                        ret = ["pref", pref()]
                    elif rk == 7:
                        ret = ["unit"]
                ns = next(it)
                sg = []
                for _ in range(ns):
                    k = next(it)
                    a = lst()
                    c = lst()
                    sg.append([k, a, c, next(it)])
                text = lst()
                pos = next(it)
                pf = None
                if next(it):
                    p = pref()
                    pf = [p, next(it)]
                shiftv = bool(next(it))
                outs.append({"err": err, "ret": ret, "sigs": sg, "text": text, "pos": pos, "pref": pf, "shiftv": shiftv})
        except StopIteration:
            return {"malformed": ints[:40]}
        return {"steps": outs}

    # ------------------------------------------------------------------ oracle
    @staticmethod
    def _alphabet(v):
        """(set of allowed characters, negatives allowed, trims leading zeros) for a numeric variant."""
        if v[0] == "int":
            return set("0123456789"), False, True
        if v[0] == "integer":
            up = ALLOWED[: v[1]]
            return set(up) | set(up.lower()), bool(v[2]), v[1] == 10
        if v[0] == "float":
            return set("0123456789" + chr(v[1])), bool(v[2]), True
        up = sstr(v[1])
        return set(up) | set(c.lower() for c in up if c.isascii()), bool(v[3]), bool(v[2])

    def oracle(self, case, res):
        from urwid import str_util
        msgs = []
        _r, lays, obs = self._trace(case)
        isb = bool(case.get("bytes"))
        enc = case.get("enc", "utf-8")
        v = case["variant"]
        numeric = v[0] != "edit"
        if isb:
            t = list(case["text"].encode(enc))
            cap_len = len(case["caption"].encode(enc))
        else:
            t = cps(case["text"])
            cap_len = len(case["caption"])
        p = len(t) if case["pos"] is None else min(max(case["pos"], 0), len(t))
        rt = case["text"]        # str reference (characters), used in bytes mode too
        prefs = None             # None = "the current cursor column"; else {"cols": [...], "w": width, "cur_ok": bool}
        prev_focus_render_w = None
        alpha = self._alphabet(v) if numeric else None

        def width(c):
            return str_util.get_char_width(chr(c)) if not isb else 1

        def boundary_ok(tb, q):
            if not isb:
                return True
            try:
                bytes(tb[:q]).decode(enc)
                bytes(tb[q:]).decode(enc)
                return True
            except UnicodeDecodeError:
                return False

        for k, (st, so) in enumerate(zip(case["steps"], res["steps"])):
            kind = st[0]
            tag = f"step#{k} {kind} {st[1]!r}" if kind in ("key",) else f"step#{k} {kind}"
            nt, np_ = so["text"], so["pos"]
            ob = obs[k] if k < len(obs) else {}
            lay = lays[k] if k < len(lays) else None
            w = st[-1] if kind != "setpos" else None
            if so["err"] == "Timeout":
                msgs.append(f"{tag}: the implementation did not return within {CASE_TIME_LIMIT:g}s of CPU time (hang)")
                return msgs
            if so["err"] is not None:
                msgs.append(f"{tag}: raised {so['err']}")
                return msgs
            if ob.get("layout_exc"):
                msgs.append(f"{tag}: laying out the displayed text at width {w} raised {ob['layout_exc']}")
                return msgs
            # ---- offset range / character boundary (pos_inv)
            if not (0 <= np_ <= len(nt)):
                msgs.append(f"{tag}: offset {np_} outside 0..{len(nt)}")
                return msgs
            if isb and (enc == "utf-8" or enc in WIDE_ENCS) and not boundary_ok(nt, np_):
                # only judged when the text itself is valid in the encoding
                try:
                    bytes(nt).decode(enc)
                    msgs.append(f"{tag}: offset {np_} is inside a multi-byte character ({enc})")
                    return msgs
                except UnicodeDecodeError:
                    pass
            # ---- signals (each modification: change(new) before, postchange(old) after)
            cur = t
            sg = so["sigs"]
            if len(sg) % 2:
                msgs.append(f"{tag}: odd number of change/postchange signals")
                return msgs
            for i in range(0, len(sg), 2):
                a, b = sg[i], sg[i + 1]
                if a[0] != 1 or b[0] != 2:
                    msgs.append(f"{tag}: signals out of order (expected change then postchange)")
                    return msgs
                if a[2] != cur:
                    msgs.append(f"{tag}: 'change' emitted after the text was already modified")
                    return msgs
                if b[1] != cur:
                    msgs.append(f"{tag}: 'postchange' argument is not the old text")
                    return msgs
                if b[2] != a[1]:
                    msgs.append(f"{tag}: 'postchange' emitted while the text is not the new text announced by 'change'")
                    return msgs
                cur = a[1]
            if cur != nt:
                msgs.append(f"{tag}: text changed without a change/postchange pair announcing it" if not sg else
                            f"{tag}: final text differs from the last text announced by 'change'")
                return msgs
            # ---- reference editor
            disp_before = ob.get("disp")
            q = p + cap_len
            rows = None
            if lay is not None and not isb:
                rows = Rows(lay, disp_before, lambda ch: str_util.get_char_width(ch))
            if kind == "setpos":
                ep = min(max(st[1], 0), len(t))
                if nt != t or np_ != ep:
                    msgs.append(f"{tag}: set_edit_pos({st[1]}) gave offset {np_}, expected {ep}")
                    return msgs
                p, prefs = ep, None
            elif kind in ("render", "prefcol"):
                if nt != t or np_ != p:
                    msgs.append(f"{tag}: {kind} changed the text or the offset")
                    return msgs
                if kind == "render":
                    m = self._judge_render(tag, st, so, ob, rows, q, w, disp_before, isb)
                    if m:
                        msgs.append(m)
                        return msgs
            elif kind == "click":
                handled = so["ret"] == ["bool", True]
                if nt != t:
                    msgs.append(f"{tag}: a click changed the text")
                    return msgs
                if st[1] != 1:
                    if np_ != p or handled:
                        msgs.append(f"{tag}: a click with button {st[1]} moved the cursor or was handled")
                        return msgs
                elif rows is not None:
                    found = rows.find(q)
                    top = rows.find(cap_len)
                    nrows = len(rows.rows)
                    if top is not None and not (top[0] <= st[3] < nrows):
                        if handled or np_ != p:
                            msgs.append(f"{tag}: click on row {st[3]} outside the edit rows {top[0]}..{nrows - 1} was handled/moved the cursor")
                            return msgs
                    elif top is not None and found is not None and prev_focus_render_w == w:
                        # the view as drawn by the previous focused render: the cursor row is shifted so that
                        # the cursor is visible
                        shift = 0
                        if st[3] == found[0]:
                            if found[1] < 0:
                                shift = -found[1]
                            elif found[1] >= w:
                                shift = -(found[1] - w + 1)
                        o = rows.cell_at(st[3], st[2], shift)
                        if o is not None and o >= cap_len and 0 <= st[2] < w:
                            if not handled or np_ != o - cap_len:
                                msgs.append(f"{tag}: click on the cell ({st[2]},{st[3]}) of the character at offset {o - cap_len} put the cursor at {np_} (handled={handled})")
                                return msgs
                p = np_
                if handled:
                    prefs = {"cols": [st[2]], "w": w, "cur_ok": True}
            elif kind == "key":
                name = st[1]
                handled = so["ret"] == ["handled"]
                if so["ret"] not in (["handled"], ["unhandled"]):
                    msgs.append(f"{tag}: keypress returned {so['ret']}")
                    return msgs
                m, p, t, rt, prefs = self._judge_key(tag, case, name, handled, t, p, rt, nt, np_, rows, cap_len, w,
                                                     prefs, numeric, alpha, isb, enc)
                if m:
                    msgs.append(m)
                    return msgs
                if not handled and prefs is not None and prefs != "unknown":
                    prefs = dict(prefs, cur_ok=True)     # an unhandled key may or may not reset the preferred column
            prev_focus_render_w = w if (kind == "render" and st[1]) else None
            t = nt
            # ---- numeric alphabet
            if numeric:
                al, neg, _trim = alpha
                body = sstr(nt)
                if neg and body.startswith("-"):
                    body = body[1:]
                bad = [c for c in body if c not in al]
                if bad and kind == "key":
                    msgs.append(f"{tag}: numeric text {sstr(nt)!r} holds {bad[0]!r} (U+{ord(bad[0]):04X}) outside the allowed alphabet")
                    return msgs
        return msgs

    def _judge_render(self, tag, st, so, ob, rows, q, w, disp, isb):
        from urwid import str_util
        ret = so["ret"]
        canvas = ob.get("canvas")
        nrows = ret[3] if ret[0] == "coords" else ret[1]
        if canvas is not None and len(canvas) != nrows:
            return f"{tag}: canvas.rows() {nrows} != number of content rows {len(canvas)}"
        if "rows_call" in ob and ob["rows_call"] != nrows:
            return f"{tag}: rows() = {ob['rows_call']} but the rendered canvas has {nrows} rows"
        if ob.get("cols") is not None and ob["cols"] != w:
            return f"{tag}: canvas is {ob['cols']} columns wide, expected {w}"
        if not st[1]:
            return None
        x, y = ret[1], ret[2]
        if x is None:
            return f"{tag}: focused render drew no cursor"
        if not (0 <= x < w and 0 <= y < nrows):
            return f"{tag}: cursor ({x},{y}) outside the {w}x{nrows} canvas"
        if rows is None or isb:
            return None
        found = rows.find(q)
        if found is None:
            return None          # not displayable at this width (hidden by ellipsis / empty layout)
        fy, fx, fkind = found
        ex = min(max(fx, 0), w - 1)
        if (x, y) != (ex, fy):
            return f"{tag}: cursor drawn at ({x},{y}); the character at the offset is displayed at ({ex},{fy})"
        if fkind == "char" and q < len(disp):
            ch = disp[q]
            cwid = str_util.get_char_width(ch)
            if cwid > 0 and ch != "\n" and x + cwid <= w and canvas is not None:
                # character drawn at column x of row y
                col, under = 0, None
                for c in canvas[y]:
                    cw_ = str_util.get_char_width(c)
                    if col == x and cw_ > 0:
                        under = c
                        break
                    if col > x:
                        break
                    col += cw_
                if under != ch:
                    return f"{tag}: the cursor cell ({x},{y}) shows {under!r}, the character at the offset is {ch!r}"
        return None

    def _judge_key(self, tag, case, name, handled, t, p, rt, nt, np_, rows, cap_len, w, prefs, numeric, alpha, isb, enc):
        """Returns (message or None, new p, new t, new rt, new prefs)."""
        from urwid import str_util

        def unit(c):      # one character as the text's element type (bytes mode: in the byte encoding)
            if not isb:
                return cps(c)
            # the typed characters in the terminal's byte encoding; what it cannot represent shows as "?"
            return list(c.encode(enc, "replace"))

        def prev_char(tb, q):
            if not isb:
                return q - 1
            s = bytes(tb[:q]).decode(enc, "ignore")
            return q - len(s[-1:].encode(enc)) if s else q - 1

        def next_char(tb, q):
            if not isb:
                return q + 1
            s = bytes(tb[q:]).decode(enc, "ignore")
            return q + len(s[:1].encode(enc)) if s else q + 1

        if isb:
            try:
                bytes(t).decode(enc)
            except UnicodeDecodeError:
                return None, np_, nt, rt, None       # the text is not valid in this encoding: nothing to judge
        ins = None
        used = True
        if name not in NAMED:
            printable = (len(name) == 1 and ord(name) >= 32) or (len(name) >= 1 and str_util.get_char_width(name[0]) == 2)
            if numeric:
                # the property fixes the alphabet, not which allowed characters are accepted where:
                # a handled character key must have been inserted, an unhandled one must change nothing
                if handled:
                    ins = unit(name)
                else:
                    used = False
            elif printable:
                ins = unit(name)
            else:
                used = False
        elif name == "tab":
            if case["allow_tab"]:
                ins = unit(" ") * (8 - p % 8)
            else:
                used = False
        elif name == "enter":
            if case["multiline"]:
                ins = unit("\n")
            else:
                used = False
        if not used:
            if handled or nt != t or np_ != p:
                return (f"{tag}: a key the editor does not use was handled or changed the state "
                        f"(handled={handled}, text {sstr(t)!r}->{sstr(nt)!r}, offset {p}->{np_})"), p, t, rt, prefs
            return None, p, t, rt, prefs
        exp_t, exp_p, exp_h = t, p, True
        if ins is not None:
            exp_t, exp_p = t[:p] + ins + t[p:], p + len(ins)
        elif name == "left":
            if p == 0:
                exp_h = False
            else:
                exp_p = prev_char(t, p)
        elif name == "right":
            if p >= len(t):
                exp_h = False
            else:
                exp_p = next_char(t, p)
        elif name == "backspace":
            if p == 0:
                exp_h = False
            else:
                a = prev_char(t, p)
                exp_t, exp_p = t[:a] + t[p:], a
        elif name == "delete":
            if p >= len(t):
                exp_h = False
            else:
                b = next_char(t, p)
                exp_t = t[:p] + t[b:]
        else:
            k0 = 0
            if numeric and alpha[2] and handled and nt != t:
                # leading zeros are removed while the cursor is behind them (after any handled key)
                k0 = len(t) - len(nt)
                if k0 <= 0 or t[:k0] != [48] * k0 or t[k0:] != nt or (np_ > 0 and nt[:1] == [48]):
                    return f"{tag}: a cursor key changed the text {sstr(t)!r} -> {sstr(nt)!r}", p, t, rt, prefs
            m, p2, _t2, rt2, prefs2 = self._judge_layout_key(tag, name, handled, t, p, rt, t if k0 else nt, np_ + k0, rows,
                                                              cap_len, w, prefs, isb)
            if m:
                return m, p, t, rt, prefs
            return None, (np_ if p2 == np_ + k0 else p2), (nt if p2 == np_ + k0 else t), rt2, (None if k0 else prefs2)
        ok = (nt == exp_t and np_ == exp_p)
        if not ok and numeric and alpha[2] and exp_h:
            # leading zeros are removed while the cursor is behind them
            tt, pp = list(exp_t), exp_p
            while pp > 0 and tt[:1] == [48]:
                tt, pp = tt[1:], pp - 1
            ok = (nt == tt and np_ == pp)
        if not ok or handled != exp_h:
            return (f"{tag}: text/offset ({sstr(nt) if not isb else bytes(nt)!r},{np_}) handled={handled}; the reference editor "
                    f"gives ({sstr(exp_t) if not isb else bytes(exp_t)!r},{exp_p}) handled={exp_h}"), p, t, rt, prefs
        return None, np_, nt, rt, (None if exp_h else prefs)

    def _judge_layout_key(self, tag, name, handled, t, p, rt, nt, np_, rows, cap_len, w, prefs, isb):
        if nt != t:
            return f"{tag}: a cursor key changed the text", p, t, rt, prefs
        if rows is None:
            return None, np_, nt, rt, "unknown"
        q = p + cap_len
        found = rows.find(q)
        top = rows.find(cap_len)
        if found is None or top is None:
            return None, np_, nt, rt, "unknown"      # the offset is not displayed at this width: nothing to judge
        y, x, _kind = found
        curx = min(max(x, 0), w - 1)            # the view is shifted so that the cursor is visible
        nrows = len(rows.rows)

        def row_start(r):
            of = rows.rows[r]["offs"]
            return of[0][1] if of else None

        def row_end(r):
            of = rows.rows[r]["offs"]
            if not of:
                return None
            if of[-1][2] == "hint":
                return of[-1][1]
            cells = rows.rows[r]["cells"]
            # a row that continues on the next one: the cursor goes ON its last character
            last_seg_cells = [c for c in cells]
            return last_seg_cells[-1][2] if last_seg_cells else of[-1][1]

        def clamp(o):
            return min(max(o - cap_len, 0), len(t))

        if name in ("home", "end"):
            tgt = row_start(y) if name == "home" else row_end(y)
            if not handled:
                return f"{tag}: home/end returned unhandled", p, t, rt, prefs
            if tgt is not None and np_ != clamp(tgt):
                return (f"{tag}: cursor went to offset {np_}; the {'start' if name == 'home' else 'end'} of display row {y} "
                        f"is offset {clamp(tgt)}"), p, t, rt, prefs
            return None, np_, nt, rt, {"cols": ["left" if name == "home" else "right"], "w": w, "cur_ok": True}
        ty = y - 1 if name == "up" else y + 1
        if not (top[0] <= ty < nrows):
            if handled or np_ != p:
                return (f"{tag}: no display row {ty} to move to (edit rows {top[0]}..{nrows - 1}) but the key was handled "
                        f"or the offset changed {p}->{np_}"), p, t, rt, prefs
            return None, p, t, rt, prefs
        if not handled:
            return f"{tag}: display row {ty} exists but the key was returned unhandled", p, t, rt, prefs
        # acceptable preferred columns
        if prefs == "unknown":
            return None, np_, nt, rt, "unknown"
        cands = []
        if prefs is not None:
            cands += list(prefs["cols"])
            if prefs["cur_ok"] or prefs["w"] != w:
                cands.append(curx)
        else:
            cands = [curx]
        oks = []
        for c in cands:
            if c == "left":
                exp = row_start(ty)
            elif c == "right":
                exp = row_end(ty)
            else:
                o = rows.cell_at(ty, c)
                if o is not None:
                    exp = o
                else:
                    r = rows.rows[ty]
                    first_x = r["offs"][0][0] if r["offs"] else None
                    if first_x is None:
                        exp = None
                    elif c < first_x:
                        exp = row_start(ty)
                    elif c >= r["width"] or not r["cells"] or c >= max(x1 for (_x0, x1, _o) in r["cells"]):
                        exp = row_end(ty)
                    else:
                        exp = None       # a gap inside the row: the property does not say
            oks.append(None if exp is None else clamp(exp))
        if None not in oks and np_ not in oks:
            return (f"{tag}: moved to offset {np_}; display row {ty} at preferred column {cands} holds offset(s) {oks}"), p, t, rt, prefs
        keep = [c for c, o in zip(cands, oks) if o == np_] or cands
        return None, np_, nt, rt, {"cols": keep, "w": w, "cur_ok": False}

    # ------------------------------------------------------------------ bookkeeping
    def nontrivial(self, case, res):
        if case.get("bytes"):
            return self.nontrivial_bytes(case, res)
        t, p = cps(case["text"]), case["pos"]
        for so in res["steps"]:
            if so["text"] != t or (p is not None and so["pos"] != p) or so["sigs"]:
                return True
            p = so["pos"]
        return False

    def signature(self, case, msg):
        m = re.sub(r"step#\d+ ", "", msg)
        m = re.sub(r"'[^']*'", "S", m)
        return re.sub(r"-?\d+", "N", m)[:90]

    def distribution(self, case, res, dist):
        def inc(k, n=1):
            dist[k] = dist.get(k, 0) + n
        inc("variant:" + case["variant"][0])
        inc("wrap:" + case["wrap"])
        inc("align:" + case["align"])
        if case.get("bytes"):
            inc("bytes:" + case["enc"])
        for st, so in zip(case["steps"], res["steps"]):
            if st[0] == "key":
                nm = st[1] if st[1] in NAMED else ("char" if len(st[1]) == 1 and ord(st[1]) >= 32 else "other-key")
                inc("key:" + nm)
                if so["ret"] == ["unhandled"]:
                    inc("unhandled")
            else:
                inc("event:" + st[0])
            if st[0] != "setpos":
                inc("width:%d" % min(st[-1], 10))
            if so["err"]:
                inc("raised:" + so["err"])
            if so["sigs"]:
                inc("signal-pairs", len(so["sigs"]) // 2)
        # how often the hypothesis of pos_on_char_boundary_inv (the layout cuts the text at character
        # boundaries: lay_bnd) holds on real layouts of utf-8 bytes text: an observation, not a verdict
        if case.get("bytes") and case.get("enc") == "utf-8":
            _r, lays, obs = self._trace(case)
            for st, lay, ob in zip(case["steps"], lays, obs):
                if lay is not None and (st[0] == "click" or (st[0] == "key" and st[1] in LAYOUT_KEYS)):
                    disp = bytes(ob.get("disp", []))
                    ok = True
                    try:
                        disp.decode("utf-8")
                    except UnicodeDecodeError:
                        continue
                    for ln in lay:
                        for seg in ln:
                            offs = []
                            if len(seg) >= 2 and seg[1] is not None:
                                offs.append(seg[1])
                            if len(seg) == 3 and isinstance(seg[2], int):
                                offs.append(seg[2])
                            for o in offs:
                                try:
                                    disp[:o].decode("utf-8")
                                    disp[o:].decode("utf-8")
                                except UnicodeDecodeError:
                                    ok = False
                    inc("hyp:bytes-layout-cuts-at-character-boundaries(lay_bnd)" if ok else "hyp:bytes-layout-NOT-at-character-boundaries")
        # how often the hypotheses of the part-2 theorems (Properties/C10.v) hold on real layouts:
        # observations, not verdicts
        if not case.get("bytes"):
            from urwid import str_util
            _r, lays, obs = self._trace(case)
            p = len(case["text"]) if case["pos"] is None else min(max(case["pos"], 0), len(case["text"]))
            for st, so, lay, ob in zip(case["steps"], res["steps"], lays, obs):
                if lay is not None and (st[0] in ("render", "click") or (st[0] == "key" and st[1] in LAYOUT_KEYS)):
                    disp = ob.get("disp", "")
                    ok = True
                    for ln in lay:
                        for i, seg in enumerate(ln):
                            if len(seg) == 3 and isinstance(seg[2], int):
                                if seg[0] != sum(str_util.get_char_width(c) for c in disp[seg[1]:seg[2]]):
                                    ok = False
                            if (i > 0 or (len(seg) == 2 and seg[1] is not None) or len(seg) == 3) and seg[0] < 0:
                                ok = False
                    inc("hyp:rows-have-the-shape-of-cell_in_row" if ok else "hyp:row-shape-NOT-as-assumed")
                    q = p + len(case["caption"])
                    shown = any((len(seg) == 2 and seg[1] == q) or (len(seg) == 3 and (seg[1] == q or (isinstance(seg[2], int) and seg[1] <= q < seg[2])))
                                for ln in lay for seg in ln)
                    inc("hyp:cursor-offset-shown" if shown else "hyp:cursor-offset-not-shown(ellipsis/empty layout)")
                p = so["pos"]

    # ------------------------------------------------------------------ generators
    CHARS = ["a", "b", " ", WIDE, ACC, COMB, "a", " ", ASTRAL]
    CAPS = ["", "", "c:", WIDE + " ", "ab\n", ACC, "x " + COMB]

    def _steps(self, rng, n, w, chars, clicks=True, wmax=9, names=None):
        steps = []
        names = names or ["left", "right", "up", "down", "home", "end", "backspace", "delete", "enter", "tab"]
        for _ in range(n):
            if rng.random() < 0.07:
                w = rng.randint(1, wmax)
            r = rng.random()
            if r < 0.30:
                steps.append(["key", rng.choice(chars), w])
            elif r < 0.72:
                steps.append(["key", rng.choice(names), w])
            elif r < 0.76:
                steps.append(["key", rng.choice(UNUSED_KEYS + [WIDE + "b", WIDE + WIDE]), w])
            elif r < 0.86:
                steps.append(["render", rng.random() < 0.8, w])
            elif r < 0.94 and clicks:
                steps.append(["render", True, w])
                steps.append(["click", rng.choice([1, 1, 1, 1, 1, 2, 4]), rng.randint(-1, w), rng.randint(-1, 5), w])
            elif r < 0.97:
                steps.append(["prefcol", w])
            else:
                steps.append(["setpos", rng.randint(-2, 12)])
        return steps

    def random_edit_case(self, rng, nsteps):
        n = rng.choice([0, 1, 2, 3, 4, 5, 6, 8, 11])
        text = "".join(rng.choice(self.CHARS + ["\n"]) for _ in range(n))
        w = rng.randint(1, 9)
        return {"variant": ["edit"], "caption": rng.choice(self.CAPS), "text": text,
                "pos": rng.choice([None, None, 0, rng.randint(0, max(n, 1)), rng.randint(-1, n + 2)]),
                "multiline": rng.random() < 0.6, "allow_tab": rng.random() < 0.3,
                "mask": rng.choice([None] * 8 + ["*", WIDE]),
                "wrap": rng.choice(["space", "any", "clip", "ellipsis", "space", "any", "clip"]),
                "align": rng.choice(["left", "center", "right"]),
                "steps": self._steps(rng, nsteps, w, self.CHARS + ["0", "-"])}

    NUMCHARS = list("0123456789") + list("00--..,,aAfFgGzZsSiI") + ["ſ", "ı", "ﬆ", "ß", " ", WIDE, "１"]

    def random_num_case(self, rng, nsteps, exotic=True):
        kind = rng.choice(["int", "integer", "integer", "float", "num"])
        neg = rng.random() < 0.6
        if kind == "int":
            v, alpha = ["int"], "0123456789"
        elif kind == "integer":
            base = rng.choice([2, 8, 10, 10, 10, 16, 19, 29, 30, 36])
            v, alpha = ["integer", base, int(neg)], ALLOWED[:base]
        elif kind == "float":
            sep = rng.choice(".,")
            v, alpha = ["float", ord(sep), int(neg)], "0123456789"
        else:
            alpha = rng.choice(["01", "0123456789", "0123456789ABCDEF", "STU012"])
            v = ["num", cps(alpha), int(rng.random() < 0.7), int(neg)]
        n = rng.choice([0, 0, 1, 2, 3, 5])
        if kind in ("int", "float") or (kind == "integer" and v[1] == 10):
            text = "".join(rng.choice("0123456789") for _ in range(n)).lstrip("0") if kind != "int" else \
                "".join(rng.choice("0123456789") for _ in range(n))
            if kind == "float" and text and rng.random() < 0.4 and v[1] == ord("."):
                text += "." + "".join(rng.choice("0123456789") for _ in range(rng.randint(1, 2)))
            if kind == "integer" and neg and text and rng.random() < 0.3:
                text = "-" + text
        else:
            text = "".join(rng.choice(alpha) for _ in range(n))
            if kind == "integer":
                text = "".join(rng.choice([c, c.lower()]) for c in text)
        w = rng.randint(1, 9)
        chars = [c for c in self.NUMCHARS if exotic or ord(c) < 128]
        chars = chars + list(alpha.lower()) + list(alpha) + ["0", "0", "-", "-"]
        return {"variant": v, "caption": rng.choice(["", "n:", WIDE]), "text": text, "pos": rng.choice([None, None, 0, 1]),
                "multiline": False, "allow_tab": False, "mask": None,
                "wrap": rng.choice(["space", "any", "clip"]), "align": rng.choice(["left", "right", "center"]),
                "steps": self._steps(rng, nsteps, w, chars, clicks=rng.random() < 0.3)}

    def exhaustive_cases(self, widths, wraps, aligns, maxlen):
        alpha = ["a", " ", WIDE, "\n"]
        for n in range(0, maxlen + 1):
            for tup in itertools.product(alpha, repeat=n):
                text = "".join(tup)
                for w in widths:
                    for wrap in wraps:
                        for align in aligns:
                            for cap in ("", "c"):
                                steps = []
                                for p in range(0, n + 1):
                                    for kname in ("up", "down", "home", "end", "left", "right"):
                                        steps.append(["setpos", p])
                                        steps.append(["key", kname, w])
                                    steps.append(["setpos", p])
                                    steps.append(["render", True, w])
                                yield {"variant": ["edit"], "caption": cap, "text": text, "pos": None, "multiline": True,
                                       "allow_tab": False, "mask": None, "wrap": wrap, "align": align, "steps": steps}
                                for p in range(0, n + 1):
                                    for kname in ("backspace", "delete", "a", WIDE, "enter"):
                                        yield {"variant": ["edit"], "caption": cap, "text": text, "pos": p, "multiline": True,
                                               "allow_tab": False, "mask": None, "wrap": wrap, "align": align,
                                               "steps": [["key", kname, w], ["render", True, w]]}
                                # clicks on every cell after a focused render, cursor at each offset
                                steps = []
                                for p in range(0, n + 1):
                                    for row in range(0, min(n + 1, 4)):
                                        for col in range(0, w):
                                            steps += [["setpos", p], ["render", True, w], ["click", 1, col, row, w]]
                                yield {"variant": ["edit"], "caption": cap, "text": text, "pos": None, "multiline": True,
                                       "allow_tab": False, "mask": None, "wrap": wrap, "align": align, "steps": steps}

    def cases(self, rng, tier):
        quick = tier == "quick"
        if quick:
            yield from self.exhaustive_cases([1, 2, 3], ["any", "space", "clip"], ["left", "right"], 2)
            yield from self.exhaustive_cases([2, 3], ["space", "clip"], ["center"], 3)
        else:
            yield from self.exhaustive_cases([1, 2, 3, 4], ["any", "space", "clip", "ellipsis"], ["left", "center", "right"], 3)
        for _ in range(3500 if quick else 30000):
            yield self.random_edit_case(rng, rng.choice([4, 8, 12, 20]))
        for _ in range(1500 if quick else 10000):
            yield self.random_num_case(rng, rng.choice([4, 8, 14]))
        # bytes mode: model (Model/EditBytes.v, mode utf8 / wide / narrow) + oracle
        yield from self.exhaustive_bytes_cases(3 if quick else 4)
        for _ in range(400 if quick else 4000):
            yield self.bytes_case(rng, "utf-8")
        yield from self.exhaustive_wide_cases(2 if quick else 3)
        n = 450 if quick else 3600
        for enc in WIDE_ENCS + ["latin-1"]:
            for _ in range(n // 6):
                yield self.bytes_case(rng, enc)

    def search_cases(self, rng, tier):
        while True:
            yield self.random_edit_case(rng, rng.choice([2, 4, 6, 10]))
            yield self.random_num_case(rng, rng.choice([2, 4, 8]))

    def shrink_candidates(self, case):
        st = case["steps"]
        for i in range(len(st) - 1, -1, -1):
            c = dict(case)
            c["steps"] = st[:i] + st[i + 1:]
            yield c
        if len(st) > 1:
            c = dict(case)
            c["steps"] = st[: len(st) // 2]
            yield c
        if case["text"]:
            for i in range(len(case["text"])):
                c = dict(case)
                c["text"] = case["text"][:i] + case["text"][i + 1:]
                yield c
        if case["caption"]:
            c = dict(case)
            c["caption"] = ""
            yield c
        if case.get("mask") is not None:
            c = dict(case)
            c["mask"] = None
            yield c
        if case["pos"] is not None:
            c = dict(case)
            c["pos"] = None
            yield c

    # ------------------------------------------------------------------ not case-shaped work
    def bytes_case(self, rng, enc):
        if enc == "utf-8":
            chars = ["a", "b", " ", WIDE, ACC, COMB, ASTRAL, ASTRAL2, ASTRAL]      # 1, 2, 3 and 4 byte characters
            keych = ["a", " ", WIDE, ACC, ASTRAL, "\ud800"]       # a lone surrogate cannot be encoded: b"?"
        elif enc in WIDE_ENCS:
            # ASCII whose byte values lie in the low trail-byte range, and two-byte characters at every
            # boundary of the encoding's lead/trail ranges
            chars = ["a", " ", "@", "~", "\\", "A"] + wide_alphabet(enc) * 2
            # the last two: mostly b"?"; urwid's double-byte mode knows one- and two-byte characters only
            # (util.set_encoding: "euc-jp  # JISX 0208 only"): no three-byte EUC characters
            keych = [k for k in ["a", " ", "@", "~", "a", " "] + wide_alphabet(enc)[:2] + [ASTRAL, ACC]
                     if len(k.encode(enc, "replace")) <= 2]
        else:
            chars = ["a", " ", ACC, "b"]
            keych = ["a", " ", "b", ACC, WIDE, "\u20ac"]            # the last two are not latin-1: b"?"
        n = rng.choice([0, 1, 2, 3, 5, 8])
        text = "".join(rng.choice(chars + ["\n"]) for _ in range(n))
        w = rng.randint(1, 9)
        # start on a character boundary
        k = rng.randint(0, n)
        pos = rng.choice([None, len(text[:k].encode(enc))])
        return {"variant": ["edit"], "bytes": True, "enc": enc, "caption": rng.choice(["", "c:", WIDE if enc != "latin-1" else ACC]),
                "text": text, "pos": pos, "multiline": rng.random() < 0.6, "allow_tab": rng.random() < 0.2, "mask": None,
                "wrap": rng.choice(["space", "any", "clip"]), "align": rng.choice(["left", "center", "right"]),
                "steps": [s for s in self._steps(rng, rng.choice([4, 8, 14]), w, keych, clicks=True,
                                                 names=["left", "right", "backspace", "delete"] * 3 +
                                                       ["up", "down", "home", "end", "enter", "tab"])
                          if s[0] != "setpos" and (enc == "utf-8" or s[0] != "key" or s[1].isascii()
                                                   or (len(s[1]) == 1 and s[1] in keych))]}

    def exhaustive_bytes_cases(self, maxlen):
        """utf-8 bytes mode: every text of characters of 1, 2, 3 and 4 bytes up to maxlen, the cursor on every
        character boundary, every one-character movement / deletion key (twice in a row), then a focused render."""
        alpha = ["a", ACC, WIDE, ASTRAL]
        for n in range(0, maxlen + 1):
            for tup in itertools.product(alpha, repeat=n):
                text = "".join(tup)
                for cap in ("", ASTRAL):
                    for k in range(0, n + 1):
                        pos = len(text[:k].encode("utf-8"))
                        for kname in ("left", "right", "backspace", "delete"):
                            yield {"variant": ["edit"], "bytes": True, "enc": "utf-8", "caption": cap, "text": text, "pos": pos,
                                   "multiline": True, "allow_tab": False, "mask": None, "wrap": "any", "align": "left",
                                   "steps": [["key", kname, 6], ["key", kname, 6], ["render", True, 6]]}

    def exhaustive_wide_cases(self, maxlen):
        """bytes mode under every double-byte encoding: every text up to maxlen over ASCII '~' '@' 'a' and the
        boundary characters of the encoding, the cursor on every character boundary, every one-character
        movement / deletion key twice, then a focused render and a click on every column."""
        for enc in WIDE_ENCS:
            alpha = ["a", "~", "@"] + wide_alphabet(enc)
            for n in range(0, maxlen + 1):
                for tup in itertools.product(alpha, repeat=n):
                    text = "".join(tup)
                    ncols = len(text.encode(enc))
                    base = {"variant": ["edit"], "bytes": True, "enc": enc, "caption": "", "text": text, "multiline": True,
                            "allow_tab": False, "mask": None, "wrap": "clip", "align": "left"}
                    for k in range(0, n + 1):
                        pos = len(text[:k].encode(enc))
                        for kname in ("left", "right", "backspace", "delete"):
                            yield dict(base, pos=pos, steps=[["key", kname, 12], ["key", kname, 12], ["render", True, 12]])
                    if n:
                        steps = []
                        for col in range(0, ncols + 1):
                            steps += [["render", True, 12], ["click", 1, col, 0, 12]]
                        yield dict(base, pos=None, steps=steps)

    def extra_checks(self, tier, rng, ev):
        out = []
        # 2. the hypothesis of numeric_alphabet_inv_NumEdit (lower_honest) for the real str.upper / str.lower,
        #    over ALL code points, for every alphabet the generators use
        maximal = [ALLOWED, "0123456789.", "0123456789,", "STU012"]
        cands = []
        for cp in range(0x110000):
            if 0xD800 <= cp <= 0xDFFF:
                continue
            c = chr(cp)
            up = c.upper()
            if up != c and up.lower() == c and any(up in m for m in maximal):
                cands.append(c)
        alphabets = [ALLOWED[:b] for b in range(2, 37)] + ["0123456789.", "0123456789,", "01", "0123456789ABCDEF", "STU012"]
        nbad = 0
        for al in alphabets:
            for c in cands:
                if c.upper() in al:
                    au = chr(ord(c) - 32) if "a" <= c <= "z" else c
                    if not (c in al or au in al):
                        nbad += 1
                        case = {"variant": ["num", cps(al), 0, 0], "caption": "", "text": "", "pos": None, "multiline": False,
                                "allow_tab": False, "mask": None, "wrap": "space", "align": "left", "steps": [["key", c, 9]]}
                        res = self.run_impl(case)
                        ms = self.oracle(case, res) or [f"lower_honest is false for str.upper/str.lower: U+{ord(c):04X} with allowed {al!r}"]
                        out.extend((case, m) for m in ms)
        ev["dist"]["hyp:lower_honest-alphabets-checked-over-all-code-points"] = len(alphabets)
        ev["dist"]["hyp:lower_honest-candidate-characters"] = len(cands)
        ev["dist"]["hyp:lower_honest-violations"] = nbad
        # 3. model assumption: no method assigns a non-None value to self.highlight
        bad = []
        for rel in ("urwid/widget/edit.py", "urwid/numedit.py"):
            tree = ast.parse(open(os.path.join(core.REPO, rel)).read())
            for node in ast.walk(tree):
                if isinstance(node, (ast.Assign, ast.AnnAssign)):
                    tg = node.targets if isinstance(node, ast.Assign) else [node.target]
                    for t_ in tg:
                        if isinstance(t_, ast.Attribute) and t_.attr == "highlight" and node.value is not None \
                                and not (isinstance(node.value, ast.Constant) and node.value.value is None):
                            bad.append(f"{rel}:{node.lineno}")
        ev["dist"]["assumption:highlight_only_assigned_None"] = 0 if bad else 1
        if bad:
            out.append(({"scan": "highlight"}, "model assumption broken: self.highlight is assigned a non-None value at " + ", ".join(bad)))
        return out

    def nontrivial_bytes(self, case, res):
        t = list(case["text"].encode(case["enc"]))
        return any(so["text"] != t for so in res["steps"]) or len({so["pos"] for so in res["steps"]}) > 1


CHECK = C10
