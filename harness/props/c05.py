"""C05 - terminal input decodes to the same events however it is fragmented.

Cases:
  {"kind": "pk", "enc", "more", "codes"}                      escape.process_keyqueue(codes, more)
  {"kind": "screen", "enc", "via": "hook"|"getinput", "ops"}  a raw_display Screen reading from an os.pipe
       ops = [["f", [bytes]] | ["t"]]: bytes become readable and the event-loop wrapper runs / the
       completion alarm fires.  via=hook drives Screen.hook_event_loop with a fake event loop,
       via=getinput calls Screen.get_input(raw_keys=True) after every feed (no alarms there).
  optional "segs": [[bytes, expected-event | "*" | None], ...] - what the generator knows about
       the stream, from the documentation (docs/manual/userinput.rst, xterm ctlseqs), not from the code.
"""
import io
import os
import re
import sys
import warnings

from harness import core

warnings.simplefilter("ignore")

ENC = {"utf8": ("utf-8", 0), "wide": ("euc-jp", 1), "narrow": ("ascii", 2)}
ERRN = {1: "IndexError", 2: "ValueError", 3: "TypeError", 9: "ModelOutOfFuel", 10: "AttributeError"}
ESC = 27


def canon_ev(ev):
    if isinstance(ev, str):
        return ["k", ev]
    if isinstance(ev, tuple) and len(ev) == 4:
        return ["m", ev[0], ev[1], ev[2], ev[3]]
    if isinstance(ev, tuple) and len(ev) == 3 and ev[0] == "cursor position":
        return ["c", ev[1], ev[2]]
    if ev is None:
        return ["n"]
    return ["?", repr(ev)]


class FakeLoop:
    """The part of the EventLoop interface parse_input / hook_event_loop use."""

    def __init__(self):
        self.alarms = {}
        self.watch = {}
        self.n = 0
        self.delays = []

    def alarm(self, seconds, callback):
        self.n += 1
        self.alarms[self.n] = callback
        self.delays.append(seconds)
        return self.n

    def remove_alarm(self, handle):
        return self.alarms.pop(handle, None) is not None

    def watch_file(self, fd, callback):
        self.n += 1
        self.watch[self.n] = (fd, callback)
        return self.n

    def remove_watch_file(self, handle):
        return self.watch.pop(handle, None) is not None


def set_enc(enc):
    import urwid
    from urwid import str_util
    urwid.set_encoding(ENC[enc][0])
    if str_util.get_byte_encoding() != enc:
        raise core.MachineryError(f"set_encoding({ENC[enc][0]}) gave {str_util.get_byte_encoding()}")


def run_pk(enc, codes, more):
    import urwid
    from urwid.display import escape
    set_enc(enc)
    try:
        try:
            keys, rest = escape.process_keyqueue(list(codes), bool(more))
        except escape.MoreInputRequired:
            return {"more": True}
        except Exception as e:  # noqa: BLE001
            return {"exc": type(e).__name__}
        return {"ok": [canon_ev(k) for k in keys], "rest": [int(c) for c in rest]}
    finally:
        urwid.set_encoding("utf-8")


def run_screen(enc, via, ops):
    """Drive a real raw_display.Screen whose input is a pipe (never a tty)."""
    import urwid
    from urwid.display import raw
    set_enc(enc)
    r, w = os.pipe()
    rf = os.fdopen(r, "rb", buffering=0)
    calls = []
    exc = None
    try:
        scr = raw.Screen(input=rf, output=io.StringIO())
        scr._started = True          # start() would need a tty (termios); nothing else is needed to read
        scr.set_input_timeouts(max_wait=0)
        loop = FakeLoop()
        wrapper = None
        if via == "hook":
            scr.hook_event_loop(loop, lambda keys, rawc: calls.append([[canon_ev(k) for k in keys], [int(c) for c in rawc]]))
            ws = [cb for fd, cb in loop.watch.values() if fd == r]
            if len(ws) != 1:
                raise core.MachineryError("hook_event_loop did not watch the input descriptor")
            wrapper = ws[0]
        try:
            for op in ops:
                if op[0] == "f":
                    if op[1]:
                        os.write(w, bytes(op[1]))
                    if via == "hook":
                        wrapper()
                    else:
                        keys, rawc = scr.get_input(raw_keys=True)
                        calls.append([[canon_ev(k) for k in keys], [int(c) for c in rawc]])
                elif via == "hook":
                    if loop.alarms:
                        h = sorted(loop.alarms)[0]
                        cb = loop.alarms.pop(h)
                        cb()
        except Exception as e:  # noqa: BLE001
            exc = type(e).__name__
        res = {"calls": calls, "partial": [int(c) for c in scr._partial_codes] if exc is None else [],
               "alarm": bool(loop.alarms) if (via == "hook" and exc is None) else None, "exc": exc}
        if via == "hook" and any(d != scr.complete_wait for d in loop.delays):
            res["odd_delay"] = True
        return res
    finally:
        urwid.set_encoding("utf-8")
        rf.close()
        os.close(w)


# ---------------------------------------------------------------- documented expectations
def mods_prefix(bits):
    return ("shift " if bits & 1 else "") + ("meta " if bits & 2 else "") + ("ctrl " if bits & 4 else "")


# a reference for the well-known sequences (xterm ctlseqs "PC-Style Function Keys", vt220, linux console)
REF_KEYS = {}
for _l, _k in zip("ABCDFH", ("up", "down", "right", "left", "end", "home")):
    REF_KEYS[b"\x1b[" + _l.encode()] = _k
    REF_KEYS[b"\x1bO" + _l.encode()] = _k
    for _m in range(2, 9):
        REF_KEYS[b"\x1b[1;%d" % _m + _l.encode()] = mods_prefix(_m - 1) + _k
for _n, _k in ((1, "home"), (2, "insert"), (3, "delete"), (4, "end"), (5, "page up"), (6, "page down"),
               (11, "f1"), (12, "f2"), (13, "f3"), (14, "f4"), (15, "f5"), (17, "f6"), (18, "f7"), (19, "f8"),
               (20, "f9"), (21, "f10"), (23, "f11"), (24, "f12")):
    REF_KEYS[b"\x1b[%d~" % _n] = _k
    if _n in (3, 5, 6) or _n >= 11:
        for _m in range(2, 9):
            REF_KEYS[b"\x1b[%d;%d~" % (_n, _m)] = mods_prefix(_m - 1) + _k
for _l, _k in zip("PQRS", ("f1", "f2", "f3", "f4")):
    REF_KEYS[b"\x1bO" + _l.encode()] = _k
    for _m in range(2, 9):
        REF_KEYS[b"\x1b[1;%d" % _m + _l.encode()] = mods_prefix(_m - 1) + _k
REF_KEYS[b"\x1b[Z"] = "shift tab"
REF_KEYS[b"\x1b[200~"] = "begin paste"
REF_KEYS[b"\x1b[201~"] = "end paste"
REF_KEYS[b"\x1b[I"] = "focus in"
REF_KEYS[b"\x1b[O"] = "focus out"


def x10_expected(cb, cx, cy):
    """('mouse <action>', button, x, y) for ESC [ M cb cx cy, documented range only, else '*'."""
    b = cb - 32
    if not (0 <= b < 128) or cx < 33 or cy < 33:
        return "*"
    if b & 3 == 3 and (b & 96):
        return "*"
    pre = ("shift " if b & 4 else "") + ("meta " if b & 8 else "") + ("ctrl " if b & 16 else "")
    if b & 3 == 3:
        return ["m", pre + "mouse release", 0, cx - 33, cy - 33]
    button = (b & 3) + 1 + (3 if b & 64 else 0)
    return ["m", pre + "mouse " + ("drag" if b & 32 else "press"), button, cx - 33, cy - 33]


def sgr_expected(b, x, y, final):
    if not (0 <= b < 128) or b & 3 == 3:
        return "*"
    pre = ("shift " if b & 4 else "") + ("meta " if b & 8 else "") + ("ctrl " if b & 16 else "")
    button = (b & 3) + 1 + (3 if b & 64 else 0)
    if final == "m":
        act = "release"
    else:
        act = "drag" if b & 32 else "press"
    return ["m", pre + "mouse " + act, button, x - 1, y - 1]


def seg_key(seq, name):
    return [list(seq), ["k", name]]


WIDE_CODECS = ("gbk", "cp949", "big5", "euc_kr", "gb2312", "euc_jp")   # codecs of the encodings urwid calls "wide"


def wide_pair_char(a, b):
    """True when the two bytes are ONE character in some double-byte encoding urwid supports
    (independent reference: Python's codecs)."""
    for c in WIDE_CODECS:
        try:
            if len(bytes([a, b]).decode(c)) == 1:
                return True
        except UnicodeDecodeError:
            pass
    return False


def utf8_valid(bs):
    try:
        s = bytes(bs).decode("utf-8")
    except UnicodeDecodeError:
        return None
    return s if len(s) == 1 else None


class SegPool:
    """Builds stream segments with what the documentation says they must decode to."""

    def __init__(self, table):
        self.table = table      # [(bytes after ESC, name)] from the py2v evaluation of escape.py
        self.keys = [(b"\x1b" + s.encode("latin-1"), n) for s, n in table if n not in ("mouse", "sgrmouse")]

    def table_seg(self, i):
        seq, name = self.keys[i % len(self.keys)]
        exp = REF_KEYS.get(seq)
        return [list(seq), ["k", exp] if exp is not None else "*1"]

    def rand_seg(self, rng, enc):
        k = rng.randrange(14)
        if k == 0:
            return self.table_seg(rng.randrange(len(self.keys)))
        if k == 1:
            cb, cx, cy = rng.choice([32, 33, 34, 35, 36, 40, 48, 64, 67, 96, 97, rng.randrange(32, 160)]), rng.randrange(33, 256), rng.randrange(33, 256)
            return [[27, 91, 77, cb, cx, cy], x10_expected(cb, cx, cy)]
        if k == 2:
            b, x, y = rng.choice([0, 1, 2, 4, 8, 16, 32, 34, 64, 65, rng.randrange(128)]), rng.choice([1, 2, 9, 10, 80, 223, 1000]), rng.choice([1, 2, 24, 100])
            f = rng.choice("Mm")
            return [list(b"\x1b[<%d;%d;%d" % (b, x, y) + f.encode()), sgr_expected(b, x, y, f)]
        if k == 3:
            y, x = rng.choice([1, 2, 9, 10, 24, 100, 999]), rng.choice([1, 2, 8, 9, 10, 80, 132, 1000])
            if y == 1 and x <= 8:
                y = 2       # ESC[1;nR is also "modified F3": the table wins; not judged
            return [list(b"\x1b[%d;%dR" % (y, x)), ["c", x - 1, y - 1]]
        if k == 4:
            c = rng.randrange(32, 127)
            return [[c], ["k", chr(c)]]
        if k == 5:
            c = rng.choice([9, 10, 13, 8, 127, 1, 2, 26, 11])
            name = {9: "tab", 10: "enter", 13: "enter", 8: "backspace", 127: "backspace"}.get(c) or "ctrl " + chr(96 + c)
            return [[c], ["k", name]]
        if k == 6:
            c = rng.choice([x for x in range(33, 127) if chr(x) not in "[O"])
            return [[27, c], ["k", "meta " + chr(c)]]
        if k == 7 and enc == "utf8":
            cp = rng.choice([0x80, 0xE9, 0x7FF, 0x800, 0x4E16, 0xD7FF, 0xE000, 0xFFFD, 0xFFFF, 0x10000, 0x1F600, 0x10FFFF,
                             rng.randrange(0x80, 0x800), rng.randrange(0xE000, 0x10000), rng.randrange(0x10000, 0x110000)])
            return [list(chr(cp).encode("utf-8")), ["k", chr(cp)]]
        if k == 7 and enc == "wide":
            a, b = rng.randrange(0xA1, 0xFF), rng.randrange(0xA1, 0xFF)
            return [[a, b], ["k", chr(a) + chr(b)]]
        if k == 7:
            a = rng.randrange(0xA0, 0x100)
            return [[a], ["k", chr(a)]]
        if k == 8:
            # garbage: bytes that can start nothing in this encoding -> one event each
            if enc == "utf8":
                g = rng.choice(list(range(0x80, 0xC0)) + list(range(0xF8, 0x100)) + [0, 28, 29, 30, 31])
            elif enc == "wide":
                g = rng.choice([0, 28, 29, 30, 31])
            else:
                g = rng.choice(list(range(0x80, 0x100)) + [0, 28, 31])
            return [[g], "*1"]
        if k == 9 and enc == "utf8":
            # a lead byte followed by something that is not a continuation byte
            lead = rng.choice([0xC3, 0xE4, 0xF0, 0xDF, 0xEF, 0xF4])
            c = rng.randrange(32, 127)
            return [[lead, c], "*1+", ["k", chr(c)]]
        if k == 10:
            # malformed SGR report: passed through (not judged beyond conservation)
            body = rng.choice([b"", b"1", b"1;2", b"1;2;3;4", b"a;b;c", b";;", b"1;;3", b"1;2;x", b" 1;2;3", b"1;2;3 ", b"+1;2;3",
                               b"-1;2;3", b"1_0;2;3", b"1__0;2;3", b"_1;2;3", b"1;2;3_", b"0x1;2;3", b"1;2;\xb2", b"\xa01;2;3",
                               b"\x1c1;2;3", b"1.0;2;3", b"1;2;3;", b"1e3;2;3"])
            return [list(b"\x1b[<" + body + rng.choice([b"M", b"m"])), None]
        if k == 11:
            body = rng.choice([b"0;5R", b"5;0R", b"05;5R", b"5;05R", b";5R", b"5;R", b"5;5;R", b"5R", b"5;5r", b"1;1R", b"1;8R", b"1;9R"])
            return [list(b"\x1b[" + body), None]
        if k == 12:
            return [[rng.randrange(256) for _ in range(rng.randrange(1, 5))], None]
        return [[27, 27] + rng.choice([[91, 65], [79, 80], [97], [91, 77, 32, 40, 40]]), None]


def flatten_expect(segs):
    """Expected event patterns, or None when some segment is not judged."""
    out = []
    for s in segs:
        exps = s[1:]
        for e in exps:
            if e is None:
                return None
            out.append(e)
    return out


def match_expect(pats, events):
    """pats: event | '*' (exactly one event of any kind) | '*1' (exactly one str event) | '*1+' (same)."""
    if len(pats) != len(events):
        return f"expected {len(pats)} events, got {len(events)}"
    for i, (p, e) in enumerate(zip(pats, events)):
        if p == "*":
            continue
        if p in ("*1", "*1+"):
            if e[0] != "k":
                return f"event #{i}: expected a single key-name event, got {e}"
            continue
        if p != e:
            return f"event #{i}: expected {p}, got {e}"
    return None


class C05(core.Check):
    pid = "C05"
    gen_modules = ["escape_table", "str_loops"]
    model_targets = ["theories/Model/KeyInput.vo"]
    prop_file = "theories/Properties/C05.v"
    extract_v = "Extract/C05X.v"
    allowed_axioms = set()
    design_ref = "DESIGN.md section 5, C05"
    technique = ("Coq theorems (structural induction over byte streams and read schedules) about an executable model of "
                 "process_keyqueue / KeyqueueTrie / Screen.parse_input whose sequence table, _keyconv and mouse constants are "
                 "re-evaluated from escape.py on every run; trie-level facts by vm_compute over the whole generated table; "
                 "extracted-model correspondence through process_keyqueue, Screen.hook_event_loop (fake event loop, pipe input) "
                 "and Screen.get_input; documentation-based oracle")
    level_text = ""     # filled below
    level_note = ""
    rule = ("cases = (encoding, codes, more) for process_keyqueue and (encoding, Feed/Timeout schedule) for a Screen reading "
            "from a pipe; every table entry x more x 3 encodings, every table entry x every cut x timeout-or-not, all X10 "
            "button/coordinate bytes, SGR parameters incl. malformed, CPR, UTF-8 boundary/invalid/truncated, all double-byte "
            "lead bytes, garbage, random segment streams x random cuts x random timeouts; non-trivial = at least one byte "
            "decoded; distinct by hash of (case, outcome)")
    trusted_base = [
        "Coq 8.16.1 kernel (coqc; vm_compute for facts about the finite generated table and closed examples)",
        "tools/py2v/mods/escape_table.py: import-free ast evaluation of input_sequences/_keyconv/MOUSE_* (checked against the imported module by extra_checks every run)",
        "extraction: ExtrOcamlBasic only; Z/positive/string stay Coq datatypes; OCaml 4.13.1; tools/driver/driver.ml",
        "tools/py2v/mods/str_loops.py (C11's translator module): within_double_byte is the py2v translation of str_util.within_double_byte, regenerated every run",
        "hand-written Model/KeyInput.v (process_keyqueue, trie add/get, mouse/CPR readers, int() parsing, UTF-8 validity table, parse_input state machine): validated by this correspondence, not proved against CPython",
        "Python oracle and fake event loop in harness/props/c05.py",
    ]
    assumptions = [
        "codes are bytes 0..255 (what a terminal file descriptor delivers); curses key codes > 255 and -1 are modelled but not in the theorems' byte hypothesis",
        "POSIX (the `if IS_WINDOWS:` additions to _keyconv are skipped); gpm mouse (mev subprocess) and SIGWINCH 'window resize' are out of scope",
        "sys.get_int_max_str_digits() is the default 4300",
        "the event loop calls the watch callback / the alarm as hook_event_loop registered them; the alarm fires at most once",
    ]

    def __init__(self):
        super().__init__()
        self._whole = {}
        self._table = None

    # ---------- implementation ----------
    def run_impl(self, case):
        if case["kind"] == "pk":
            return run_pk(case["enc"], case["codes"], case["more"])
        return run_screen(case["enc"], case["via"], case["ops"])

    # ---------- model wire format ----------
    def encode(self, case):
        em = ENC[case["enc"]][1]
        if case["kind"] == "pk":
            return [1, em, 1 if case["more"] else 0] + list(case["codes"])
        l = [2, em]
        for op in case["ops"]:
            if op[0] == "f":
                l += [1, len(op[1])] + list(op[1])
            elif case["via"] == "hook":
                l.append(0)
        return l

    @staticmethod
    def _dec_events(it):
        n = next(it)
        evs = []
        for _ in range(n):
            t = next(it)
            if t == 0:
                k = next(it)
                evs.append(["k", "".join(chr(next(it)) for _ in range(k))])
            elif t == 1:
                k = next(it)
                name = "".join(chr(next(it)) for _ in range(k))
                evs.append(["m", name, next(it), next(it), next(it)])
            elif t == 2:
                evs.append(["c", next(it), next(it)])
            elif t == 3:
                evs.append(["n"])
            else:
                raise StopIteration
        return evs

    def decode(self, case, ints):
        it = iter(ints)
        try:
            if case["kind"] == "pk":
                st = next(it)
                if st == 1:
                    return {"more": True}
                if st == 2:
                    return {"exc": ERRN.get(next(it), "?")}
                if st != 0:
                    return {"malformed": ints[:40]}
                evs = self._dec_events(it)
                return {"ok": evs, "rest": list(it)}
            st = next(it)
            ncalls = next(it)
            calls = []
            for _ in range(ncalls):
                evs = self._dec_events(it)
                n = next(it)
                calls.append([evs, [next(it) for _ in range(n)]])
            n = next(it)
            partial = [next(it) for _ in range(n)]
            exc = None if st == 0 else ERRN.get(st, "?")
            return {"calls": calls, "partial": partial if exc is None else [],
                    "alarm": (bool(partial) if exc is None else None) if case["via"] == "hook" else None, "exc": exc}
        except (StopIteration, ValueError, OverflowError):
            return {"malformed": ints[:40]}

    # ---------- oracle (from the property text) ----------
    @staticmethod
    def stream_of(case):
        if case["kind"] == "pk":
            return list(case["codes"])
        return [b for op in case["ops"] if op[0] == "f" for b in op[1]]

    def exc_msg(self, case, name):
        return f"decoding raised {name}"

    def whole_run(self, enc, via, stream, final_timeout):
        key = (enc, via, bytes(stream), final_timeout)
        if key not in self._whole:
            if len(self._whole) > 20000:
                self._whole.clear()
            ops = [["f", list(stream)]] + ([["t"]] if final_timeout else [])
            self._whole[key] = run_screen(enc, via, ops)
        return self._whole[key]

    def oracle(self, case, res):
        msgs = []
        if res.get("exc"):
            return [self.exc_msg(case, res["exc"])]
        stream = self.stream_of(case)
        if case["kind"] == "pk":
            if res.get("more"):
                if not case["more"]:
                    msgs.append("MoreInputRequired raised although more_available is False")
                return msgs
            rest = res["rest"]
            if not res["ok"]:
                msgs.append("no event reported for a non-empty input")
            if not (len(rest) < len(stream) and stream[len(stream) - len(rest):] == rest):
                msgs.append("remaining codes are not a proper suffix of the input (not consumed left to right / no progress)")
            if case.get("whole") is not None and not msgs:
                # the whole input is one ESC+key form with documented names: everything consumed, exactly these events
                if rest:
                    msgs.append(f"documented decoding: {len(rest)} codes left over after an ESC + complete key sequence")
                else:
                    m = match_expect(case["whole"], res["ok"])
                    if m:
                        msgs.append("documented decoding (ESC followed by a key sequence whose name already carries "
                                    "a meta modifier stays a separate 'esc'): " + m)
                return msgs
            segs = case.get("segs")
            if segs and not msgs and len(segs[0]) == 2 and segs[0][1] is not None:
                # the first documented sequence is reported exactly once and nothing after it is touched
                first = segs[0]
                consumed = len(stream) - len(rest)
                if consumed != len(first[0]):
                    msgs.append(f"documented decoding: consumed {consumed} codes for a {len(first[0])}-byte sequence")
                else:
                    m = match_expect([first[1]], res["ok"])
                    if m:
                        msgs.append("documented decoding: " + m)
            return msgs
        # ---- screen ----
        calls = res["calls"]
        raws = [b for c in calls for b in c[1]]
        events = [e for c in calls for e in c[0]]
        if raws + res["partial"] != stream:
            msgs.append("raw codes handed to the callback plus the pending codes differ from the bytes read (lost, duplicated or reordered input)")
            return msgs
        if case["via"] == "hook" and res["alarm"] is False and res["partial"]:
            msgs.append("bytes are pending but no completion alarm is scheduled (they would never be decoded)")
        ops = case["ops"]
        tpos = [i for i, op in enumerate(ops) if op[0] == "t"]
        mid_timeouts = [i for i in tpos if i != len(ops) - 1]
        final_t = bool(tpos) and tpos[-1] == len(ops) - 1
        if case["via"] != "hook":
            mid_timeouts, final_t = [], False
        if final_t and res["partial"]:
            msgs.append("the completion timeout fired but codes are still pending")
        if not mid_timeouts:
            # fragmentation invariance against the same implementation fed in one piece
            whole = self.whole_run(case["enc"], case["via"], stream, final_t)
            if whole.get("exc"):
                msgs.append(self.exc_msg(case, whole["exc"]) + " (delivered whole)")
                return msgs
            wevents = [e for c in whole["calls"] for e in c[0]]
            if wevents != events:
                msgs.append(f"fragmented delivery decodes differently from whole delivery: {events[:6]} vs {wevents[:6]}")
            elif whole["partial"] != res["partial"]:
                msgs.append("fragmented delivery leaves different pending codes than whole delivery")
            pats = flatten_expect(case["segs"]) if case.get("segs") else None
            if pats is not None and not res["partial"]:
                m = match_expect(pats, events)
                if m:
                    msgs.append("documented decoding: " + m)
        else:
            # a timeout in the middle: what was pending then is decoded as it stands
            pending = []
            ci = 0
            for i, op in enumerate(ops):
                if op[0] == "f":
                    if ci >= len(calls):
                        break
                    total = pending + list(op[1])
                    k = len(calls[ci][1])
                    pending = total[k:]
                    ci += 1
                else:
                    if not pending:
                        continue
                    if ci >= len(calls):
                        msgs.append("the completion timeout fired with codes pending but the callback was not called")
                        break
                    alone = self.whole_run(case["enc"], "hook", pending, True)
                    got = calls[ci]
                    if got[1] != pending:
                        msgs.append("timeout: the raw codes of the flush differ from the pending codes")
                    elif not alone.get("exc") and [e for c in alone["calls"] for e in c[0]] != got[0]:
                        msgs.append("timeout: pending codes were not decoded as they stand (differs from the same bytes delivered alone)")
                    pending = []
                    ci += 1
        return msgs

    def nontrivial(self, case, res):
        if case["kind"] == "pk":
            return "ok" in res or "more" in res
        return bool(res.get("calls")) and any(c[0] for c in res["calls"])

    def signature(self, case, msg):
        return case["kind"] + ":" + re.sub(r"\d+", "N", re.sub(r"\[.*", "", msg))

    def distribution(self, case, res, dist):
        def inc(k):
            dist[k] = dist.get(k, 0) + 1
        inc("kind:" + case["kind"] + (":" + case["via"] if case["kind"] == "screen" else ""))
        inc("enc:" + case["enc"])
        if case.get("tag"):
            inc("gen:" + case["tag"])
        if case["kind"] == "pk":
            inc("pk:" + ("more" if res.get("more") else "exc" if res.get("exc") else "ok"))
            for e in res.get("ok", []):
                inc("ev:" + e[0])
        else:
            n = sum(1 for op in case["ops"] if op[0] == "f")
            inc("pieces:%d" % min(n, 6))
            if any(op[0] == "t" for op in case["ops"][:-1]):
                inc("mid-timeout")
            if res.get("partial"):
                inc("ends-pending")
            if res.get("odd_delay"):
                inc("observation:alarm delay differs from complete_wait")
            for c in res.get("calls", []):
                for e in c[0]:
                    inc("ev:" + e[0])

    # ---------- generators ----------
    def table(self):
        if self._table is None:
            sys.path.insert(0, os.path.join(core.ROOT, "tools", "py2v"))
            try:
                from mods import escape_table
                self._table = escape_table.evaluate_table(core.REPO)
            except Exception as e:  # noqa: BLE001
                # fail-closed translator: fall back to the imported table so that the search still has inputs
                from urwid.display import escape
                self._table = (list(escape.input_sequences), list(escape._keyconv.items()), {})
                self._table_error = f"{type(e).__name__}: {e}"
        return self._table

    ENCS = ("utf8", "wide", "narrow")

    @staticmethod
    def pk(enc, more, codes, tag, segs=None):
        c = {"kind": "pk", "enc": enc, "more": bool(more), "codes": list(codes), "tag": tag}
        if segs is not None:
            c["segs"] = segs
        return c

    @staticmethod
    def scr(enc, via, ops, tag, segs=None):
        c = {"kind": "screen", "enc": enc, "via": via, "ops": ops, "tag": tag}
        if segs is not None:
            c["segs"] = segs
        return c

    @staticmethod
    def cut_ops(stream, cuts, timeouts=(), final_timeout=True):
        """cuts: sorted positions; timeouts: indexes of pieces after which the alarm fires."""
        pieces = []
        prev = 0
        for c in list(cuts) + [len(stream)]:
            pieces.append(list(stream[prev:c]))
            prev = c
        ops = []
        for i, p in enumerate(pieces):
            ops.append(["f", p])
            if i in timeouts and i != len(pieces) - 1:
                ops.append(["t"])
        if final_timeout:
            ops.append(["t"])
        return ops

    def all_cuts(self, enc, stream, tag, segs=None, via="hook", with_timeouts=True):
        n = len(stream)
        ft = via == "hook"
        yield self.scr(enc, via, self.cut_ops(stream, [], final_timeout=ft), tag, segs)
        for c in range(1, n):
            yield self.scr(enc, via, self.cut_ops(stream, [c], final_timeout=ft), tag, segs)
            if with_timeouts:
                yield self.scr(enc, via, self.cut_ops(stream, [c], timeouts=(0,)), tag, segs)

    SAMPLES = [b"\x1b[A", b"\x1b[1;5A", b"\x1b[24;2~", b"\x1bOP", b"\x1b[M !!", b"\x1b[M\x20\x21\xff", b"\x1b[<0;12;3M",
               b"\x1b[<35;1;1m", b"\x1b[12;40R", b"\x1b[2;1R", b"\x1b[0;5R", b"\x1bx", b"\x1b\x1b[A", b"\x1b\x1b", b"\x1b\x1b\x1b",
               b"\xc3\xa9", b"\xe4\xb8\x96", b"\xf0\x9f\x98\x80", b"\xc3", b"\xe4\xb8", b"\xff", b"\x80", b"a", b"\r", b"\x00",
               b"\x1b[", b"\x1b[1", b"\x1b[1;", b"\x1b[1;5", b"\x1bO", b"\x1b[9", b"\x1b[99;", b"\x1b[M", b"\x1b[M ", b"\x1b[<",
               b"\x1b[<1;2", b"\xa1\xa1", b"\xa1", b"\x8e\x40", b"\x81\x40", b"\x80\x40", b"\x1b\xc3\xa9", b"\x1b\xa1\xa1",
               b"\x1b\x1b[M !!", b"\x1b\x1b[<0;1;1M", b"\x1b[<0;1;1;M", b"\x1b[<M", b"\xed\xa0\x80", b"\xc0\x80", b"\xf4\x90\x80\x80",
               b"\x1b[200~", b"\x1b[0n", b"\x1b[5n", b"\x1b[1;1R", b"\x1b[1;9R", b"\x1b[<1;2;3", b"\x1b[[A", b"\x1b[[", b"\x7f\x08"]

    def structured(self, tier):
        """Deterministic exhaustive-small-scope part."""
        seqs, keyconv, _ = self.table()
        pool = SegPool(seqs)
        encs = self.ENCS
        # (A) every table entry through process_keyqueue, more x encodings, followed by nothing / by a byte
        for i, (s, name) in enumerate(seqs):
            codes = [27] + [ord(c) for c in s]
            if name in ("mouse", "sgrmouse"):
                for enc in encs:
                    for more in (0, 1):
                        yield self.pk(enc, more, codes, "table")
                continue
            seg = pool.table_seg([k for k, _ in pool.keys].index(bytes(codes)))
            for enc in encs:
                for more in (0, 1):
                    yield self.pk(enc, more, codes, "table", [seg])
                    if more or tier != "quick":
                        yield self.pk(enc, more, codes + [120], "table", [seg, [[120], ["k", "x"]]])
            # ESC in front of every table sequence (the "ESC+key" meta form: 'meta <name>', or a separate 'esc' when the
            # name is 'esc' or already contains 'meta ' anywhere, e.g. 'shift meta up'); judged by the correspondence
            yield self.pk(encs[i % 3], i % 2, [27] + codes, "esc-table")
            if "meta " in name:
                for enc in encs:
                    for more in (0, 1):
                        c = self.pk(enc, more, [27] + codes, "esc-table")
                        if seg[1] != "*1":
                            c["whole"] = [["k", "esc"], seg[1]]
                        yield c
                        yield self.pk(enc, more, [27] + codes + [120], "esc-table")
            # every proper prefix: pending with more, something without raising otherwise
            for k in range(1, len(codes)):
                yield self.pk(encs[i % 3], 1, codes[:k], "table-prefix")
                yield self.pk(encs[(i + 1) % 3], 0, codes[:k], "table-prefix")
            # (B) every cut position x timeout or not, through the Screen
            enc = encs[i % 3]
            yield from self.all_cuts(enc, codes + [120], "table-cuts", [seg, [[120], ["k", "x"]]])
            if tier != "quick" or i % 7 == 0:
                yield from self.all_cuts(encs[(i + 1) % 3], codes, "table-cuts", [seg], via="getinput", with_timeouts=False)
        # (C) _keyconv and every single byte, every encoding
        def doc_byte(b):
            # documented single keys (docs/manual/userinput.rst, Screen.get_input docstring)
            if 32 <= b < 127:
                return ["k", chr(b)]
            if b in (9, 10, 13, 8, 127):
                return ["k", {9: "tab", 10: "enter", 13: "enter", 8: "backspace", 127: "backspace"}[b]]
            if 1 <= b <= 26:
                return ["k", "ctrl " + chr(96 + b)]
            return None
        for enc in encs:
            for b in range(256):
                seg = [[b], doc_byte(b)]
                for more in (0, 1):
                    yield self.pk(enc, more, [b], "byte", [seg])
                yield self.pk(enc, 1, [b, 65], "byte", [seg, [[65], ["k", "A"]]])
                yield self.pk(enc, 0, [27, b], "esc-byte")
                yield self.pk(enc, 1, [27, b, 65], "esc-byte")
        for k, _ in keyconv:
            if k > 255:
                yield self.pk("utf8", 0, [k, 65], "keyconv")
                yield self.pk("wide", 1, [27, k], "keyconv")
        # (D) X10 mouse: all button bytes, all coordinate bytes
        for cb in range(256):
            for cx, cy in ((33, 33), (60, 40), (255, 254)):
                codes = [27, 91, 77, cb, cx, cy]
                yield self.pk(encs[cb % 3], cb & 1, codes + [65], "x10", [[codes, x10_expected(cb, cx, cy)], [[65], ["k", "A"]]])
        for c in range(256):
            for cb in (32, 35, 96):
                codes = [27, 91, 77, cb, c, 255 - c]
                yield self.pk(encs[c % 3], c & 1, codes, "x10", [[codes, x10_expected(cb, c, 255 - c)]])
        for cb in (32, 36, 67, 97, 0, 255):
            codes = [27, 91, 77, cb, 50, 60]
            yield from self.all_cuts(encs[cb % 3], codes + [27, 91, 65], "x10-cuts",
                                     [[codes, x10_expected(cb, 50, 60)], [[27, 91, 65], ["k", "up"]]])
        # (E) SGR mouse: all button values 0..255 and beyond, coordinates, both finals; malformed
        for b in list(range(0, 256)) + [511, 1000, 2048, 4095]:
            for x, y in ((1, 1), (80, 24)):
                for f in "Mm":
                    codes = list(b"\x1b[<%d;%d;%d" % (b, x, y) + f.encode())
                    yield self.pk(encs[b % 3], b & 1, codes, "sgr", [[codes, sgr_expected(b, x, y, f)]])
        for x in (0, 1, 2, 9, 10, 99, 100, 223, 224, 255, 256, 1000, 65535, 10 ** 12):
            codes = list(b"\x1b[<0;%d;%dM" % (x, x))
            yield self.pk("utf8", 1, codes, "sgr", [[codes, ["m", "mouse press", 1, x - 1, x - 1] if x >= 1 else None]])
        bodies = [b"", b"1", b"1;2", b"1;2;3;4", b"a;b;c", b";;", b"1;;3", b"1;2;x", b" 1;2;3", b"1;2;3 ", b"+1;2;3", b"-1;2;3",
                  b"1_0;2;3", b"1__0;2;3", b"_1;2;3", b"1;2;3_", b"0x1;2;3", b"1;2;\xb2", b"\xa01;2;3", b"\x851;2;3\x85", b"\x1c1;2;3",
                  b"1.0;2;3", b"1;2;3;", b"1e3;2;3", b"\t1\n;\x0b2\x0c;\r3 ", b"+;2;3", b"-;2;3", b"1;2;3\x00", b"\x001;2;3", b"1;2;+-3",
                  b"1;2;- 3", b"007;08;09", b"0_0;0;0", b"1;2;3\x1b[A", b"\x1b[A", b"1;2;3;4;5;6", b"1;2;3m4", b"9" * 30 + b";1;1",
                  b"1" * 4300 + b";1;1", b"1" * 4301 + b";1;1", b"0" * 4301 + b";1;1", b"1_" * 4299 + b"1;2;3", b"1_" * 4300 + b"1;2;3",
                  b"-" + b"1" * 4300 + b";1;1"]
        for body in bodies:
            for f in b"Mm":
                codes = list(b"\x1b[<" + body + bytes([f]))
                for more in (0, 1):
                    yield self.pk(encs[len(body) % 3], more, codes, "sgr-malformed")
                    yield self.pk(encs[len(body) % 3], more, codes[:-1], "sgr-malformed")
            if len(body) < 40:
                yield from self.all_cuts(encs[len(body) % 3], list(b"\x1b[<" + body + b"Mq"), "sgr-malformed-cuts")
        # every Latin-1 character in front of / behind / inside a number
        for c in range(256):
            for body in (bytes([c]) + b"12;3;4", b"12" + bytes([c]) + b";3;4", b"1" + bytes([c]) + b"2;3;4", b"1;2;" + bytes([c])):
                yield self.pk(encs[c % 3], c & 1, list(b"\x1b[<" + body + b"M"), "sgr-int")
        # (F) cursor position reports
        vals = (0, 1, 2, 8, 9, 10, 11, 99, 100, 255, 1000, 123456789012)
        for y in vals:
            for x in vals:
                codes = list(b"\x1b[%d;%dR" % (y, x))
                exp = ["c", x - 1, y - 1] if (x > 0 and y > 0 and not (y == 1 and x <= 8)) else None
                yield self.pk(encs[(x + y) % 3], (x ^ y) & 1, codes + [66], "cpr", [[codes, exp], [[66], ["k", "B"]]])
        for body in (b"0;5R", b"5;0R", b"05;5R", b"5;05R", b";5R", b"5;R", b"5;5;R", b"5R", b"5;5r", b"5;5", b"5;", b"5", b"", b"5;a",
                     b"5a;5R", b"5;5aR", b"10;10R", b"50;50R", b"3;3R", b"3;", b"3;3", b"3;3~", b"1;1R", b"1;9R", b"1;5", b"1;", b"1;10R"):
            for more in (0, 1):
                yield self.pk(encs[len(body) % 3], more, list(b"\x1b[" + body), "cpr-malformed")
                yield self.pk(encs[len(body) % 3], more, list(b"\x1b\x1b[" + body), "esc-cpr")
            yield from self.all_cuts(encs[len(body) % 3], list(b"\x1b[" + body + b"\x1b[B"), "cpr-cuts")
        # (G) UTF-8: boundaries, invalid, truncated, in the three encodings
        cps = [0x80, 0xA9, 0x7FF, 0x800, 0xFFF, 0x1000, 0xD7FF, 0xE000, 0xFFFD, 0xFFFF, 0x10000, 0x1F600, 0x10FFFF]
        u8 = [list(chr(cp).encode("utf-8")) for cp in cps]
        bad = [[0xC0, 0x80], [0xC1, 0xBF], [0xE0, 0x80, 0x80], [0xE0, 0x9F, 0xBF], [0xED, 0xA0, 0x80], [0xED, 0xBF, 0xBF],
               [0xF0, 0x80, 0x80, 0x80], [0xF0, 0x8F, 0xBF, 0xBF], [0xF4, 0x90, 0x80, 0x80], [0xF5, 0x80, 0x80, 0x80],
               [0xF7, 0xBF, 0xBF, 0xBF], [0xF8, 0x88, 0x80, 0x80, 0x80], [0xC3, 0x28], [0xE2, 0x28, 0xA1], [0xE2, 0x82, 0x28],
               [0xF0, 0x28, 0x8C, 0xBC], [0xF0, 0x90, 0x28, 0xBC], [0xF0, 0x28, 0x8C, 0x28], [0x80], [0xBF], [0xFE], [0xFF],
               [0xC3, 0xC3, 0xA9], [0xE4, 0xB8, 0xE4, 0xB8, 0x96], [0xC2, 0x100], [0xC2, 0x180]]
        for enc in encs:
            for bs in u8:
                exp = ["k", bytes(bs).decode("utf-8")] if enc == "utf8" else None
                for more in (0, 1):
                    yield self.pk(enc, more, bs + [97], "utf8", [[bs, exp], [[97], ["k", "a"]]])
                    yield self.pk(enc, more, [27] + bs, "utf8-meta")
                    for k in range(1, len(bs)):
                        # a truncated character that cannot be completed (timeout, or an ASCII byte follows):
                        # its bytes are unknown bytes and pass through one by one - the lead byte alone first
                        first = [[bs[0]], "*1"] if enc == "utf8" else None
                        yield self.pk(enc, more, bs[:k], "utf8-trunc", [first] if (first and not more) else None)
                        yield self.pk(enc, more, bs[:k] + [97], "utf8-trunc", [first] if first else None)
                    if enc == "utf8":
                        for k in range(1, len(bs)):
                            yield self.scr(enc, "hook", [["f", bs[:k]], ["t"], ["f", [97]]], "utf8-trunc",
                                           [[[b], "*1"] for b in bs[:k]] + [[[97], ["k", "a"]]])
                yield from self.all_cuts(enc, bs + [97] + bs, "utf8-cuts", [[bs, exp], [[97], ["k", "a"]], [bs, exp]])
            for bs in bad:
                for more in (0, 1):
                    yield self.pk(enc, more, bs, "utf8-bad")
                    yield self.pk(enc, more, bs + [97], "utf8-bad")
                if max(bs) < 256:
                    yield from self.all_cuts(enc, bs + [27, 91, 65], "utf8-bad-cuts")
        # all lead bytes x all second bytes (utf8 2-byte structure, double-byte tables)
        step2 = 1 if tier != "quick" else 11
        for a in range(0x80, 0x100):
            for b in range(0, 0x100, step2):
                yield self.pk("utf8", (a ^ b) & 1, [a, b, 0x41], "lead-x-second")
                segs = [[[a, b], ["k", chr(a) + chr(b)]], [[0x41], ["k", "A"]]] if wide_pair_char(a, b) else None
                yield self.pk("wide", (a ^ b) & 1, [a, b, 0x41], "lead-x-second", segs)
            # a documented single key (space, digit, DEL = backspace ...) after a high byte: no supported
            # double-byte encoding has such a trail byte, so the high byte passes through alone and the key
            # decodes as it would alone
            for b in (0x20, 0x30, 0x3F, 0x7F, 0x09, 0x0D):
                yield self.pk("wide", 1, [a, b, 0x41], "wide-lead-then-key",
                              [[[a], "*1"], [[b], doc_byte(b)], [[0x41], ["k", "A"]]])
                yield self.scr("wide", "hook", self.cut_ops([a, b, 0x41], [1]), "wide-lead-then-key",
                               [[[a], "*1"], [[b], doc_byte(b)], [[0x41], ["k", "A"]]])
        # every character of the GBK / UHC first rows and a sample of the others, low and high trail bytes
        for a in (0x81, 0x82, 0xA1, 0xC6, 0xFE):
            for b in list(range(0x40, 0x7F)) + [0x80, 0x81, 0xA1, 0xFE]:
                if wide_pair_char(a, b):
                    seg = [[a, b], ["k", chr(a) + chr(b)]]
                    yield self.pk("wide", b & 1, [a, b], "wide-char", [seg])
                    if b % 8 == 0:
                        yield from self.all_cuts("wide", [a, b, a, b], "wide-char-cuts", [seg, seg])
        for a in range(0x80, 0x100, 3):
            for b in (0x20, 0x3F, 0x40, 0x7E, 0x7F, 0x80, 0x81, 0xA1, 0xFE, 0xFF):
                yield from self.all_cuts("wide", [a, b, 0x41], "wide-cuts", None)
        # (H) fixed samples: every truncation x every cut x timeout or not x encodings
        for enc in encs:
            for s in self.SAMPLES:
                for more in (0, 1):
                    yield self.pk(enc, more, list(s), "sample")
                yield from self.all_cuts(enc, list(s), "sample-cuts")
                yield from self.all_cuts(enc, list(s) + [27], "sample-cuts")

    def random_stream_case(self, rng, pool):
        enc = rng.choice(self.ENCS)
        nseg = rng.choice([1, 1, 2, 2, 3, 4, 6])
        segs = [pool.rand_seg(rng, enc) for _ in range(nseg)]
        r = rng.random()
        if r < 0.12:
            # truncate the stream somewhere: the tail stays pending or is flushed
            stream = [b for s in segs for b in s[0]]
            stream = stream[:rng.randrange(1, len(stream) + 1)]
            segs = None
        else:
            stream = [b for s in segs for b in s[0]]
        n = len(stream)
        ncuts = rng.choice([0, 1, 1, 2, 2, 3, 5, n])
        cuts = sorted(set(rng.randrange(0, n + 1) for _ in range(ncuts))) if n else []
        kind = rng.random()
        if kind < 0.15:
            more = rng.random() < 0.5
            return self.pk(enc, more, stream, "random-pk", segs)
        if kind < 0.30:
            return self.scr(enc, "getinput", self.cut_ops(stream, cuts, final_timeout=False), "random-getinput", segs)
        if kind < 0.75:
            return self.scr(enc, "hook", self.cut_ops(stream, cuts, final_timeout=rng.random() < 0.8), "random-frag", segs)
        npieces = len(cuts) + 1
        touts = tuple(i for i in range(npieces) if rng.random() < 0.4)
        return self.scr(enc, "hook", self.cut_ops(stream, cuts, timeouts=touts, final_timeout=rng.random() < 0.8),
                        "random-timeouts", None)

    def garbage_case(self, rng):
        enc = rng.choice(self.ENCS)
        n = rng.choice([1, 2, 3, 5, 8, 16])
        mode = rng.random()
        if mode < 0.5:
            stream = [rng.randrange(256) for _ in range(n)]
        else:
            alphabet = [27, 27, 91, 91, 79, 60, 59, 59, 77, 109, 82, 126, 48, 49, 50, 53, 57, 65, 0xC3, 0xA9, 0xE4, 0xF0, 0x80, 0xA1, 0x40, 32]
            stream = [rng.choice(alphabet) for _ in range(n)]
        ncuts = rng.choice([0, 1, 2, 3])
        cuts = sorted(set(rng.randrange(0, n + 1) for _ in range(ncuts)))
        k = rng.random()
        if k < 0.3:
            return self.pk(enc, rng.random() < 0.5, stream, "garbage-pk")
        npieces = len(cuts) + 1
        touts = tuple(i for i in range(npieces) if rng.random() < 0.25)
        return self.scr(enc, "hook" if k < 0.9 else "getinput", self.cut_ops(stream, cuts, timeouts=touts, final_timeout=rng.random() < 0.7),
                        "garbage")

    def cases(self, rng, tier):
        yield from self.structured(tier)
        pool = SegPool(self.table()[0])
        nrand = 5000 if tier == "quick" else 150000
        for _ in range(nrand):
            yield self.random_stream_case(rng, pool)
        for _ in range(nrand // 2):
            yield self.garbage_case(rng)

    def search_cases(self, rng, tier):
        pool = SegPool(self.table()[0])
        while True:
            yield self.random_stream_case(rng, pool)
            yield self.garbage_case(rng)

    def shrink_candidates(self, case):
        if case["kind"] == "pk":
            codes = case["codes"]
            for i in range(len(codes)):
                yield self.pk(case["enc"], case["more"], codes[:i] + codes[i + 1:], case.get("tag"))
            return
        ops = case["ops"]
        for i in range(len(ops)):
            yield self.scr(case["enc"], case["via"], ops[:i] + ops[i + 1:], case.get("tag"))
        for i in range(len(ops) - 1):
            if ops[i][0] == "f" and ops[i + 1][0] == "f":
                yield self.scr(case["enc"], case["via"], ops[:i] + [["f", ops[i][1] + ops[i + 1][1]]] + ops[i + 2:], case.get("tag"))
        for i, op in enumerate(ops):
            if op[0] == "f":
                for j in range(len(op[1])):
                    yield self.scr(case["enc"], case["via"], ops[:i] + [["f", op[1][:j] + op[1][j + 1:]]] + ops[i + 1:], case.get("tag"))
        if case["enc"] != "utf8":
            yield self.scr("utf8", case["via"], ops, case.get("tag"))

    # ---------- whole-table comparisons ----------
    def extra_checks(self, tier, rng, ev):
        """The import-free evaluation of the tables (what the Coq model is generated from) must be the
        tables of the imported module; the trie the module built must be the one `add` builds."""
        out = []
        from urwid.display import escape
        seqs, keyconv, consts = self.table()
        err = getattr(self, "_table_error", None)
        if err:
            raise core.MachineryError("py2v escape_table evaluation failed: " + err)
        if [tuple(x) for x in seqs] != [tuple(x) for x in escape.input_sequences]:
            raise core.MachineryError("py2v escape_table: evaluated input_sequences differ from the imported module")
        kc = dict(escape._keyconv)
        if dict(keyconv) != kc:
            raise core.MachineryError("py2v escape_table: evaluated _keyconv differs from the imported module")
        for k, v in consts.items():
            if getattr(escape, k) != v:
                raise core.MachineryError(f"py2v escape_table: constant {k} differs from the imported module")
        # documented names for the well-known sequences (whole reference table, through the real trie)
        for seq, name in sorted(REF_KEYS.items()):
            case = self.pk("utf8", 0, list(seq), "ref-table", [[list(seq), ["k", name]]])
            res = self.run_impl(case)
            for m in self.oracle(case, res):
                out.append((case, m))
        ev["dist"]["ref-table-entries"] = len(REF_KEYS)
        # observation (not a violation): synchronous get_input has no completion timer
        r = run_screen("utf8", "getinput", [["f", [27]], ["f", []], ["f", []]])
        if r["partial"] == [27] and not any(c[0] for c in r["calls"]):
            ev["dist"]["observation:get_input keeps a lone ESC pending until more input arrives (no completion timer without an event loop)"] = 1
        return out


C05.level_text = (
    "Proved in Coq for every byte stream, every encoding mode and every read schedule, no length bound, about the model whose key "
    "table/_keyconv/mouse constants are regenerated from escape.py each run and whose within_double_byte is the py2v translation of "
    "str_util.within_double_byte: progress (every successful process_keyqueue step reports >= 1 event and consumes a non-empty prefix; "
    "parse_input's loop ends within len(codes) steps; raw + pending = input, left to right); never_raises / screen_never_raises; "
    "decisive, more_is_prefix, more_flag; fragmentation_invariant (+ _from_pending, _then): any cutting of a stream into successive "
    "reads with no alarm in between gives the same events, raw codes and pending codes as one read, and so does everything afterwards; "
    "timeout_flushes and nothing_lost; unknown bytes pass through as one event each and what follows decodes as it would alone.  "
    "The trie IS the table (trie_lookup_is_table_lookup, for ANY table on which KeyqueueTrie.add succeeds and ALL key lists: the table "
    "is prefix-free, lookup = the unique entry that is a prefix of the keys, MoreInputRequired exactly when the keys are a proper "
    "prefix of an entry, a leaf is only reached through an entry) with the instances input_table_prefix_free and "
    "key_names_come_from_table (no key name is reported that is not the name of a table entry just consumed) next to "
    "table_entries_decode (every entry decodes to its name whatever follows).  Mouse/reports: X10 (coordinates, documented "
    "names/buttons for the xterm range), SGR with decimal parameters (through the model of the M/m scan, split(';') and int()), cursor "
    "position reports.  Encodings: well-formed UTF-8 characters; wide mode completely for a high byte (wide_pair_decodes: one two-byte "
    "character exactly for lead >= 0x80 with trail >= 0x80 or lead >= 0x81 with trail 0x40..0x7E, by computation of the translated "
    "within_double_byte on all 65536 byte pairs; wide_lead_alone; wide_text_decodes: one event per character for any ASCII/double-byte "
    "text); narrow_high_byte.  Whole streams: recognised_item_decodes / recognised_stream_decodes / "
    "recognised_stream_any_fragmentation - ANY sequence of recognised items (table keys, X10 reports, SGR reports with decimal "
    "parameters, cursor position reports the table does not shadow, printable ASCII, well-formed UTF-8 characters, double-byte "
    "characters) is decoded into exactly one event per item, in order, with the documented name/coordinates, delivered whole or cut "
    "into successive reads at arbitrary points; table_blind_falls_through.  Trusted rather than proved (exact correspondence + documentation oracle every run): that the hand "
    "model is the code (int() semantics, UTF-8 validity table vs CPython, get_input path), names of well-known keys against an "
    "independent xterm reference table.")
C05.level_note = (
    "Trusted: Coq kernel, the ast evaluator of the tables (cross-checked against the imported module every run), ExtrOcamlBasic "
    "extraction + OCaml driver, py2v str_loops (within_double_byte), the hand-written model (tied by exact correspondence on ~50k cases per quick run incl. every table entry "
    "x every cut x timeout-or-not), the Python oracle.  Assumes byte codes 0..255, POSIX, default int digit limit 4300; gpm and resize "
    "events out of scope; synchronous get_input has no completion timer (observation recorded in the evidence).")

CHECK = C05
