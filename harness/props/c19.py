"""C19 - containers partition the available space exactly and proportionally.

Sub-models (case["k"]): iscale, clrp, ctbf, cols, pile, pad, fill, ov, grid.
The oracle is written from the property text with exact rational arithmetic (fractions); it does not
look at the Coq model.
"""
import itertools
import re
import warnings
from fractions import Fraction

from harness import core

warnings.simplefilter("ignore")

WT = {"relative": 0, "clip": 1, "given": 2, "pack": 3, "weight": 4}
AT = {"left": 0, "center": 1, "right": 2, "relative": 3}
VT = {"top": 0, "middle": 1, "bottom": 2, "relative": 3}
CK = {"given": 0, "pack": 1, "packflow": 1, "packfixed": 1, "weight": 2}
ERRC = {"IndexError": 1, "ValueError": 2, "TypeError": 3, "WidgetError": 4, "ZeroDivisionError": 10}
ERRN = {1: "IndexError", 2: "ValueError", 3: "TypeError", 4: "WidgetError", 10: "ZeroDivisionError"}

# int(E / D + 0.5) is computed in floating point by the library; the model uses the exact rational.
# They agree while E + D < 2**50 (E/D then differs from any k + 1/2 it is not equal to by more than the
# float rounding error).  The generators keep every product below this bound.
FLOAT_BOUND = 2 ** 50

_urwid = {}


def U():
    """Import urwid lazily (the repo under test is on PYTHONPATH) and build the stub widget classes."""
    if _urwid:
        return _urwid
    import urwid
    from urwid.widget.padding import calculate_left_right_padding
    from urwid.widget.filler import calculate_top_bottom_filler
    from urwid.util import int_scale

    class Spy(urwid.Widget):
        """Leaf stub: answers pack()/rows() from configured numbers and records the sizes it is rendered with."""
        _selectable = False
        ignore_focus = True

        def __init__(self, sizing, fixed=(1, 1), nat=None, rows=1, log=None, tag=None, rows_narrow=None, thr=None):
            super().__init__()
            self._sz = frozenset(sizing)
            self.fixed = fixed
            self.nat = nat
            self.nrows = rows
            self.nrows_narrow = rows if rows_narrow is None else rows_narrow    # rows((w,)) for w < thr
            self.thr = thr
            self.by_id = False
            self.log = log if log is not None else []
            self.tag = tag
            self.asked = []

        def sizing(self):
            return self._sz

        def rows(self, size, focus=False):
            self.asked.append(("rows", tuple(size)))
            if self.thr is not None and size and size[0] < self.thr:
                return self.nrows_narrow
            return self.nrows

        def pack(self, size=(), focus=False):
            self.asked.append(("pack", tuple(size)))
            if not size:
                return self.fixed
            if len(size) == 1:
                w = size[0] if self.nat is None else min(self.nat, size[0])
                return (w, self.nrows)
            return tuple(size)

        def render(self, size, focus=False):
            self.log.append((id(self) if self.by_id else self.tag, tuple(size)))
            if not size:
                c, r = self.fixed
            elif len(size) == 1:
                c, r = size[0], (self.nrows_narrow if (self.thr is not None and size[0] < self.thr) else self.nrows)
            else:
                c, r = size
            return urwid.SolidCanvas("x", max(c, 0), max(r, 0))

    _urwid.update(urwid=urwid, Spy=Spy, clrp=calculate_left_right_padding, ctbf=calculate_top_bottom_filler,
                  int_scale=int_scale, WidgetError=urwid.WidgetError)
    return _urwid


def errname(e):
    u = U()
    if isinstance(e, u["WidgetError"]):
        return "WidgetError"
    return type(e).__name__


def oz(v):
    return [0] if v is None else [1, v]


def align_spec(at, aa):
    return ("relative", aa) if at == "relative" else at


def size_spec(wt, wa):
    if wt == "relative":
        return ("relative", wa)
    if wt == "given":
        return wa
    return wt          # 'pack' / 'clip'


def enum_align(at):
    urwid = U()["urwid"]
    return {"left": urwid.Align.LEFT, "center": urwid.Align.CENTER, "right": urwid.Align.RIGHT,
            "relative": urwid.WHSettings.RELATIVE}[at]


def enum_valign(vt):
    urwid = U()["urwid"]
    return {"top": urwid.VAlign.TOP, "middle": urwid.VAlign.MIDDLE, "bottom": urwid.VAlign.BOTTOM,
            "relative": urwid.WHSettings.RELATIVE}[vt]


def enum_wh(wt):
    return U()["urwid"].WHSettings(wt)


def rhu(num, den):
    """round-half-up of the rational num/den (den > 0)."""
    return (2 * num + den) // (2 * den)


def inc(dist, key, n=1):
    dist[key] = dist.get(key, 0) + n


class C19(core.Check):
    pid = "C19"
    gen_modules = ["layout"]
    model_targets = ["theories/Model/Layout.vo"]
    prop_file = "theories/Properties/C19.v"
    extract_v = "Extract/C19X.v"
    allowed_axioms = set()
    design_ref = "DESIGN.md section 5, C19 (+ Appendix B)"
    technique = ("Coq theorems (lia/nia over Z, induction over the option list) about int_scale, "
                 "calculate_left_right_padding and calculate_top_bottom_filler as re-translated from the source on every "
                 "run, and about a hand model of Columns.column_widths / Pile.get_item_rows / Padding / Filler / Overlay / "
                 "GridFlow; extracted-model correspondence; property-text oracle with exact rationals")
    level_text = ""     # filled in below (after the class) to keep this block readable
    level_note = ""
    rule = ("cases = multi-step histories on ONE Columns / Pile / GridFlow object (layout, move focus, change a packed child's size, "
            "replace/append/remove options, setters, layout again at the same size: every layout judged like a fresh one) and one call of int_scale / calculate_left_right_padding / calculate_top_bottom_filler / "
            "Columns.column_widths+get_column_sizes+render / Pile.get_item_rows+render (box) / Padding.padding_values+render / "
            "Filler.filler_values+render / Overlay.calculate_padding_filler+top_w_size / GridFlow.generate_display_widget on "
            "generated options; Columns exhaustive over small option lists x maxcol 0..12 x dividechars 0..2 x min_width 0..3 x "
            "every focus, random beyond (widths to 10^4, weights to 10^6, products just below 2^50); "
            "non-trivial = the call returned sizes (not an exception) and at least one size is positive; "
            "distinct by hash of (case, outcome)")
    trusted_base = [
        "Coq 8.16.1 kernel (coqc; vm_compute used only for closed examples and refutation witnesses)",
        "tools/py2v translator + tools/py2v/mods/layout.py (int_scale, calculate_left_right_padding, calculate_top_bottom_filler "
        "regenerated from the source every run; int(E/D+0.5) is translated to the exact truncated rational, valid for E+D < 2^50)",
        "extraction: ExtrOcamlBasic only; Z/positive stay Coq datatypes; OCaml 4.13.1; tools/driver/driver.ml",
        "hand-written Model/Layout.v for Columns.column_widths, Pile.get_item_rows (box), Padding.padding_values, "
        "Filler.filler_values, Overlay.calculate_padding_filler/top_w_size, GridFlow row breaking (validated by this "
        "correspondence, not proved against Python)",
        "stub leaf widgets in harness/props/c19.py standing for the children (pack/rows answers are inputs)",
        "Python oracle in harness/props/c19.py",
    ]
    assumptions = [
        "weights are positive integers (float and zero weights are outside the statement; zero weights are only compared "
        "with the model, never judged)",
        "given sizes >= 1, packed sizes >= 0, dividechars >= 0, min_width >= 0, available size >= 0, margins >= 0, "
        "alignment percentages within 0..100",
        "every product fed to the int(E/D+0.5) float idiom stays below 2^50",
        "with min_width = 0 a weighted column can get zero width; the 'fills exactly' and 'focus visible' clauses are then "
        "recorded as observations, not judged",
        "PACK children are represented by the width/rows they report; the ColumnsWarning/PileWarning fallback paths are not modelled",
        "child widgets render a canvas of exactly the size they are handed (stub children; the widget size contract is C01)",
        "histories: assignments to the plain attributes dividechars / min_width / h_sep / v_sep / align are followed by _invalidate() "
        "(without it the Columns width cache is stale: proved refuted on the model, reported as an observation)",
        "not modelled: Pile.get_item_rows in flow mode (no arithmetic: every item reports its own rows) and the FIXED-size paths "
        "_get_fixed_column_sizes/_get_fixed_rows_sizes (float coefficient arithmetic; the statement speaks of an available size)",
    ]

    # ------------------------------------------------------------------ implementation
    def run_impl(self, case):
        try:
            return getattr(self, "impl_" + case["k"])(case)
        except core.MachineryError:
            raise
        except Exception as e:          # the library's own error is part of the observable outcome
            return {"err": errname(e)}

    def impl_iscale(self, c):
        return {"r": U()["int_scale"](c["v"], c["vr"], c["out"])}

    def impl_clrp(self, c):
        l, r = U()["clrp"](c["maxcol"], enum_align(c["at"]), c["aa"], enum_wh(c["wt"]), c["wa"], c["minw"],
                           c["left"], c["right"])
        return {"lr": [l, r]}

    def impl_ctbf(self, c):
        t, b = U()["ctbf"](c["maxrow"], enum_valign(c["vt"]), c["va"], enum_wh(c["ht"]), c["ha"], c["minh"],
                           c["top"], c["bottom"])
        return {"tb": [t, b]}

    def col_child(self, k, a, log, tag):
        """(contents entry for the Columns constructor, the child) for one option"""
        Spy = U()["Spy"]
        if k == "given":
            w = Spy(("box", "flow"), log=log, tag=tag)
            return ("given", a, w), w
        if k == "pack":
            w = Spy(("fixed",), fixed=(a, 1), log=log, tag=tag)
            return ("pack", w), w
        if k == "packflow":
            w = Spy(("flow",), nat=a, log=log, tag=tag)
            return ("pack", w), w
        w = Spy(("box", "flow"), log=log, tag=tag)
        return ("weight", a, w), w

    def col_child_id(self, k, a, log, tag):
        entry, w = self.col_child(k, a, log, tag)
        w.by_id = True
        return entry, w

    def build_children(self, opts, log):
        return [self.col_child_id(k, a, log, i)[0] for i, (k, a) in enumerate(opts)]

    def observe_cols(self, cols, c, log):
        """One layout of an existing Columns at c['maxcol']; c describes the configuration in force."""
        size = (c["maxcol"],)
        widths = list(cols.column_widths(size, True))
        w2, _h, args = cols.get_column_sizes(size, True)
        agree = list(w2) == widths and all((not a) or a[0] == w for a, w in zip(args, widths))
        del log[:]
        rendered = None
        if c["maxcol"] >= 1:
            canv = cols.render(size, True)
            tags = {id(w): i for i, (w, _o) in enumerate(cols.contents)}
            rendered = [[tags.get(wid, -1), (sz[0] if sz else self.pack_width(c, tags.get(wid, -1)))] for wid, sz in log]
            agree = agree and canv.cols() == c["maxcol"]
        return {"widths": widths, "rendered": rendered, "agree": bool(agree)}

    def impl_cols(self, c):
        urwid = U()["urwid"]
        log = []
        cols = urwid.Columns(self.build_children(c["opts"], log), dividechars=c["div"], min_width=c["minw"])
        cols.focus_position = c["focus"]
        return self.observe_cols(cols, c, log)

    @staticmethod
    def pack_width(c, i):
        return c["opts"][i][1]

    def pile_child(self, k, a, log, tag):
        Spy = U()["Spy"]
        if k == "given":
            w = Spy(("box",), log=log, tag=tag)
            return ("given", a, w), w
        if k == "pack":
            w = Spy(("flow",), rows=a, log=log, tag=tag)
            return ("pack", w), w
        if k == "packfixed":      # fixed-only child: measured with pack(())[1]
            w = Spy(("fixed",), fixed=(3, a), rows=-7, log=log, tag=tag)
            return ("pack", w), w
        w = Spy(("box",), log=log, tag=tag)
        return ("weight", a, w), w

    def observe_pile(self, pile, c):
        size = (c["maxcol"], c["maxrow"])
        rows = list(pile.get_item_rows(size, True))
        _w, heights, args = pile.get_rows_sizes(size, True)
        agree = list(heights) == rows
        for (k, a), arg, r in zip(c["opts"], args, rows):
            if k in ("given", "weight") and tuple(arg) != (c["maxcol"], r):
                agree = False
        return {"rows": rows, "agree": bool(agree)}

    def impl_pile(self, c):
        urwid = U()["urwid"]
        log = []
        items = [self.pile_child(k, a, log, i)[0] for i, (k, a) in enumerate(c["opts"])]
        pile = urwid.Pile(items)
        if items:
            pile.focus_position = c["focus"]
        return self.observe_pile(pile, c)

    def impl_pad(self, c):
        urwid = U()["urwid"]
        Spy = U()["Spy"]
        log = []
        child = Spy(("box", "flow", "fixed"), fixed=(c["pf"], 1), nat=c["natw"], log=log, tag=0)
        pad = urwid.Padding(child, align_spec(c["at"], c["aa"]), size_spec(c["wt"], c["wa"]), c["minw"], c["left"], c["right"])
        size = () if c["size"] is None else (c["size"],)
        l, r = pad.padding_values(size, False)
        res = {"lr": [l, r], "child": None}
        if self.pad_renders(c):
            del log[:]
            try:
                pad.render(size, False)
                res["child"] = log[0][1][0] if log and log[0][1] else None
            except Exception as e:
                res["child"] = "render:" + errname(e)
        return res

    @staticmethod
    def pad_renders(c):
        return (c["size"] is not None and c["wt"] != "clip" and c["size"] >= 1 and c["left"] >= 0 and c["right"] >= 0
                and (c["minw"] is None or c["minw"] >= 0) and c["wa"] >= 0 and c["natw"] >= 0)

    def impl_fill(self, c):
        urwid = U()["urwid"]
        Spy = U()["Spy"]
        log = []
        if c["ht"] == "pack":
            child = Spy(("flow",), rows=c["crows"], log=log, tag=0)
        else:
            child = Spy(("box",), log=log, tag=0)
        fil = urwid.Filler(child, align_spec(c["vt"], c["va"]), size_spec(c["ht"], c["ha"]), c["minh"], c["top"], c["bottom"])
        size = (c["maxcol"],) if c["maxrow"] is None else (c["maxcol"], c["maxrow"])
        t, b = fil.filler_values(size, False)
        res = {"tb": [t, b], "child": None}
        if c["maxrow"] is not None and c["ht"] != "pack" and c["maxrow"] >= 1 and c["maxcol"] >= 1:
            del log[:]
            try:
                fil.render(size, False)
                res["child"] = list(log[0][1]) if log else None
            except Exception as e:
                res["child"] = "render:" + errname(e)
        return res

    def impl_ov(self, c):
        urwid = U()["urwid"]
        Spy = U()["Spy"]
        top_w = Spy(("box", "flow", "fixed"), fixed=(c["pw"], c["ph"]), rows=c["fr"], rows_narrow=c.get("frn", c["fr"]),
                    thr=c.get("thr", 0))
        bottom_w = urwid.SolidFill(" ")
        ov = urwid.Overlay(top_w, bottom_w, align_spec(c["at"], c["aa"]), size_spec(c["wt"], c["wa"]),
                           align_spec(c["vt"], c["va"]), size_spec(c["ht"], c["ha"]),
                           min_width=c["minw"], min_height=c["minh"], left=c["left"], right=c["right"],
                           top=c["top"], bottom=c["bottom"])
        size = (c["maxcol"], c["maxrow"])
        l, r, t, b = ov.calculate_padding_filler(size, False)
        tws = ov.top_w_size(size, l, r, t, b)
        asked = [a[1][0] for a in top_w.asked if a[0] == "rows" and a[1]]
        res = {"lrtb": [l, r, t, b], "tws": list(tws), "rows_asked_at": asked[-1] if asked else None, "box": None}
        # where the (trimmed) top canvas ends up in the rendered overlay: bounding box of the stub's 'x' cells
        if not tws:
            tw, th = c["pw"], c["ph"]
        elif len(tws) == 1:
            tw, th = tws[0], (c.get("frn", c["fr"]) if tws[0] < c.get("thr", 0) else c["fr"])
        else:
            tw, th = tws
        if self.ov_box_guard(c, max(l, 0), t, tw + min(0, l) + min(0, r), th + min(0, t) + min(0, b)):
            try:
                canv = ov.render(size, False)
                cells = [(x, y) for y, row in enumerate(canv.text) for x, ch in enumerate(row.decode("ascii", "replace")) if ch == "x"]
                if cells:
                    xs = [p[0] for p in cells]
                    ys = [p[1] for p in cells]
                    solid = len(cells) == (max(xs) - min(xs) + 1) * (max(ys) - min(ys) + 1)
                    res["box"] = [min(xs), min(ys), max(xs) - min(xs) + 1, max(ys) - min(ys) + 1] if solid else "not-a-rectangle"
                else:
                    res["box"] = "nothing-shown"
                if canv.cols() != c["maxcol"] or canv.rows() != c["maxrow"]:
                    res["box"] = "canvas-size"
            except Exception as e:
                res["box"] = "render:" + errname(e)
        return res

    @staticmethod
    def ov_box_guard(c, x, y, w, h):
        """the placement is observed when something of the top widget is visible on a non-empty screen"""
        return (c["maxcol"] >= 1 and c["maxrow"] >= 1 and w >= 1 and h >= 1 and x >= 0 and y >= 0
                and x + w <= c["maxcol"] and y + h <= c["maxrow"])

    def observe_grid(self, gf, maxcol, cached):
        urwid = U()["urwid"]
        try:
            natw = gf.pack(())[0]                    # _get_maxcol(()): the natural width
        except Exception as e:
            natw = "err:" + errname(e)
        d = gf.get_display_widget((maxcol,)) if cached else gf.generate_display_widget((maxcol,))
        rows = []
        if isinstance(d, urwid.Pile):
            for w, _o in d.contents:
                if isinstance(w, urwid.Padding):
                    colw = w.original_widget
                    row = []
                    for cw, (t, amount, _b) in colw.contents:
                        if t != urwid.WHSettings.GIVEN:
                            return {"err": "cell option " + str(t)}
                        row.append([cw.tag, amount])
                    pw = w.width if isinstance(w.width, int) else -999
                    # how the row itself is laid out in maxcol columns
                    le, ri = w.padding_values((maxcol,), False)
                    try:
                        inner = list(colw.column_widths((maxcol - le - ri,)))
                    except Exception as e:
                        inner = "err:" + errname(e)
                    rows.append({"pad": pw, "cells": row, "hsep": colw.dividechars, "lr": [le, ri], "inner": inner})
        return {"rows": rows, "natw": natw}

    def impl_grid(self, c):
        urwid = U()["urwid"]
        Spy = U()["Spy"]
        cells = [Spy(("flow",), tag=i) for i in range(len(c["cells"]))]
        gf = urwid.GridFlow([], c["cw"], c["hsep"], c["vsep"], c.get("align", "left"))
        for w, width in zip(cells, c["cells"]):
            gf.contents.append((w, gf.options("given", width)))
        if cells:
            gf.focus_position = c["focus"]
        return self.observe_grid(gf, c["maxcol"], False)

    # ------------------------------------------------------------------ multi-step histories on ONE widget object
    # The configuration in force at each layout step is computed from the case alone (seq_configs); the model is
    # stateless and is asked once per layout (batch), the oracle judges every layout against its configuration.
    @staticmethod
    def colseq_configs(c):
        opts = [list(o) for o in c["opts"]]
        div, minw, focus = c["div"], c["minw"], c["focus"]
        out = []
        for st in c["steps"]:
            op = st[0]
            if op == "layout":
                out.append({"k": "cols", "opts": [list(o) for o in opts], "div": div, "minw": minw, "focus": focus,
                            "maxcol": st[1]})
            elif op == "focus":
                focus = st[1]
            elif op == "setpack":
                opts[st[1]][1] = st[2]
            elif op == "setopt":
                opts[st[1]] = [st[2], st[3]]
            elif op == "append":
                opts.append([st[1], st[2]])
            elif op == "poplast":
                opts.pop()
            elif op == "div":
                div = st[1]
            elif op == "minw":
                minw = st[1]
            else:
                raise core.MachineryError("unknown colseq step " + str(op))
        return out

    def impl_colseq(self, c):
        urwid = U()["urwid"]
        log = []
        built = [self.col_child_id(k, a, log, i) for i, (k, a) in enumerate(c["opts"])]
        cols = urwid.Columns([e for e, _w in built], dividechars=c["div"], min_width=c["minw"])
        cols.focus_position = c["focus"]
        cfgs = iter(self.colseq_configs(c))
        layouts = []
        for st in c["steps"]:
            op = st[0]
            if op == "layout":
                layouts.append(self.observe_cols(cols, next(cfgs), log))
            elif op == "focus":
                cols.focus_position = st[1]
            elif op == "setpack":
                # the packed child changes its natural size (like Text.set_text): only the child is invalidated
                w = cols.contents[st[1]][0]
                if w.nat is not None:
                    w.nat = st[2]
                else:
                    w.fixed = (st[2], 1)
                w._invalidate()
            elif op == "setopt":
                entry, w = self.col_child_id(st[2], st[3], log, st[1])
                cols.contents[st[1]] = (w, cols.options(*(("pack", None) if entry[0] == "pack" else (entry[0], entry[1]))))
            elif op == "append":
                entry, w = self.col_child_id(st[1], st[2], log, len(cols.contents))
                cols.contents.append((w, cols.options(*(("pack", None) if entry[0] == "pack" else (entry[0], entry[1])))))
            elif op == "poplast":
                del cols.contents[-1]
            elif op == "div":
                # plain attributes: the documented way to have them take effect is to invalidate the widget
                cols.dividechars = st[1]
                cols._invalidate()
            elif op == "minw":
                cols.min_width = st[1]
                cols._invalidate()
        return {"layouts": layouts}

    @staticmethod
    def pileseq_configs(c):
        opts = [list(o) for o in c["opts"]]
        focus = c["focus"]
        out = []
        for st in c["steps"]:
            op = st[0]
            if op == "layout":
                out.append({"k": "pile", "opts": [list(o) for o in opts], "maxcol": c["maxcol"], "maxrow": st[1], "focus": focus})
            elif op == "focus":
                focus = st[1]
            elif op == "setpack":
                opts[st[1]][1] = st[2]
            elif op == "setopt":
                opts[st[1]] = [st[2], st[3]]
            elif op == "append":
                opts.append([st[1], st[2]])
            else:
                raise core.MachineryError("unknown pileseq step " + str(op))
        return out

    def impl_pileseq(self, c):
        urwid = U()["urwid"]
        log = []
        built = [self.pile_child(k, a, log, i) for i, (k, a) in enumerate(c["opts"])]
        pile = urwid.Pile([e for e, _w in built])
        pile.focus_position = c["focus"]
        cfgs = iter(self.pileseq_configs(c))
        layouts = []
        for st in c["steps"]:
            op = st[0]
            if op == "layout":
                layouts.append(self.observe_pile(pile, next(cfgs)))
            elif op == "focus":
                pile.focus_position = st[1]
            elif op == "setpack":
                w = pile.contents[st[1]][0]
                if "fixed" in w.sizing():
                    w.fixed = (w.fixed[0], st[2])
                else:
                    w.nrows = w.nrows_narrow = st[2]
                w._invalidate()
            elif op in ("setopt", "append"):
                k, a = (st[2], st[3]) if op == "setopt" else (st[1], st[2])
                entry, w = self.pile_child(k, a, log, 0)
                o = pile.options(*(("pack", None) if entry[0] == "pack" else (entry[0], entry[1])))
                if op == "setopt":
                    pile.contents[st[1]] = (w, o)
                else:
                    pile.contents.append((w, o))
        return {"layouts": layouts}

    @staticmethod
    def gridseq_configs(c):
        cells = list(c["cells"])
        cw, hsep, vsep, align, focus = c["cw"], c["hsep"], c["vsep"], c["align"], c["focus"]
        out = []
        for st in c["steps"]:
            op = st[0]
            if op == "layout":
                out.append({"k": "grid", "cells": list(cells), "cw": cw, "hsep": hsep, "vsep": vsep, "maxcol": st[1],
                            "focus": focus, "align": align})
            elif op == "cw":
                cw = st[1]
                cells = [cw] * len(cells)          # "Setting this value affects all cells"
            elif op == "hsep":
                hsep = st[1]
            elif op == "vsep":
                vsep = st[1]
            elif op == "align":
                align = st[1]
            elif op == "append":
                cells.append(cw)                    # options() default = the configured cell width
            elif op == "focus":
                focus = st[1]
            else:
                raise core.MachineryError("unknown gridseq step " + str(op))
        return out

    def impl_gridseq(self, c):
        urwid = U()["urwid"]
        Spy = U()["Spy"]
        gf = urwid.GridFlow([], c["cw"], c["hsep"], c["vsep"], c["align"])
        for i, width in enumerate(c["cells"]):
            gf.contents.append((Spy(("flow",), tag=i), gf.options("given", width)))
        if c["cells"]:
            gf.focus_position = c["focus"]
        layouts = []
        for st in c["steps"]:
            op = st[0]
            if op == "layout":
                res = self.observe_grid(gf, st[1], True)
                d = gf.get_display_widget((st[1],))
                if "rows" in res and isinstance(d, urwid.Pile):
                    aligns = {str(getattr(w.align, "value", w.align)) for w, _o in d.contents if isinstance(w, urwid.Padding)}
                    res["align_ok"] = aligns <= {gf.align if isinstance(gf.align, str) else str(getattr(gf.align, "value", gf.align))}
                else:
                    res["align_ok"] = True
                res["cell_width"] = gf.cell_width
                layouts.append(res)
            elif op == "cw":
                gf.cell_width = st[1]
            elif op == "hsep":
                gf.h_sep = st[1]
                gf._invalidate()
            elif op == "vsep":
                gf.v_sep = st[1]
                gf._invalidate()
            elif op == "align":
                gf.align = st[1]
                gf._invalidate()
            elif op == "append":
                gf.contents.append((Spy(("flow",), tag=len(gf.contents)), gf.options()))
            elif op == "focus":
                gf.focus_position = st[1]
        return {"layouts": layouts}

    SEQ = {"colseq": "colseq_configs", "pileseq": "pileseq_configs", "gridseq": "gridseq_configs"}

    def seq_configs(self, c):
        return getattr(self, self.SEQ[c["k"]])(c)

    # ------------------------------------------------------------------ wire format
    @staticmethod
    def enc_padcfg(c):
        return [AT[c["at"]], c["aa"] or 0, WT[c["wt"]], c["wa"] or 0] + oz(c["minw"]) + [c["left"], c["right"]]

    @staticmethod
    def enc_fillcfg(c):
        return [VT[c["vt"]], c["va"] or 0, WT[c["ht"]], c["ha"] or 0] + oz(c["minh"]) + [c["top"], c["bottom"]]

    def encode(self, c):
        k = c["k"]
        if k == "iscale":
            return [1, c["v"], c["vr"], c["out"]]
        if k == "clrp":
            return [2, c["maxcol"]] + self.enc_padcfg(c)
        if k == "ctbf":
            return [3, c["maxrow"]] + self.enc_fillcfg(c)
        if k == "cols":
            l = [4, len(c["opts"])]
            for kind, a in c["opts"]:
                # a PACK child is represented by the width its pack() answers (flow stub: min(natural, maxcol))
                l += [CK[kind], min(a, c["maxcol"]) if kind == "packflow" else a]
            return l + [c["div"], c["minw"], c["focus"], c["maxcol"]]
        if k == "pile":
            l = [5, len(c["opts"])]
            for kind, a in c["opts"]:
                l += [CK[kind], a]
            return l + [c["maxrow"]]
        if k == "pad":
            return [6] + self.enc_padcfg(c) + oz(c["size"]) + [c["pf"], c["natw"]]
        if k == "fill":
            return [7] + self.enc_fillcfg(c) + oz(c["maxrow"]) + [c["crows"]]
        if k == "ov":
            return [8] + self.enc_padcfg(c) + self.enc_fillcfg(c) + [c["maxcol"], c["maxrow"], c["pw"], c["ph"], c["fr"],
                                                                      c.get("frn", c["fr"]), c.get("thr", 0)]
        if k == "colseq":
            # the stateful model (width cache + _invalidate) runs the history itself
            def pc(kind, a):
                return [CK[kind], a, 1 if kind == "packflow" else 0]
            out = [11, len(c["opts"])]
            for kind, a in c["opts"]:
                out += pc(kind, a)
            out += [c["div"], c["minw"], c["focus"]]
            for st in c["steps"]:
                op = st[0]
                if op == "layout":
                    out += [1, st[1]]
                elif op == "focus":
                    out += [2, st[1]]
                elif op == "setpack":
                    out += [3, st[1], st[2]]
                elif op == "setopt":
                    out += [4, st[1]] + pc(st[2], st[3])
                elif op == "append":
                    out += [5] + pc(st[1], st[2])
                elif op == "poplast":
                    out += [6]
                elif op == "div":
                    out += [7, st[1], 9]       # impl_colseq: attribute assignment followed by _invalidate()
                elif op == "minw":
                    out += [8, st[1], 9]
            return out
        if k in self.SEQ:
            out = [10]
            for cfg in self.seq_configs(c):
                sub = self.encode(cfg)
                out += [len(sub)] + sub
            return out
        if k == "grid":
            return [9, c["maxcol"], c["hsep"], AT[c.get("align", "left")], c["cw"], c["focus"], len(c["cells"])] + list(c["cells"])
        raise core.MachineryError("unknown case kind " + str(k))

    def decode(self, c, ints):
        k = c["k"]
        bad = {"malformed": ints[:40]}
        if k in self.SEQ:
            layouts, pos = [], 0
            try:
                for cfg in self.seq_configs(c):
                    n = ints[pos]
                    sub = self.decode(cfg, ints[pos + 1:pos + 1 + n])
                    pos += 1 + n
                    if k == "gridseq" and "rows" in sub:
                        sub["align_ok"] = True
                        sub["cell_width"] = cfg["cw"]
                    if "err" in sub:
                        return sub           # the implementation result of a history that raised is {"err": ...}
                    layouts.append(sub)
            except IndexError:
                return bad
            return {"layouts": layouts}
        if not ints or ints[0] not in (0, 1):
            if k != "grid":
                return bad
        if k != "grid" and ints[0] == 1:
            return {"err": ERRN.get(ints[1], "?")}
        try:
            if k == "iscale":
                return {"r": ints[1]}
            if k == "clrp":
                return {"lr": ints[1:3]}
            if k == "ctbf":
                return {"tb": ints[1:3]}
            if k == "cols":
                n = ints[1]
                widths = ints[2:2 + n]
                rest = ints[2 + n:]
                m = rest[0]
                rendered = [[rest[1 + 2 * j], rest[2 + 2 * j]] for j in range(m)]
                return {"widths": widths, "rendered": rendered if c["maxcol"] >= 1 else None, "agree": True}
            if k == "pile":
                n = ints[1]
                return {"rows": ints[2:2 + n], "agree": True}
            if k == "pad":
                child = ints[3] if (len(ints) > 3 and self.pad_renders(c)) else None
                return {"lr": ints[1:3], "child": child}
            if k == "fill":
                t, b = ints[1:3]
                child = None
                if c["maxrow"] is not None and c["ht"] != "pack" and c["maxrow"] >= 1 and c["maxcol"] >= 1:
                    child = [c["maxcol"], c["maxrow"] - t - b]     # Filler.render: (maxcol, maxrow - top - bottom)
                return {"tb": [t, b], "child": child}
            if k == "ov":
                n = ints[5]
                l_, r_ = ints[1:3]
                asked = (c["maxcol"] - l_ - r_) if (c["wt"] != "pack" and c["ht"] == "pack") else None
                x, y, w, h = ints[6 + n:10 + n]
                return {"lrtb": ints[1:5], "tws": ints[6:6 + n], "rows_asked_at": asked,
                        "box": [x, y, w, h] if self.ov_box_guard(c, x, y, w, h) else None}
            if k == "grid":
                it = iter(ints)
                natw = next(it)
                nrows = next(it)
                rows = []
                for _ in range(nrows):
                    pw, le, ri = next(it), next(it), next(it)
                    m = next(it)
                    row = [[next(it), next(it)] for _ in range(m)]
                    if next(it) == 0:
                        inner = [next(it) for _ in range(next(it))]
                    else:
                        inner = "err:" + ERRN.get(next(it), "?")
                    rows.append({"pad": pw, "cells": row, "hsep": c["hsep"], "lr": [le, ri], "inner": inner})
                return {"rows": rows, "natw": natw}
        except (IndexError, StopIteration):
            return bad
        return bad

    # ------------------------------------------------------------------ oracle (from the property text)
    def oracle(self, c, res):
        if c["k"] in self.SEQ:
            return self.oracle_seq(c, res)
        if "err" in res:
            return self.oracle_err(c, res)
        return getattr(self, "oracle_" + c["k"])(c, res)

    def oracle_seq(self, c, res):
        """Every layout of a history is judged like a fresh layout of the configuration then in force: what the widget did
        before (earlier layouts, focus moves, children that changed size, reconfiguration) must not show."""
        cfgs = self.seq_configs(c)
        if "err" in res:
            if all(self.cols_in_statement(cfg) for cfg in cfgs if cfg["k"] in ("cols", "pile")) and \
                    all(any(kk == "weight" for kk, _ in cfg["opts"]) for cfg in cfgs if cfg["k"] == "pile"):
                return [f"{c['k']}: raised {res['err']} during a history inside the statement"]
            return []
        msgs = []
        for n, (cfg, sub) in enumerate(zip(cfgs, res["layouts"])):
            for m in self.oracle(cfg, sub):
                msgs.append(f"layout#{n} of a history: {m}")
            if cfg["k"] == "grid" and "rows" in sub:
                if sub.get("cell_width") != cfg["cw"]:
                    msgs.append(f"layout#{n} of a history: grid: cell_width reads {sub.get('cell_width')}, configured {cfg['cw']}")
        return msgs

    def oracle_err(self, c, res):
        k = c["k"]
        if k in ("cols", "pile") and self.cols_in_statement(c) and (k == "cols" or any(kk == "weight" for kk, _ in c["opts"])):
            return [f"{k}: raised {res['err']} on an input inside the statement"]
        if k in ("clrp", "ctbf", "iscale") and self.align_in_statement(c):
            return [f"{k}: raised {res['err']} on an input inside the statement"]
        return []

    @staticmethod
    def cols_in_statement(c):
        ok = all((k in ("given",) and a >= 1) or (k in ("pack", "packflow", "packfixed") and a >= 0) or (k == "weight" and a >= 1)
                 for k, a in c["opts"])
        if c["k"] == "cols":
            return ok and c["opts"] and c["div"] >= 0 and c["minw"] >= 0 and c["maxcol"] >= 0
        return ok and c["maxrow"] >= 0

    @staticmethod
    def align_in_statement(c):
        k = c["k"]
        if k == "iscale":
            return c["vr"] >= 2 and c["out"] >= 1 and 0 <= c["v"] <= c["vr"] - 1
        return True

    def oracle_iscale(self, c, res):
        if not self.align_in_statement(c):
            return []
        r = res["r"]
        msgs = []
        if not (0 <= r <= c["out"] - 1):
            msgs.append(f"int_scale result {r} outside [0, {c['out'] - 1}]")
        # round-half-up of v*(out-1)/(vr-1): |r - exact| <= 1/2
        if abs(Fraction(r) - Fraction(c["v"] * (c["out"] - 1), c["vr"] - 1)) > Fraction(1, 2):
            msgs.append(f"int_scale result {r} is not the rounded value")
        return msgs

    # requested size of the child, as a set of admissible integers (rounding of a percentage either way)
    @staticmethod
    def requested(kind, amount, minimum, avail):
        if kind == "relative":
            x = Fraction(max(avail, 0) * amount, 100)
            fl = x.numerator // x.denominator
            cands = {fl} if x.denominator == 1 else {fl, fl + 1}
            if minimum is not None:
                cands = {max(v, minimum) for v in cands}
            return cands
        return {amount}

    def judge_axis(self, name, total, lo, hi, kind, amount, minimum, fixed_lo, fixed_hi, align, clip_allowed):
        """lo/hi = margins returned; total = available; the child gets total - lo - hi."""
        msgs = []
        if total < 0 or fixed_lo < 0 or fixed_hi < 0 or not (0 <= align <= 100) or amount < 0:
            return msgs
        if minimum is not None and minimum < 0:
            return msgs
        child = total - lo - hi
        want = self.requested(kind, amount, minimum, total - fixed_lo - fixed_hi)
        if kind == "clip" and clip_allowed:
            # clipping mode: margins may be negative, but margins + child fill the space exactly
            w = amount
            if lo + w + hi != total:
                msgs.append(f"{name}: margins {lo}+{hi} plus child {w} do not fill {total}")
            if fixed_lo + w + fixed_hi <= total:
                if lo < fixed_lo or hi < fixed_hi:
                    msgs.append(f"{name}: fixed margins not kept ({lo},{hi}) < ({fixed_lo},{fixed_hi})")
                spare = total - w - fixed_lo - fixed_hi
                if abs(Fraction(lo - fixed_lo) - Fraction(align * spare, 100)) > 1:
                    msgs.append(f"{name}: spare space {spare} not split by alignment {align}% (margin {lo})")
            return msgs
        if lo < 0 or hi < 0:
            msgs.append(f"{name}: negative margin ({lo},{hi})")
        if child < 0:
            msgs.append(f"{name}: child handed a negative dimension {child}")
        fits = [w for w in want if fixed_lo + w + fixed_hi <= total]
        if child in want and fixed_lo + child + fixed_hi <= total:
            if lo < fixed_lo or hi < fixed_hi:
                msgs.append(f"{name}: fixed margins not kept ({lo},{hi}) < ({fixed_lo},{fixed_hi})")
            spare = total - child - fixed_lo - fixed_hi
            if abs(Fraction(lo - fixed_lo) - Fraction(align * spare, 100)) > 1:
                msgs.append(f"{name}: spare space {spare} not split by alignment {align}% (margin {lo})")
        elif len(fits) == len(want):
            msgs.append(f"{name}: child gets {child}, requested {sorted(want)} fits beside the margins in {total}")
        else:
            # the requested size does not fit (or only one of its two roundings does): the child gets what remains
            w = min(want)
            beside = max(total - fixed_lo - fixed_hi, 0)
            if child > max(want) or child < min(w, beside) or child > total:
                msgs.append(f"{name}: child gets {child}, requested {sorted(want)} does not fit; remaining space is {beside}..{total}")
        return msgs

    @staticmethod
    def align_pct(at, aa):
        return {"left": 0, "center": 50, "right": 100, "top": 0, "middle": 50, "bottom": 100}.get(at, aa)

    def oracle_clrp(self, c, res):
        l, r = res["lr"]
        return self.judge_axis("clrp", c["maxcol"], l, r, c["wt"], c["wa"], c["minw"] if c["wt"] == "relative" else None,
                               c["left"], c["right"], self.align_pct(c["at"], c["aa"]), True)

    def oracle_ctbf(self, c, res):
        t, b = res["tb"]
        # the filler never clips: a 'clip' height is treated like a given one
        kind = "given" if c["ht"] == "clip" else c["ht"]
        return self.judge_axis("ctbf", c["maxrow"], t, b, kind, c["ha"], c["minh"] if c["ht"] == "relative" else None,
                               c["top"], c["bottom"], self.align_pct(c["vt"], c["va"]), False)

    def oracle_pad(self, c, res):
        l, r = res["lr"]
        msgs = []
        if isinstance(res["child"], str):
            return [f"pad: render raised {res['child']}"]
        if c["size"] is None:
            # fixed render: the widget computes its own total; margins + child = that total
            if c["wt"] == "given" and c["left"] >= 0 and c["right"] >= 0 and c["wa"] >= 0 and 0 <= self.align_pct(c["at"], c["aa"]) <= 100:
                if (l, r) != (c["left"], c["right"]):
                    msgs.append(f"pad: fixed render of a given width has margins ({l},{r}), expected the fixed margins")
            return msgs
        maxcol = c["size"]
        if res["child"] is not None and res["child"] != maxcol - l - r:
            msgs.append(f"pad: child rendered {res['child']} columns wide, margins leave {maxcol - l - r}")
        if res["child"] is not None and res["child"] < 0:
            msgs.append(f"pad: child handed a negative width {res['child']}")
        if c["wt"] == "clip":
            kind, amount, minimum = "clip", c["pf"], None
        elif c["wt"] == "pack":
            if c["natw"] < 0:
                return msgs
            avail = max(maxcol - c["left"] - c["right"], c["minw"] or 0)
            kind, amount, minimum = "given", min(c["natw"], avail), None
        else:
            kind, amount, minimum = c["wt"], c["wa"], (c["minw"] if c["wt"] == "relative" else None)
        return msgs + self.judge_axis("pad", maxcol, l, r, kind, amount, minimum, c["left"], c["right"],
                                      self.align_pct(c["at"], c["aa"]), True)

    def oracle_fill(self, c, res):
        t, b = res["tb"]
        msgs = []
        if isinstance(res["child"], str):
            return [f"fill: render raised {res['child']}"]
        if c["maxrow"] is None:
            return msgs
        if res["child"] is not None:
            if res["child"] != [c["maxcol"], c["maxrow"] - t - b]:
                msgs.append(f"fill: child rendered at {res['child']}, margins leave {[c['maxcol'], c['maxrow'] - t - b]}")
            if min(res["child"]) < 0:
                msgs.append(f"fill: child handed a negative dimension {res['child']}")
        if c["ht"] == "pack":
            kind, amount, minimum = "given", c["crows"], None
        else:
            kind, amount, minimum = c["ht"], c["ha"], (c["minh"] if c["ht"] == "relative" else None)
        return msgs + self.judge_axis("fill", c["maxrow"], t, b, kind, amount, minimum, c["top"], c["bottom"],
                                      self.align_pct(c["vt"], c["va"]), False)

    def oracle_ov(self, c, res):
        l, r, t, b = res["lrtb"]
        tws = res["tws"]
        msgs = []
        box = res.get("box")
        if isinstance(box, str):
            msgs.append(f"ov: rendering the overlay: {box}")
        elif box:
            x, y, w, h = box
            # margins plus the visible part of the child exactly fill the available space
            if x != max(l, 0) or y != max(t, 0) or x + w + max(r, 0) != c["maxcol"] or y + h + max(b, 0) != c["maxrow"]:
                msgs.append(f"ov: top widget shown at {box}, margins are ({l},{r},{t},{b}) in {c['maxcol']}x{c['maxrow']}")
        if c["wt"] != "pack" and c["ht"] == "pack":
            # the flow top widget's height depends on the width it is rendered with
            c = dict(c)
            c["fr"] = c.get("frn", c["fr"]) if (c["maxcol"] - l - r) < c.get("thr", 0) else c["fr"]
        if c["maxcol"] < 0 or c["maxrow"] < 0:
            return msgs
        fixed = c["wt"] == "pack"
        if fixed:
            if tws:
                msgs.append(f"ov: fixed top widget handed size {tws}")
            msgs += self.judge_axis("ov-cols", c["maxcol"], l, r, "clip", c["pw"], None, c["left"], c["right"],
                                    self.align_pct(c["at"], c["aa"]), True)
            # rows: margins + the packed height fill the rows (bottom may go negative = clipped)
            if c["ph"] > 0 and c["top"] >= 0 and c["bottom"] >= 0 and t + c["ph"] + b != c["maxrow"]:
                msgs.append(f"ov-rows: margins {t}+{b} plus fixed height {c['ph']} do not fill {c['maxrow']}")
            return msgs
        if any(v < 0 for v in tws):
            if c["left"] >= 0 and c["right"] >= 0 and c["top"] >= 0 and c["bottom"] >= 0 and c["wa"] >= 0 and (c["ha"] or 0) >= 0 \
                    and (c["minw"] is None or c["minw"] >= 0) and (c["minh"] is None or c["minh"] >= 0):
                msgs.append(f"ov: top widget handed a negative dimension {tws}")
        if tws and tws[0] != c["maxcol"] - l - r:
            msgs.append(f"ov: top widget gets {tws[0]} columns, margins leave {c['maxcol'] - l - r}")
        msgs += self.judge_axis("ov-cols", c["maxcol"], l, r, c["wt"], c["wa"], c["minw"] if c["wt"] == "relative" else None,
                                c["left"], c["right"], self.align_pct(c["at"], c["aa"]), False)
        if c["ht"] == "pack":
            if len(tws) != 1:
                msgs.append(f"ov: flow top widget handed size {tws}")
            if c["fr"] >= 0 and c["top"] >= 0 and c["bottom"] >= 0 and c["fr"] > c["maxrow"] and t + c["fr"] + b != c["maxrow"]:
                msgs.append(f"ov-rows: margins {t}+{b} plus flow height {c['fr']} do not fill {c['maxrow']}")
            if c["fr"] <= c["maxrow"]:
                msgs += self.judge_axis("ov-rows", c["maxrow"], t, b, "given", c["fr"], None, c["top"], c["bottom"],
                                        self.align_pct(c["vt"], c["va"]), False)
        else:
            if len(tws) == 2 and tws[1] != c["maxrow"] - t - b:
                msgs.append(f"ov: top widget gets {tws[1]} rows, margins leave {c['maxrow'] - t - b}")
            msgs += self.judge_axis("ov-rows", c["maxrow"], t, b, c["ht"], c["ha"], c["minh"] if c["ht"] == "relative" else None,
                                    c["top"], c["bottom"], self.align_pct(c["vt"], c["va"]), False)
        return msgs

    def oracle_cols(self, c, res):
        if not self.cols_in_statement(c):
            return []
        msgs = []
        opts, div, minw, maxcol, f = c["opts"], c["div"], c["minw"], c["maxcol"], c["focus"]
        ws = list(res["widths"])
        n = len(opts)
        if not res["agree"]:
            msgs.append("cols: get_column_sizes/render disagree with column_widths")
        if len(ws) > n:
            return msgs + [f"cols: {len(ws)} widths for {n} columns"]
        if any((not isinstance(w, int)) or w < 0 for w in ws):
            return msgs + [f"cols: negative or non-integer width in {ws}"]
        full = ws + [0] * (n - len(ws))            # columns beyond the list are not shown
        own = [min(a, maxcol) if k == "packflow" else (minw if k == "weight" else a) for k, a in opts]
        for i, (k, a) in enumerate(opts):
            if k != "weight" and full[i] not in (0, own[i]):
                msgs.append(f"cols: {k} column {i} has width {full[i]}, neither its own {own[i]} nor hidden")
        if res["rendered"] is not None:
            exp = [[i, w] for i, w in enumerate(full) if w > 0]
            if res["rendered"] != exp:
                msgs.append(f"cols: children rendered at {res['rendered']}, widths say {exp}")
        vis = [w for w in full if w > 0]
        total = sum(vis) + div * max(0, len(vis) - 1)
        if total > maxcol:
            msgs.append(f"cols: visible columns plus dividers need {total} > {maxcol}")
        wvis = [i for i, (k, a) in enumerate(opts) if k == "weight" and full[i] > 0]
        # a zero-width slot (min_width = 0, or a packed child reporting width 0) still takes a divider while
        # hidden; whether that counts as "not filled" is not settled by the statement: observation only
        zero_slots = minw == 0 or any(k in ("pack", "packflow") and own[i] == 0 for i, (k, a) in enumerate(opts))
        if wvis and total != maxcol and not zero_slots:
            msgs.append(f"cols: a weighted column is shown but {total} of {maxcol} columns are used")
        if own[f] <= maxcol and own[f] >= 1 and full[f] == 0:
            msgs.append(f"cols: focus column {f} (own size {own[f]}) hidden although it fits in {maxcol}")
        # proportional share, unless the minimum width intervenes (a column sitting at min_width may have been raised to it)
        if wvis and all(full[i] > minw for i in wvis):
            share = sum(full[i] for i in wvis)
            wsum = sum(opts[i][1] for i in wvis)
            devs = [abs(Fraction(full[i]) - Fraction(share * opts[i][1], wsum)) for i in wvis]
            worst = max(range(len(wvis)), key=lambda t: devs[t])
            i = wvis[worst]
            if devs[worst] > Fraction(max(len(wvis) - 1, 2), 2):
                # beyond what sequential rounding can explain ((k-1)/2, proved for the model's loop)
                msgs.append(f"cols: weighted column {i} gets {full[i]} of {share}, far from its proportional share "
                            f"{float(Fraction(share * opts[i][1], wsum)):.3f} (more than (k-1)/2 off, k = {len(wvis)})")
            elif devs[worst] > 1:
                msgs.append(f"cols: weighted column {i} gets {full[i]} of {share}, its proportional share is "
                            f"{float(Fraction(share * opts[i][1], wsum)):.3f} (weighted columns shown: {len(wvis)})")
        return msgs

    def oracle_pile(self, c, res):
        if not self.cols_in_statement(c):
            return []
        msgs = []
        opts, maxrow = c["opts"], c["maxrow"]
        rows = res["rows"]
        if not res["agree"]:
            msgs.append("pile: get_rows_sizes disagrees with get_item_rows")
        if len(rows) != len(opts):
            return msgs + [f"pile: {len(rows)} row counts for {len(opts)} items"]
        if any((not isinstance(r, int)) or r < 0 for r in rows):
            return msgs + [f"pile: negative or non-integer rows in {rows}"]
        for i, (k, a) in enumerate(opts):
            if k != "weight" and rows[i] != a:
                msgs.append(f"pile: {k} item {i} has {rows[i]} rows, its own size is {a}")
        fixed = sum(a for k, a in opts if k != "weight")
        widx = [i for i, (k, a) in enumerate(opts) if k == "weight"]
        if widx and fixed <= maxrow and sum(rows) != maxrow:
            msgs.append(f"pile: rows {rows} sum to {sum(rows)}, available {maxrow}")
        if widx and fixed <= maxrow:
            share = sum(rows[i] for i in widx)
            wsum = sum(opts[i][1] for i in widx)
            devs = [abs(Fraction(rows[i]) - Fraction(share * opts[i][1], wsum)) for i in widx]
            worst = max(range(len(widx)), key=lambda t: devs[t])
            i = widx[worst]
            if devs[worst] > Fraction(max(len(widx) - 1, 2), 2):
                msgs.append(f"pile: weighted item {i} gets {rows[i]} of {share}, far from its proportional share "
                            f"{float(Fraction(share * opts[i][1], wsum)):.3f} (more than (k-1)/2 off, k = {len(widx)})")
            elif devs[worst] > 1:
                msgs.append(f"pile: weighted item {i} gets {rows[i]} of {share}, its proportional share is "
                            f"{float(Fraction(share * opts[i][1], wsum)):.3f} (weighted items: {len(widx)})")
        return msgs

    def oracle_grid(self, c, res):
        msgs = []
        if c["maxcol"] < 1 or c["hsep"] < 0 or any(w < 1 for w in c["cells"]):
            return msgs
        order = [cell[0] for row in res["rows"] for cell in row["cells"]]
        if order != list(range(len(c["cells"]))):
            msgs.append(f"grid: cells shown in order {order}")
            return msgs
        for row in res["rows"]:
            if not row["cells"]:
                msgs.append("grid: empty row")
                continue
            for i, w in row["cells"]:
                conf = c["cells"][i]
                if conf <= c["maxcol"] and w != conf:
                    msgs.append(f"grid: cell {i} shown {w} wide, configured {conf}")
                if conf > c["maxcol"] and not (1 <= w <= c["maxcol"]):
                    msgs.append(f"grid: cell {i} (configured {conf}) shown {w} wide in {c['maxcol']} columns")
            need = sum(w for _, w in row["cells"]) + row["hsep"] * (len(row["cells"]) - 1)
            if row["hsep"] != c["hsep"]:
                msgs.append(f"grid: row separator {row['hsep']}, configured {c['hsep']}")
            if need > c["maxcol"] and len(row["cells"]) > 1:
                msgs.append(f"grid: row needs {need} > {c['maxcol']} columns")
            if row["pad"] != need:
                msgs.append(f"grid: row padded to width {row['pad']}, cells need {need}")
            if "inner" in row and all(c["cells"][i] <= c["maxcol"] for i, _ in row["cells"]):
                # the row's own Columns must show every cell at that width (nothing dropped or cut off)
                if row["inner"] != [w for _, w in row["cells"]]:
                    msgs.append(f"grid: the row shows its cells at widths {row['inner']}, configured {[w for _, w in row['cells']]}")
                le, ri = row["lr"]
                if le < 0 or ri < 0 or le + need + ri != c["maxcol"]:
                    msgs.append(f"grid: row of width {need} placed with margins ({le},{ri}) in {c['maxcol']} columns")
        if "natw" in res and c["cells"] and all(w == c["cw"] for w in c["cells"]):
            n = len(c["cells"])
            if res["natw"] != n * c["cw"] + (n - 1) * c["hsep"]:
                msgs.append(f"grid: natural width {res['natw']} for {n} cells of width {c['cw']} separated by {c['hsep']}")
        return msgs

    # ------------------------------------------------------------------ bookkeeping
    def nontrivial(self, c, res):
        if "err" in res:
            return False
        if c["k"] in self.SEQ:
            subs = res["layouts"]
            # a history is non-trivial when two of its layouts differ (something the widget had to recompute)
            return len({core.canon(x) for x in subs}) > 1
        for key in ("widths", "rows", "lr", "tb", "lrtb"):
            if key in res:
                v = res[key]
                if key == "rows" and c["k"] == "grid":
                    return bool(v)
                return any(isinstance(x, int) and x > 0 for x in v)
        return "r" in res

    def signature(self, c, msg):
        return re.sub(r"-?\d+(\.\d+)?", "N", msg)

    def distribution(self, c, res, dist):
        k = c["k"]
        inc(dist, "kind:" + k)
        if k in self.SEQ:
            for st in c["steps"]:
                inc(dist, f"{k}:step:{st[0]}")
            if "err" in res:
                inc(dist, f"{k}:err:{res['err']}")
            elif k == "colseq":
                cfgs = self.seq_configs(c)
                for a, b, ra, rb in zip(cfgs, cfgs[1:], res["layouts"], res["layouts"][1:]):
                    if a["maxcol"] == b["maxcol"]:
                        inc(dist, "colseq:relayout-at-same-width")
                        if ra != rb:
                            inc(dist, "colseq:relayout-at-same-width-changed-the-widths")
                        if a["focus"] != b["focus"] and len(ra["widths"]) < len(a["opts"]) and b["focus"] >= len(ra["widths"]):
                            inc(dist, "colseq:focus-moved-onto-a-cut-off-column")
            return
        if "err" in res:
            inc(dist, f"{k}:err:{res['err']}")
            return
        if k == "cols":
            inc(dist, "cols:n=%d" % len(c["opts"]))
            ws = res["widths"]
            if len(ws) < len(c["opts"]):
                inc(dist, "cols:right-columns-cut")
            if any(w == 0 for w in ws):
                inc(dist, "cols:left-columns-dropped-or-zero")
            nw = sum(1 for i, (kk, a) in enumerate(c["opts"]) if kk == "weight" and i < len(ws) and ws[i] > 0)
            inc(dist, "cols:weighted-shown=%d" % min(nw, 5))
            if self.cols_in_statement(c) and nw:
                vis = [w for w in ws if w > 0]
                if sum(vis) + c["div"] * max(0, len(vis) - 1) != c["maxcol"]:
                    inc(dist, "obs:zero-width slot (min_width=0 or empty packed child): weighted shown but not filled exactly")
            if self.cols_in_statement(c) and c["minw"] == 0 and c["opts"][c["focus"]][0] == "weight" \
                    and (c["focus"] >= len(ws) or ws[c["focus"]] == 0):
                inc(dist, "obs:min_width=0 weighted focus column has zero width")
            if not self.cols_in_statement(c):
                inc(dist, "cols:outside-statement")
            wv = [i for i, (kk, a) in enumerate(c["opts"]) if kk == "weight" and i < len(ws) and ws[i] > 0]
            if len(wv) >= 2 and all(ws[i] > c["minw"] for i in wv):
                inc(dist, "cols:proportional-clause-judged(>=2 weighted, none at min_width)")
        elif k == "pile":
            inc(dist, "pile:n=%d" % len(c["opts"]))
        elif k in ("clrp", "pad", "ov"):
            if k == "ov" and isinstance(res.get("box"), list):
                inc(dist, "ov:placement-of-the-top-canvas-observed")
            inc(dist, f"{k}:width={c['wt']}")
            inc(dist, f"{k}:align={c['at']}")
        elif k in ("ctbf", "fill"):
            inc(dist, f"{k}:height={c['ht']}")

    # ------------------------------------------------------------------ generators
    AMOUNTS = {"given": [1, 2, 3, 5], "pack": [0, 2], "weight": [1, 2, 3, 7]}

    def col_alphabet(self, small=False):
        if small:
            return [("given", 1), ("given", 3), ("pack", 2), ("weight", 1), ("weight", 2), ("weight", 7)]
        return [(k, a) for k in ("given", "pack", "weight") for a in self.AMOUNTS[k]]

    def exhaustive_cols(self, nmax, alphabet, maxcols, divs, minws):
        for n in range(1, nmax + 1):
            for opts in itertools.product(alphabet, repeat=n):
                o = [list(x) for x in opts]
                for div in divs:
                    for minw in minws:
                        for maxcol in maxcols:
                            for f in range(n):
                                yield {"k": "cols", "opts": o, "div": div, "minw": minw, "focus": f, "maxcol": maxcol}

    @staticmethod
    def bint(rng, hi, lo=0):
        """boundary-biased integer in [lo, hi]"""
        r = rng.random()
        if r < 0.25:
            return rng.choice([lo, lo + 1, min(hi, lo + 2), hi, max(lo, hi - 1)])
        if r < 0.6:
            return rng.randint(lo, min(hi, lo + 12))
        if r < 0.85:
            return rng.randint(lo, min(hi, lo + 200))
        return rng.randint(lo, hi)

    def random_cols(self, rng, big=False):
        n = rng.choice([1, 2, 2, 3, 3, 4, 4, 5, 6, 8])
        opts = []
        for _ in range(n):
            k = rng.choice(["given", "given", "pack", "packflow", "weight", "weight", "weight"])
            if k == "weight":
                a = rng.choice([1, 1, 2, 3, 5, 7, 9, 10, 100, 999, 10 ** 6, rng.randint(1, 10 ** 6)])
            elif k == "given":
                a = self.bint(rng, 10 ** 4 if big else 40, 1)
            else:
                a = self.bint(rng, 10 ** 4 if big else 40, 0)
            opts.append([k, a])
        maxcol = self.bint(rng, 10 ** 4 if big else 80, 0)
        if rng.random() < 0.4:
            # aim near the natural size so that dropping / fitting boundaries are hit
            nat = sum(a if k != "weight" else 1 for k, a in opts)
            maxcol = max(0, nat + rng.randint(-4, 6))
        return {"k": "cols", "opts": opts, "div": rng.choice([0, 1, 1, 2, 3]), "minw": rng.choice([0, 1, 1, 1, 2, 3, 8]),
                "focus": rng.randrange(n), "maxcol": maxcol}

    def float_edge_cols(self, rng):
        """grow * weight just below 2^50 (the documented exactness bound of the float idiom)."""
        w1 = rng.randint(2 ** 36, 2 ** 37 - 1)
        maxcol = rng.randint(2 ** 12, 2 ** 13 - 2)
        opts = [["weight", w1], ["weight", rng.randint(1, 2 ** 37 - 1)]]
        if rng.random() < 0.5:
            opts.append(["weight", rng.randint(1, 2 ** 20)])
        return {"k": "cols", "opts": opts, "div": rng.choice([0, 1]), "minw": 1, "focus": 0, "maxcol": maxcol}

    def random_pile(self, rng):
        n = rng.choice([1, 2, 3, 3, 4, 4, 5, 6])
        opts = []
        for _ in range(n):
            k = rng.choice(["given", "pack", "packfixed", "weight", "weight", "weight"])
            if k == "weight":
                a = rng.choice([1, 1, 2, 3, 5, 7, 9, 10, 100, 10 ** 6, rng.randint(1, 10 ** 6)])
            else:
                a = self.bint(rng, 30, 1 if k == "given" else 0)
            opts.append([k, a])
        maxrow = self.bint(rng, 10 ** 4 if rng.random() < 0.1 else 60, 0)
        return {"k": "pile", "opts": opts, "maxcol": rng.choice([1, 5, 20]), "maxrow": maxrow, "focus": rng.randrange(n)}

    def exhaustive_pile(self, nmax, maxrows):
        alpha = [("given", 1), ("given", 2), ("pack", 0), ("pack", 3), ("weight", 1), ("weight", 2), ("weight", 7)]
        for n in range(1, nmax + 1):
            for opts in itertools.product(alpha, repeat=n):
                for maxrow in maxrows:
                    yield {"k": "pile", "opts": [list(x) for x in opts], "maxcol": 5, "maxrow": maxrow, "focus": 0}

    def random_axis(self, rng, horizontal, wild=False):
        total = self.bint(rng, 10 ** 4 if rng.random() < 0.15 else 60, 0)
        at = rng.choice(["left", "center", "right", "relative", "relative"]) if horizontal else \
            rng.choice(["top", "middle", "bottom", "relative", "relative"])
        aa = rng.choice([0, 1, 10, 25, 33, 49, 50, 51, 67, 99, 100, rng.randint(0, 100)]) if at == "relative" else None
        kinds = ["given", "given", "relative", "relative"] + (["clip"] if horizontal else [])
        wt = rng.choice(kinds)
        if wt == "relative":
            wa = rng.choice([0, 1, 10, 33, 50, 60, 99, 100, rng.randint(0, 100), 150])
        else:
            wa = rng.choice([0, 1, 2, total, total + 1, max(0, total - 1), self.bint(rng, 80, 0), self.bint(rng, 80, 0)])
        minv = rng.choice([None, None, 0, 1, 3, 14, total, total + 2])
        lo = rng.choice([0, 0, 0, 1, 2, 5, self.bint(rng, 30, 0)])
        hi = rng.choice([0, 0, 0, 1, 2, 5, self.bint(rng, 30, 0)])
        if wild:
            lo = rng.choice([lo, -1, -3])
            hi = rng.choice([hi, -1, -2])
            if rng.random() < 0.2:
                total = -rng.randint(1, 5)
            if at == "relative" and rng.random() < 0.3:
                aa = rng.choice([-10, 101, 150])
        return total, at, aa, wt, wa, minv, lo, hi

    def random_clrp(self, rng, wild=False):
        t, at, aa, wt, wa, mn, lo, hi = self.random_axis(rng, True, wild)
        return {"k": "clrp", "maxcol": t, "at": at, "aa": aa, "wt": wt, "wa": wa, "minw": mn, "left": lo, "right": hi}

    def random_ctbf(self, rng, wild=False):
        t, vt, va, ht, ha, mn, lo, hi = self.random_axis(rng, False, wild)
        return {"k": "ctbf", "maxrow": t, "vt": vt, "va": va, "ht": ht, "ha": ha, "minh": mn, "top": lo, "bottom": hi}

    def random_pad(self, rng):
        t, at, aa, wt, wa, mn, lo, hi = self.random_axis(rng, True)
        if rng.random() < 0.25:
            wt, wa = "pack", None
        size = t if rng.random() < 0.85 else None
        if size is None and wt == "relative" and wa == 0:
            wa = 50
        if wt == "clip":
            wa = None
        return {"k": "pad", "at": at, "aa": aa, "wt": wt, "wa": wa or 0, "minw": mn, "left": lo, "right": hi, "size": size,
                "pf": self.bint(rng, 60, 0), "natw": self.bint(rng, 60, 0)}

    def random_fill(self, rng):
        t, vt, va, ht, ha, mn, lo, hi = self.random_axis(rng, False)
        if rng.random() < 0.25:
            ht, ha = "pack", None
        maxrow = t if rng.random() < 0.85 else None
        return {"k": "fill", "vt": vt, "va": va, "ht": ht, "ha": ha or 0, "minh": mn, "top": lo, "bottom": hi,
                "maxcol": rng.choice([1, 7, 30]), "maxrow": maxrow, "crows": self.bint(rng, 40, 0)}

    def random_ov(self, rng):
        t, at, aa, wt, wa, mn, lo, hi = self.random_axis(rng, True)
        t2, vt, va, ht, ha, mh, top, bot = self.random_axis(rng, False)
        if wt == "clip":
            wt, wa = "pack", None
        if wt != "pack" and rng.random() < 0.3:
            ht, ha = "pack", None
        return {"k": "ov", "at": at, "aa": aa, "wt": wt, "wa": wa or 0, "minw": mn, "left": lo, "right": hi,
                "vt": vt, "va": va, "ht": ht, "ha": ha or 0, "minh": mh, "top": top, "bottom": bot,
                "maxcol": t, "maxrow": t2, "pw": self.bint(rng, 60, 0), "ph": rng.choice([0, 1, 1, 2, 5, self.bint(rng, 60, 0)]),
                "fr": self.bint(rng, 60, 0), "frn": self.bint(rng, 60, 0), "thr": rng.choice([0, 0, 1, 3, t, t + 1, self.bint(rng, 60, 0)])}

    def random_grid(self, rng):
        n = rng.choice([0, 1, 2, 3, 5, 8, 13])
        cw = rng.choice([1, 2, 3, 5, 10, 14])
        cells = [cw if rng.random() < 0.8 else rng.choice([1, 2, 7, 20]) for _ in range(n)]
        return {"k": "grid", "cells": cells, "cw": cw, "hsep": rng.choice([0, 1, 1, 2, 3]), "vsep": rng.choice([0, 1, 2]),
                "maxcol": self.bint(rng, 60, 1), "focus": rng.randrange(n) if n else 0}

    # ---- multi-step histories
    def seq_valid(self, c):
        """indices used by the steps are in range for the configuration then in force; at least one layout"""
        try:
            k = c["k"]
            n = len(c["opts"]) if k != "gridseq" else len(c["cells"])
            if n == 0 and k != "gridseq":
                return False
            focus = c["focus"]
            if n and not (0 <= focus < n):
                return False
            kinds = [o[0] for o in c["opts"]] if k != "gridseq" else None
            layouts = 0
            for st in c["steps"]:
                op = st[0]
                if op == "layout":
                    layouts += 1
                elif op == "focus":
                    if not (0 <= st[1] < n):
                        return False
                    focus = st[1]
                elif op == "setpack":
                    if not (0 <= st[1] < n) or not kinds[st[1]].startswith("pack"):
                        return False
                elif op == "setopt":
                    if not (0 <= st[1] < n):
                        return False
                    kinds[st[1]] = st[2]
                elif op == "append":
                    n += 1
                    if kinds is not None:
                        kinds.append(st[1])
                elif op == "poplast":
                    if n < 2 or focus >= n - 1:
                        return False
                    n -= 1
                    kinds.pop()
            return layouts >= 1
        except (KeyError, IndexError, TypeError):
            return False

    def focus_move_histories(self, alphabet, maxcols, divs, minws):
        """lay out, move the focus, lay out again at the same width: every 3-column list, every focus pair"""
        for opts in itertools.product(alphabet, repeat=3):
            o = [list(x) for x in opts]
            for div in divs:
                for minw in minws:
                    for maxcol in maxcols:
                        for f0 in range(3):
                            for f1 in range(3):
                                if f0 != f1:
                                    yield {"k": "colseq", "opts": o, "div": div, "minw": minw, "focus": f0,
                                           "steps": [["layout", maxcol], ["focus", f1], ["layout", maxcol]]}

    def random_colseq(self, rng):
        base = self.random_cols(rng)
        opts = [list(o) for o in base["opts"]]
        n = len(opts)
        focus = base["focus"]
        maxcol = base["maxcol"]
        if rng.random() < 0.6:
            # a width at which some trailing columns are cut off / some leading ones dropped
            nat = sum(a if k != "weight" else base["minw"] for k, a in opts) + base["div"] * (n - 1)
            maxcol = max(1, nat - rng.randint(0, max(1, nat // 2)))
        kinds = [o[0] for o in opts]
        steps = [["layout", maxcol]]
        for _ in range(rng.choice([1, 2, 2, 3, 4])):
            r = rng.random()
            packs = [i for i, k in enumerate(kinds) if k.startswith("pack")]
            if r < 0.35:
                focus = rng.choice([n - 1, 0, rng.randrange(n), rng.randrange(n)])
                steps.append(["focus", focus])
            elif r < 0.6 and packs:
                steps.append(["setpack", rng.choice(packs), self.bint(rng, 30, 0)])
            elif r < 0.7:
                i = rng.randrange(n)
                k = rng.choice(["given", "pack", "packflow", "weight"])
                a = rng.choice([1, 2, 3, 7]) if k == "weight" else self.bint(rng, 20, 1 if k == "given" else 0)
                steps.append(["setopt", i, k, a])
                kinds[i] = k
            elif r < 0.78:
                k = rng.choice(["given", "pack", "weight"])
                steps.append(["append", k, rng.choice([1, 2, 5])])
                kinds.append(k)
                n += 1
            elif r < 0.84 and n >= 2 and focus < n - 1:
                steps.append(["poplast"])
                kinds.pop()
                n -= 1
            elif r < 0.9:
                steps.append(["div", rng.choice([0, 1, 2, 3])])
            elif r < 0.95:
                steps.append(["minw", rng.choice([1, 2, 3, 5])])
            # lay out again, mostly at the same width (that is where a cache shows)
            steps.append(["layout", maxcol if rng.random() < 0.8 else max(0, maxcol + rng.randint(-3, 3))])
        return {"k": "colseq", "opts": opts, "div": base["div"], "minw": base["minw"], "focus": base["focus"], "steps": steps}

    def random_pileseq(self, rng):
        base = self.random_pile(rng)
        opts = [list(o) for o in base["opts"]]
        n = len(opts)
        kinds = [o[0] for o in opts]
        maxrow = base["maxrow"]
        steps = [["layout", maxrow]]
        for _ in range(rng.choice([1, 2, 3])):
            r = rng.random()
            packs = [i for i, k in enumerate(kinds) if k.startswith("pack")]
            if r < 0.3:
                steps.append(["focus", rng.randrange(n)])
            elif r < 0.6 and packs:
                steps.append(["setpack", rng.choice(packs), self.bint(rng, 20, 0)])
            elif r < 0.8:
                i = rng.randrange(n)
                k = rng.choice(["given", "pack", "packfixed", "weight"])
                steps.append(["setopt", i, k, rng.choice([1, 2, 3, 7]) if k == "weight" else self.bint(rng, 12, 1 if k == "given" else 0)])
                kinds[i] = k
            else:
                k = rng.choice(["given", "weight"])
                steps.append(["append", k, rng.choice([1, 2, 5])])
                kinds.append(k)
                n += 1
            steps.append(["layout", maxrow if rng.random() < 0.8 else max(0, maxrow + rng.randint(-3, 3))])
        return {"k": "pileseq", "opts": opts, "maxcol": base["maxcol"], "maxrow": maxrow, "focus": base["focus"], "steps": steps}

    def random_gridseq(self, rng):
        n = rng.choice([1, 2, 3, 5, 8])
        cw = rng.choice([1, 2, 3, 5, 10])
        cells = [cw if rng.random() < 0.85 else rng.choice([1, 2, 7]) for _ in range(n)]
        maxcol = self.bint(rng, 40, 1)
        steps = []
        if rng.random() < 0.7:
            steps.append(["layout", maxcol])
        for _ in range(rng.choice([1, 1, 2, 3])):
            r = rng.random()
            if r < 0.45:
                steps.append(["cw", rng.choice([1, 2, 3, 4, 6, 9, 15])])
            elif r < 0.6:
                steps.append(["hsep", rng.choice([0, 1, 2, 3])])
            elif r < 0.7:
                steps.append(["vsep", rng.choice([0, 1, 2])])
            elif r < 0.8:
                steps.append(["align", rng.choice(["left", "center", "right"])])
            elif r < 0.9:
                steps.append(["append"])
                n += 1
            else:
                steps.append(["focus", rng.randrange(n)])
            steps.append(["layout", maxcol if rng.random() < 0.8 else self.bint(rng, 40, 1)])
        return {"k": "gridseq", "cells": cells, "cw": cw, "hsep": rng.choice([0, 1, 1, 2]), "vsep": rng.choice([0, 1, 2]),
                "align": rng.choice(["left", "center", "right"]), "focus": rng.randrange(n) if cells else 0, "steps": steps}

    def exhaustive_axis(self, horizontal, totals, amounts, margins):
        aligns = [("left", None), ("center", None), ("right", None), ("relative", 0), ("relative", 30), ("relative", 75),
                  ("relative", 100)] if horizontal else \
                 [("top", None), ("middle", None), ("bottom", None), ("relative", 0), ("relative", 30), ("relative", 75),
                  ("relative", 100)]
        sizes = [("given", a) for a in amounts] + [("relative", p) for p in (0, 33, 50, 60, 100)]
        if horizontal:
            sizes += [("clip", a) for a in amounts]
        for total in totals:
            for at, aa in aligns:
                for wt, wa in sizes:
                    for mn in ((None, 0, 3) if wt == "relative" else (None,)):
                        for lo in margins:
                            for hi in margins:
                                if horizontal:
                                    yield {"k": "clrp", "maxcol": total, "at": at, "aa": aa, "wt": wt, "wa": wa, "minw": mn,
                                           "left": lo, "right": hi}
                                else:
                                    yield {"k": "ctbf", "maxrow": total, "vt": at, "va": aa, "ht": wt, "ha": wa, "minh": mn,
                                           "top": lo, "bottom": hi}

    def iscale_cases(self, rng, n):
        for vr in (2, 3, 6, 16, 101, 256):
            for out in (1, 2, 4, 16, 101):
                for v in sorted({0, 1, vr // 2, vr - 2, vr - 1} & set(range(vr))):
                    yield {"k": "iscale", "v": v, "vr": vr, "out": out}
        yield {"k": "iscale", "v": 0, "vr": 1, "out": 5}
        for _ in range(n):
            vr = rng.choice([2, 3, 101, 256, rng.randint(2, 10 ** 4)])
            out = rng.choice([1, 2, 101, rng.randint(1, 10 ** 4), rng.randint(1, 2 ** 30)])
            yield {"k": "iscale", "v": rng.randint(0, vr - 1), "vr": vr, "out": out}

    def cases(self, rng, tier):
        quick = tier == "quick"
        # --- Columns: exhaustive small scope
        if quick:
            yield from self.exhaustive_cols(2, self.col_alphabet(), range(0, 13), (0, 1, 2), (0, 1, 3))
            yield from (c for c in self.exhaustive_cols(3, self.col_alphabet(small=True), (0, 4, 7, 12), (0, 1), (0, 1, 2))
                        if len(c["opts"]) == 3)
            yield from (c for c in self.exhaustive_cols(4, [("given", 2), ("weight", 1), ("weight", 7)], (3, 7, 8, 12), (0, 1), (1, 2))
                        if len(c["opts"]) == 4)
        else:
            yield from self.exhaustive_cols(3, self.col_alphabet(), range(0, 13), (0, 1, 2), (0, 1, 2, 3))
            yield from (c for c in self.exhaustive_cols(4, self.col_alphabet(small=True), range(0, 13), (0, 1, 2), (0, 1, 2, 3))
                        if len(c["opts"]) == 4)
        for _ in range(3000 if quick else 60000):
            yield self.random_cols(rng, big=rng.random() < 0.3)
        for _ in range(200 if quick else 3000):
            yield self.float_edge_cols(rng)
        # zero weights: outside the statement, compared with the model only
        for opts in ([["weight", 0]], [["weight", 0], ["weight", 0]], [["weight", 0], ["weight", 2]], [["given", 2], ["weight", 0]]):
            for maxcol in (0, 1, 5):
                yield {"k": "cols", "opts": opts, "div": 1, "minw": 1, "focus": 0, "maxcol": maxcol}
        # --- Pile
        yield from self.exhaustive_pile(2 if quick else 4, range(0, 10) if quick else range(0, 13))
        if quick:
            yield from (c for c in self.exhaustive_pile(4, (5, 7)) if len(c["opts"]) == 4 and c["opts"][0][0] == "weight")
        for _ in range(1500 if quick else 30000):
            yield self.random_pile(rng)
        for opts in ([["weight", 0]], [["weight", 0], ["weight", 3]], [["given", 2]], []):
            yield {"k": "pile", "opts": opts, "maxcol": 4, "maxrow": 6, "focus": 0}
        # --- translated arithmetic
        yield from self.iscale_cases(rng, 300 if quick else 5000)
        tot = (0, 1, 2, 5, 9) if quick else range(0, 13)
        am = (0, 1, 4, 9, 10) if quick else (0, 1, 2, 4, 7, 9, 10, 13)
        mg = (0, 2) if quick else (0, 1, 3)
        yield from self.exhaustive_axis(True, tot, am, mg)
        yield from self.exhaustive_axis(False, tot, am, mg)
        for _ in range(2000 if quick else 40000):
            yield self.random_clrp(rng)
            yield self.random_ctbf(rng)
        for _ in range(300 if quick else 5000):
            yield self.random_clrp(rng, wild=True)
            yield self.random_ctbf(rng, wild=True)
        # --- Padding / Filler / Overlay / GridFlow through the widgets
        for _ in range(1500 if quick else 30000):
            yield self.random_pad(rng)
            yield self.random_fill(rng)
            yield self.random_ov(rng)
        for _ in range(600 if quick else 10000):
            yield self.random_grid(rng)
        # --- multi-step histories on one widget object (width caches, focus moves, children changing size, setters)
        small3 = [("given", 2), ("given", 5), ("pack", 3), ("weight", 1), ("weight", 3)]
        if quick:
            yield from self.focus_move_histories(small3, (4, 7), (1,), (1,))
        else:
            yield from self.focus_move_histories(small3, range(1, 13), (0, 1, 2), (1, 2))
        for _ in range(2500 if quick else 50000):
            c = self.random_colseq(rng)
            if self.seq_valid(c):
                yield c
        for _ in range(600 if quick else 10000):
            c = self.random_pileseq(rng)
            if self.seq_valid(c):
                yield c
        for _ in range(900 if quick else 15000):
            c = self.random_gridseq(rng)
            if self.seq_valid(c):
                yield c

    def search_cases(self, rng, tier):
        yield from self.exhaustive_cols(3, self.col_alphabet(small=True), range(0, 13), (0, 1, 2), (0, 1, 2, 3))
        yield from self.exhaustive_axis(True, range(0, 13), (0, 1, 2, 4, 7, 9, 10, 13), (0, 1, 3))
        yield from self.exhaustive_axis(False, range(0, 13), (0, 1, 2, 4, 7, 9, 10, 13), (0, 1, 3))
        while True:
            for c in (self.random_colseq(rng), self.random_pileseq(rng), self.random_gridseq(rng)):
                if self.seq_valid(c):
                    yield c
            yield self.random_cols(rng)
            yield self.random_pile(rng)
            yield self.random_clrp(rng)
            yield self.random_ctbf(rng)
            yield self.random_pad(rng)
            yield self.random_fill(rng)
            yield self.random_ov(rng)
            yield self.random_grid(rng)

    def shrink_candidates(self, c):
        k = c["k"]
        if k in self.SEQ:
            steps = c["steps"]
            for i in range(len(steps)):
                d = dict(c)
                d["steps"] = steps[:i] + steps[i + 1:]
                if self.seq_valid(d):
                    yield d
            key = "cells" if k == "gridseq" else "opts"
            if len(c[key]) > 1:
                d = dict(c)
                d[key] = c[key][:-1]
                if self.seq_valid(d):
                    yield d
            for i, st in enumerate(steps):
                if st[0] == "layout" and st[1] > 1:
                    for v in (st[1] // 2, st[1] - 1):
                        d = dict(c)
                        d["steps"] = [list(x) for x in steps]
                        for x in d["steps"]:
                            if x[0] == "layout" and x[1] == st[1]:
                                x[1] = v
                        yield d
                    break
            return
        if k in ("cols", "pile"):
            opts = c["opts"]
            for i in range(len(opts)):
                if len(opts) > 1:
                    d = dict(c)
                    d["opts"] = opts[:i] + opts[i + 1:]
                    d["focus"] = min(c["focus"], len(d["opts"]) - 1)
                    yield d
            for i, (kk, a) in enumerate(opts):
                for a2 in (1, a // 2, a - 1):
                    if 1 <= a2 < a:
                        d = dict(c)
                        d["opts"] = [list(o) for o in opts]
                        d["opts"][i][1] = a2
                        yield d
            for key in ("maxcol", "maxrow", "div", "minw"):
                if key in c and isinstance(c[key], int) and c[key] > 0:
                    for v in (c[key] // 2, c[key] - 1):
                        d = dict(c)
                        d[key] = v
                        yield d
        elif k == "grid":
            if c["cells"]:
                d = dict(c)
                d["cells"] = c["cells"][:-1]
                d["focus"] = min(c["focus"], max(0, len(d["cells"]) - 1))
                yield d
        else:
            for key in ("maxcol", "maxrow", "size", "wa", "ha", "left", "right", "top", "bottom", "pf", "natw", "pw", "ph", "fr",
                        "crows", "aa", "va"):
                if key in c and isinstance(c[key], int) and c[key] > 0:
                    for v in (0, c[key] // 2, c[key] - 1):
                        if v != c[key]:
                            d = dict(c)
                            d[key] = v
                            yield d
            for key in ("minw", "minh"):
                if c.get(key) is not None:
                    d = dict(c)
                    d[key] = None
                    yield d


C19.level_text = (
    "Proved in Coq for ALL integers (no bound on sizes, weights, list or history lengths).  About the definitions re-translated "
    "from the source on every run: int_scale range / monotonicity / endpoints / round-half-up; calculate_left_right_padding and "
    "calculate_top_bottom_filler: margins never negative and child = min(requested, available) outside clipping mode for every "
    "input, margins + child = available exactly in clipping mode, and when the child fits beside the fixed margins it gets the "
    "requested size, both margins are kept and the spare space is split by the alignment percentage to within 1/2.  About the "
    "hand model of Columns.column_widths, for every option list, dividechars, min_width, focus and maxcol: no exception, widths "
    "non-negative, given/packed columns own-or-zero, focus column kept whenever it alone fits, visible columns + dividers <= "
    "maxcol, exact fill when a weighted column is shown (every slot >= 1 wide; refuted by witness otherwise), shares of k "
    "weighted columns within (k-1)/2 of proportional when min_width does not intervene, hence within ONE column for k <= 3.  "
    "Columns as an OBJECT (model with _cache_maxcol/_cache_column_widths and _invalidate): cache transparency for every history "
    "of layouts, focus moves, contents modifications and packed children changing size (cw_cache_transparent); refuted for plain "
    "assignments to dividechars/min_width without _invalidate().  REFUTED (theorem + replayed on the code, known finding "
    "C19-proportional-beyond-one-column): 'within one column' for k >= 4 (Columns and Pile).  Pile box rows: non-negative, "
    "given/packed own size, sum = maxrow when they fit, same (k-1)/2 bound.  GridFlow: rows concatenate to all cells in order "
    "at min(cell width, maxcol), no row empty, every row fits; composed with its parts: every row is placed inside maxcol by the "
    "translated padding function and its inner Columns shows every cell at its width; one row at the natural (packed) width.  "
    "Padding/Filler/Overlay: the size handed to the child in each mode, never negative, margins + child = available; "
    "Overlay.render places the (trimmed) top canvas inside the bottom canvas, exactly filling it with the margins.  The hand "
    "models are tied to the code by an exact extracted-model correspondence (70k+ cases per quick run, histories through the "
    "stateful model) and the property-text oracle.")
C19.level_note = (
    "Trusted: Coq kernel, py2v translator (+ the exact-rational reading of int(E/D+0.5), valid below 2^50), extraction + OCaml "
    "driver, the hand-written Model/Layout.v (validated by correspondence, not proved against Python), stub children, the Python "
    "oracle.  Assumes positive integer weights, given sizes >= 1, non-negative margins/sizes, alignment 0..100; zero-width slots "
    "(min_width = 0, empty packed child) are observed, not judged, for the fill/focus clauses.")

CHECK = C19
