"""C08 - container focus is always a valid child and input follows the focus path.

Everything for the check lives in this file:
  * runtime: urwid trees with SPY leaves built from a case, op application, observation (obs = compared with the
    extracted Coq model exactly; chk = raw facts for the oracle only);
  * generator: random nestings (depth <= 4) in the "everything fits" regime + op sequences (a shape mirror keeps
    paths valid and the geometry inside the regime);
  * oracle: written from the property text, independent of the model;
  * wire encode/decode for coq/theories/Model/Containers.v (run_case).
"""
import json
import random
import re
import warnings

from harness import core

warnings.simplefilter("ignore")

KEYS = ["up", "down", "left", "right", "page up", "page down", "home", "end", "tab", "shift tab", "enter", " ", "esc",
        "x", "y", "z", "ctrl l", "f5"]
NAV = {"up", "down", "left", "right", "page up", "page down", "home", "end"}
ARROWS = {"up", "down", "left", "right"}
PART = {100: "body", 101: "header", 102: "footer"}
PARTNAME = PART
POS2PY = {100: "body", 101: "header", 102: "footer", 199: "x"}
PARTN = {v: k for k, v in POS2PY.items()}
KEYS_NAV = ["up", "down", "left", "right"]
KEYS_OTHER = ["home", "end", "tab", "enter", " ", "x", "y", "esc", "shift tab", "f5"]
KEYS_PAGE = ["page up", "page down"]
LEAF_KEYS = ["x", "enter", " ", "up", "down", "left", "right", "tab", "home", "page up"]
KCAP = 5          # column capacity
_SAFE = [c for c in list(range(0x100, 0x250)) + list(range(0x400, 0x483)) + list(range(0x48A, 0x500))]

# ======================================================================================================
# runtime
# ======================================================================================================


def marker(i):
    return chr(_SAFE[i]) if i < len(_SAFE) else "?"


class Ctx:
    def __init__(self):
        self.root = None
        self.objs = []
        self.log = []          # events of the current op
        self.ids = {}          # id(widget) -> node id

    def on_focus_path(self, w):
        """Is w on the focus path of the root right now (following .focus)?"""
        cur = self.root
        for _ in range(64):
            if cur is w:
                return True
            try:
                nxt = cur.focus
            except Exception:
                return False
            if nxt is None:
                return False
            cur = nxt.base_widget
        return False


def make_leaf_class():
    import urwid

    class SpyLeaf(urwid.Widget):
        _sizing = frozenset(["box", "flow"])
        ignore_focus = False

        def __init__(self, nid, sel, keys, ctx, nrows=1):
            super().__init__()
            self.nrows = nrows
            self.nid = nid
            self._sel = bool(sel)
            self.keys = set(keys)
            self.ctx = ctx

        def selectable(self):
            return self._sel

        def rows(self, size, focus=False):
            return self.nrows

        def render(self, size, focus=False):
            self.ctx.log.append(("render", self.nid, bool(focus), self.ctx.on_focus_path(self)))
            return urwid.SolidCanvas(marker(self.nid), size[0], size[1] if len(size) > 1 else self.nrows)

        def keypress(self, size, key):
            self.ctx.log.append(("key", self.nid, key, self.ctx.on_focus_path(self)))
            return None if key in self.keys else key

        def mouse_event(self, size, event, button, col, row, focus):
            self.ctx.log.append(("mouse", self.nid, bool(focus), self.ctx.on_focus_path(self)))
            return False

    return SpyLeaf


def build(case):
    """Construct every pool widget (children before parents).  Returns ctx."""
    import urwid
    SpyLeaf = make_leaf_class()
    nodes = case["nodes"]
    ctx = Ctx()
    objs = [None] * len(nodes)

    def pile_item(c):
        n = nodes[c]
        if n.get("box"):
            return ("given", n["ht"], mk(c))
        if n.get("wt"):
            return ("weight", n["wt"], mk(c))
        return ("pack", mk(c))

    placed = [None] * len(nodes)

    def decorate(w, deco):
        """wrap w in the decorations listed (outermost first)"""
        for d in reversed(deco or []):
            if d == "attr":
                w = urwid.AttrMap(w, None, "focus")
            elif d == "pad":
                w = urwid.Padding(w)
            elif d == "dis":
                w = urwid.WidgetDisable(w)
            else:
                raise ValueError("unknown decoration " + str(d))
        return w

    def mk(i):
        """the widget as its parent holds it (decorations included)"""
        if placed[i] is not None:
            return placed[i]
        n = nodes[i]
        k = n["k"]
        if k == "leaf":
            w = SpyLeaf(i, n["sel"], n["keys"], ctx, 1 if n.get("box") else max(1, n.get("ht", 0)))
        elif k == "pile":
            w = urwid.Pile([pile_item(c) for c in n["ch"]], focus_item=n.get("f"))
        elif k == "cols":
            items = [("weight", nodes[c]["wt"], mk(c)) if nodes[c].get("wt") else ("given", nodes[c]["wd"], mk(c))
                     for c in n["ch"]]
            boxc = [j for j, c in enumerate(n["ch"]) if nodes[c].get("box")]
            w = urwid.Columns(items, dividechars=n.get("dv", 0), focus_column=n.get("f"), box_columns=boxc)
        elif k == "grid":
            w = urwid.GridFlow([mk(c) for c in n["ch"]], n["cw"], n["hs"], n["vs"], "left", focus=n.get("f"))
        elif k == "frame":
            hd = mk(n["hd"]) if n.get("hd") is not None else None
            ft = mk(n["ft"]) if n.get("ft") is not None else None
            w = urwid.Frame(mk(n["body"]), hd, ft, focus_part=PART[n.get("part", 100)])
        elif k == "ovl":
            w = urwid.Overlay(mk(n["top"]), mk(n["bot"]), "left", ("relative", 100), "top", ("relative", 50))
        elif k == "lbox":
            items = [mk(c) for c in n["ch"]]
            if n.get("slw"):
                # the default walker for a plain list body
                if n.get("f") is not None and n["ch"]:
                    wk = urwid.SimpleListWalker(items)
                    wk.focus = n["f"]
                    w = urwid.ListBox(wk)
                else:
                    w = urwid.ListBox(items)
            else:
                wk = urwid.SimpleFocusListWalker(items)
                if n.get("f") is not None and n["ch"]:
                    wk.focus = n["f"]
                w = urwid.ListBox(wk)
        else:
            raise ValueError("unknown node kind " + str(k))
        objs[i] = w
        ctx.ids[id(w)] = i
        placed[i] = decorate(w, n.get("deco"))
        return placed[i]

    for i in range(len(nodes)):
        mk(i)
    ctx.objs = objs
    ctx.placed = placed
    ctx.root = objs[case["root"]]
    ctx.nodes = nodes
    return ctx


def kind_of(ctx, w):
    return ctx.nodes[ctx.ids[id(w.base_widget)]]["k"]


def child_at(ctx, w, pos):
    """The child widget of container w at model position pos (None if there is none)."""
    k = kind_of(ctx, w)
    try:
        if k in ("pile", "cols", "grid"):
            if not (0 <= pos < len(w.contents)):
                return None
            return w.contents[pos][0]
        if k == "lbox":
            if not (0 <= pos < len(w.body)):
                return None
            return w.body[pos]
        if k == "frame":
            return {100: w.body, 101: w.header, 102: w.footer}.get(pos)
        if k == "ovl":
            return {0: w.bottom_w, 1: w.top_w}.get(pos)
    except Exception:
        return None
    return None


def resolve(ctx, path):
    """the (undecorated) widget at the end of a path of positions"""
    w = ctx.root
    for p in path:
        w = child_at(ctx, w, p)
        if w is None:
            return None
        w = w.base_widget
    return w


def route_ok(ctx, route):
    w = ctx.root
    for p in route:
        if kind_of(ctx, w) == "ovl" and p == 0:
            return False
        w = child_at(ctx, w, p)
        if w is None:
            return False
        w = w.base_widget
    return True


def pos_to_py(pos):
    """model position code -> python position object (codes >= 100 are strings)"""
    return POS2PY.get(pos, pos)


def pos_from_py(p):
    if isinstance(p, str):
        return PARTN.get(p, 198)
    return p


def item_for(ctx, w, cid):
    """(widget, options) tuple for inserting pool widget cid into container w."""
    k = kind_of(ctx, w)
    n = ctx.nodes[cid]
    c = ctx.placed[cid]
    if k == "pile":
        if n.get("box"):
            return (c, w.options("given", n["ht"]))
        if n.get("wt"):
            return (c, w.options("weight", n["wt"]))
        return (c, w.options("pack"))
    if k == "cols":
        if n.get("wt"):
            return (c, w.options("weight", n["wt"], bool(n.get("box"))))
        return (c, w.options("given", n["wd"], bool(n.get("box"))))
    if k == "grid":
        return (c, w.options())
    if k == "lbox":
        return c
    raise ValueError(k)


def apply_edit(ctx, w, e):
    k = kind_of(ctx, w)
    l = w.body if k == "lbox" else w.contents
    it = lambda cid: item_for(ctx, w, cid)
    t = e[0]
    if t == "append":
        l.append(it(e[1]))
    elif t == "insert":
        l.insert(e[1], it(e[2]))
    elif t == "delitem":
        del l[e[1]]
    elif t == "setitem":
        l[e[1]] = it(e[2])
    elif t == "delslice":
        del l[slice(e[1], e[2], e[3])]
    elif t == "setslice":
        l[slice(e[1], e[2], e[3])] = [it(c) for c in e[4]]
    elif t == "extend":
        l.extend([it(c) for c in e[1]])
    elif t == "pop":
        l.pop(e[1])
    elif t == "reverse":
        l.reverse()
    elif t == "clear":
        l.clear()
    elif t == "remove":
        c = ctx.placed[e[1]]
        present = [x for x in l if (x if k == "lbox" else x[0]) is c]
        l.remove(present[0] if present else it(e[1]))
    elif t == "iadd":
        l.__iadd__([it(c) for c in e[1]])
    elif t == "assign":
        if k == "lbox":
            l[:] = [it(c) for c in e[1]]
        else:
            w.contents = [it(c) for c in e[1]]
    else:
        raise ValueError("edit " + t)


def exc_name(e):
    return type(e).__name__


def focus_pos_code(w):
    try:
        return pos_from_py(w.focus_position)
    except IndexError:
        return -1


def state_dump(ctx):
    """[(focus position code or -1, selectable)] for every pool container, in id order."""
    out = []
    for i, n in enumerate(ctx.nodes):
        if n["k"] == "leaf":
            continue
        w = ctx.objs[i]
        out.append([i, focus_pos_code(w), 1 if w.selectable() else 0])
    return out


def validity_facts(ctx):
    """Oracle-only raw facts about every pool container (reachable from the root or not)."""
    facts = []
    for i, n in enumerate(ctx.nodes):
        k = n["k"]
        if k == "leaf":
            continue
        w = ctx.objs[i]
        f = {"id": i, "k": k}
        if k in ("pile", "cols", "grid"):
            f["n"] = len(w.contents)
        elif k == "lbox":
            f["n"] = len(w.body)
        elif k == "frame":
            f["n"] = 3
            f["parts"] = [w.body is not None, w.header is not None, w.footer is not None]
        else:
            f["n"] = 2
        try:
            p = w.focus_position
            f["pos"] = pos_from_py(p)
            f["pos_exc"] = None
        except Exception as e:
            p = None
            f["pos"] = None
            f["pos_exc"] = exc_name(e)
        try:
            fw = w.focus
            f["focus_none"] = fw is None
            f["focus_exc"] = None
        except Exception as e:
            fw = None
            f["focus_none"] = True
            f["focus_exc"] = exc_name(e)
        # is the reported focus the child found at the reported position?
        f["match"] = None
        f["contents_exc"] = None
        if f["pos_exc"] is None:
            try:
                if k == "lbox":
                    f["match"] = (w.body[p] is fw) and (w.contents[p][0] is fw)
                elif k == "frame":
                    at = {"body": w.body, "header": w.header, "footer": w.footer}.get(p, "?")
                    f["match"] = (at is fw) and at is not None
                    # observation only (not judged): Frame.contents / iter(frame) use truthiness, not `is None`
                    try:
                        w.contents[p]
                    except Exception as e:
                        f["contents_exc"] = exc_name(e)
                else:
                    f["match"] = w.contents[p][0] is fw
            except Exception as e:
                f["match"] = False
                f["contents_exc"] = exc_name(e)
        facts.append(f)
    return facts


def find_cells(canvas, ch, W, H, limit=64):
    """cells (col,row) whose character is ch (at most `limit`, spread over the rows)"""
    cells = []
    row = 0
    for line in canvas.content():
        col = 0
        for _a, _cs, text in line:
            s = text.decode("utf-8") if isinstance(text, bytes) else text
            if ch in s:
                first = s.index(ch)
                last = s.rindex(ch)
                cells.append((col + first, row))
                if last != first:
                    cells.append((col + last, row))
            col += len(s)
        row += 1
        if len(cells) >= limit:
            break
    return cells


def render_root(ctx, size):
    import urwid
    urwid.CanvasCache.clear()
    del ctx.log[:]
    try:
        canv = ctx.root.render(size, focus=True)
        err = None
    except Exception as e:
        canv = None
        err = exc_name(e)
    rl = [(e[1], e[2], e[3]) for e in ctx.log if e[0] == "render"]
    return canv, err, rl


def zero_row_listbox(exc):
    """context for an exception out of keypress: did it pass through a ListBox.keypress that was given no rows?"""
    tb = exc.__traceback__
    while tb is not None:
        code = tb.tb_frame.f_code
        if code.co_name == "keypress" and code.co_filename.endswith("listbox.py"):
            size = tb.tb_frame.f_locals.get("size")
            if isinstance(size, tuple) and len(size) == 2 and size[1] <= 0:
                return " [a ListBox was given 0 rows]"
        tb = tb.tb_next
    return ""


def focus_chain(ctx):
    """Independent of get_focus_path: follow .focus from the root.  Returns (positions, id of the deepest focus widget)."""
    w = ctx.root
    out = []
    for _ in range(64):
        try:
            p = w.focus_position
        except IndexError:
            break
        except Exception:
            return None, None
        out.append(pos_from_py(p))
        try:
            f = w.focus
        except Exception:
            return None, None
        if f is None:
            return None, None
        w = f.base_widget
    return out, ctx.ids.get(id(w))


def focus_path_obs(ctx):
    try:
        return [pos_from_py(p) for p in ctx.root.get_focus_path()]
    except Exception as e:
        return ["E", exc_name(e)]


def run_case(case):
    """Apply the ops to the real widgets.  Returns {"obs": [...], "chk": [...]}: obs is what the model must
    reproduce exactly, chk holds raw facts for the oracle only."""
    ctx = build(case)
    size = (case["W"], case["H"])
    obs, chk = [], []
    saved = {"path": None, "edits": 0}
    n_edits = [0]

    def after(o, c):
        canv, err, rl = render_root(ctx, size)
        o["rn"] = ["E", err] if err else [lid for lid, f, _p in rl if f]
        c["render_onpath"] = [[lid, 1 if p else 0] for lid, f, p in rl if f]
        c["render_exc"] = err
        o["st"] = state_dump(ctx)
        o["fp"] = focus_path_obs(ctx)
        c["fp_chain"], c["deep"] = focus_chain(ctx)
        c["facts"] = validity_facts(ctx)
        return canv

    o0, c0 = {"op": ["init"]}, {}
    canv = after(o0, c0)
    obs.append(o0)
    chk.append(c0)

    for op in case["ops"]:
        o, c = {}, {}
        t = op[0]
        del ctx.log[:]
        if t == "key":
            key = op[1]
            sd0 = state_dump(ctx)
            before = {i: p for i, p, _s in sd0}
            before_sel = {i: s for i, _p, s in sd0}
            try:
                r = ctx.root.keypress(size, key)
                ret = 0 if r is None else (1 if r == key else 2)
                offered = [(e[1], e[3]) for e in ctx.log if e[0] == "key"]
                o["op"] = ["k", ret, [lid for lid, _p in offered]]
                c["keyexc"] = None
            except Exception as e:
                offered = [(e2[1], e2[3]) for e2 in ctx.log if e2[0] == "key"]
                o["op"] = ["E", exc_name(e)]
                c["keyexc"] = f"{exc_name(e)}: {e}" + zero_row_listbox(e)
            c["offered"] = [lid for lid, _p in offered]
            c["offer_onpath"] = [[lid, 1 if p else 0] for lid, p in offered]
            moved = []
            for i, p, _s in state_dump(ctx):
                if before.get(i) != p and p != -1:
                    ch = child_at(ctx, ctx.objs[i], p)
                    moved.append([i, ctx.nodes[i]["k"], before.get(i), p,
                                  None if ch is None else (1 if ch.selectable() else 0), before_sel.get(i)])
            c["moved"] = moved
        elif t == "press":
            leaf = resolve(ctx, op[1]) if route_ok(ctx, op[1]) else None
            if canv is None:
                o["op"] = ["norender"]
            elif leaf is None or kind_of(ctx, leaf) != "leaf":
                o["op"] = ["badroute"]
            else:
                cells = find_cells(canv, marker(leaf.nid), *size)
                if not cells:
                    o["op"] = ["invisible"]
                else:
                    col, row = cells[op[2] % len(cells)]
                    try:
                        ctx.root.mouse_event(size, "mouse press", 1, col, row, True)
                        got = [(e[1], e[2], e[3]) for e in ctx.log if e[0] == "mouse"]
                        o["op"] = ["m", [[lid, 1 if f else 0] for lid, f, _p in got]]
                    except Exception as e:
                        o["op"] = ["E", exc_name(e)]
                        c["mouse_exc"] = f"{exc_name(e)}: {e}"
                    c["mouse_target"] = leaf.nid
        elif t in ("setpos", "setpath"):
            w = resolve(ctx, op[1])
            if w is None:
                o["op"] = ["badpath"]
            else:
                old = focus_pos_code(w)
                try:
                    if t == "setpos":
                        w.focus_position = pos_to_py(op[2])
                        c["setpos"] = [ctx.ids[id(w)], kind_of(ctx, w), op[2], "ok", old, focus_pos_code(w)]
                    else:
                        w.set_focus_path([pos_to_py(p) for p in op[2]])
                    o["op"] = ["ok"]
                except Exception as e:
                    o["op"] = ["E", exc_name(e)]
                    if t == "setpos":
                        c["setpos"] = [ctx.ids[id(w)], kind_of(ctx, w), op[2], exc_name(e), old, focus_pos_code(w)]
        elif t == "save":
            fp = focus_path_obs(ctx)
            saved["path"] = None if (fp and fp[0] == "E") else list(ctx.root.get_focus_path())
            saved["edits"] = n_edits[0]
            saved["deep"] = focus_chain(ctx)[1]
            o["op"] = ["ok"]
        elif t == "restore":
            if saved["path"] is None:
                o["op"] = ["nosave"]
            else:
                try:
                    ctx.root.set_focus_path(saved["path"])
                    o["op"] = ["ok"]
                except Exception as e:
                    o["op"] = ["E", exc_name(e)]
                now = focus_path_obs(ctx)
                c["restore"] = {"shape_same": saved["edits"] == n_edits[0], "res": o["op"],
                                "saved": [pos_from_py(p) for p in saved["path"]], "now": now,
                                "saved_deep": saved.get("deep"), "now_deep": focus_chain(ctx)[1]}
        elif t == "edit":
            w = resolve(ctx, op[1])
            if w is None or kind_of(ctx, w) not in ("pile", "cols", "grid", "lbox"):
                o["op"] = ["badpath"]
            else:
                n_edits[0] += 1
                try:
                    apply_edit(ctx, w, op[2])
                    o["op"] = ["ok"]
                    if kind_of(ctx, w) != "lbox":
                        c["edit_sel"] = [ctx.ids[id(w)], kind_of(ctx, w), 1 if w.selectable() else 0,
                                         1 if any(x.selectable() for x, _o in w.contents) else 0]
                except Exception as e:
                    o["op"] = ["E", exc_name(e)]
        elif t in ("setpart", "delpart"):
            w = resolve(ctx, op[1])
            if w is None or kind_of(ctx, w) != "frame":
                o["op"] = ["badpath"]
            else:
                n_edits[0] += 1
                try:
                    if t == "setpart":
                        w.contents[PART[op[2]]] = (None if op[3] is None else ctx.placed[op[3]], None)
                    else:
                        del w.contents[PART[op[2]]]
                    o["op"] = ["ok"]
                except Exception as e:
                    o["op"] = ["E", exc_name(e)]
        else:
            raise core.MachineryError("unknown op " + str(t))
        canv = after(o, c)
        obs.append(o)
        chk.append(c)
    return {"obs": obs, "chk": chk}


# ======================================================================================================
# generator
# ======================================================================================================


class Mirror:
    """shape of the widget graph (children only), rows and fit checks"""

    def __init__(self, nodes, root, W, H):
        self.nodes = nodes
        self.root = root
        self.W, self.H = W, H
        self.kids = {}
        self.parts = {}
        for i, n in enumerate(nodes):
            self.add(i)

    def add(self, i):
        n = self.nodes[i]
        if n["k"] in ("pile", "cols", "grid", "lbox"):
            self.kids[i] = list(n["ch"])
        elif n["k"] == "frame":
            self.parts[i] = {100: n["body"], 101: n.get("hd"), 102: n.get("ft")}
        elif n["k"] == "ovl":
            self.parts[i] = {0: n["bot"], 1: n["top"]}

    def children(self, i):
        k = self.nodes[i]["k"]
        if i in self.kids:
            return [(p, c) for p, c in enumerate(self.kids[i])]
        if i in self.parts:
            return [(p, c) for p, c in sorted(self.parts[i].items()) if c is not None]
        return []

    def pile_heights(self, i):
        """Pile.get_rows_sizes: rows of every child (box mode with weights when the Pile itself has a given height)"""
        n = self.nodes[i]
        kids = self.kids[i]
        opt = lambda c: (1 if self.nodes[c].get("box") else (2 if self.nodes[c].get("wt") else 0))
        if n.get("box") and any(opt(c) == 2 for c in kids):
            remaining = n["ht"]
            wtotal = 0
            out = []
            for c in kids:
                o = opt(c)
                if o == 0:
                    r = self.rows(c)
                    out.append(r)
                    remaining -= r
                elif o == 1:
                    out.append(self.nodes[c]["ht"])
                    remaining -= self.nodes[c]["ht"]
                else:
                    out.append(None)
                    wtotal += self.nodes[c]["wt"]
            remaining = max(remaining, 0)
            for j, c in enumerate(kids):
                if out[j] is None:
                    w = self.nodes[c]["wt"]
                    r = int(float(remaining) * w / wtotal + 0.5)
                    out[j] = r
                    remaining -= r
                    wtotal -= w
            return out
        return [self.nodes[c]["ht"] if self.nodes[c].get("box") else self.rows(c) for c in kids]

    def rows(self, i):
        n = self.nodes[i]
        k = n["k"]
        if k == "leaf":
            return 1 if n.get("box") else max(1, n.get("ht", 0))
        if k == "pile":
            return sum(self.pile_heights(i))
        if k == "cols":
            return max([1] + [self.rows(c) for c in self.kids[i] if not self.nodes[c].get("box")])
        if k == "grid":
            cells = self.kids[i]
            if not cells:
                return 1
            maxcol, cw, hs = n["wd"], n["cw"], n["hs"]
            r, used, cnt = 0, 0, 0
            for _ in cells:
                if r == 0 or maxcol - used < cw:
                    r += 1
                    cnt = 0
                cnt += 1
                used = min(cw, maxcol) * cnt + hs * cnt
            return r + (r - 1) * n["vs"]
        return n.get("ht", 1)

    def fits(self, i=None, alloc=None):
        """every reachable box widget has room for all of its content"""
        if i is None:
            i, alloc = self.root, self.H
        n = self.nodes[i]
        k = n["k"]
        if k == "leaf":
            return True
        if k == "grid":
            return n["wd"] >= 1
        if k == "pile":
            hs = self.pile_heights(i)
            if alloc is not None and sum(hs) > alloc:
                return False
            boxed = bool(n.get("box"))
            for c, r in zip(self.kids[i], hs):
                cn = self.nodes[c]
                if cn.get("wt") and not cn.get("box"):
                    if n.get("nowt"):
                        return False          # a Pile in a Frame/Overlay slot is rendered as a box: no weights there
                    if cn["k"] not in ("leaf", "lbox") or (cn["k"] == "lbox" and not boxed):
                        return False
                    if boxed:
                        if r < 1 or not self.fits(c, r):
                            return False
                        continue
                if not self.fits(c, cn["ht"] if cn.get("box") else None):
                    return False
            return True
        if k == "cols":
            ch = self.kids[i]
            if len(ch) > KCAP:
                return False
            if sum((1 if self.nodes[c].get("wt") else self.nodes[c]["wd"]) for c in ch) + n.get("dv", 0) * max(0, len(ch) - 1) > n["wd"]:
                return False
            if any(self.nodes[c].get("wt") and self.nodes[c]["k"] != "leaf" for c in ch):
                return False      # weighted columns: leaves only (their width is not static)
            if alloc is not None and not any(self.nodes[c]["k"] in ("leaf", "lbox", "frame", "ovl") for c in ch):
                return False      # a box Columns needs a box-capable child (else urwid rejects the canvas size)
            if ch and alloc is None and max(self.rows(c) for c in ch) == 0:
                return False      # urwid: Columns.rows() says 1 but it renders 0 rows (C01 territory)
            if alloc is not None and any(self.rows(c) > alloc for c in ch if not self.nodes[c].get("box")):
                return False
            for c in ch:
                if not self.fits(c, alloc if alloc is not None else None):
                    return False
                if alloc is None and self.nodes[c]["k"] in ("lbox", "frame", "ovl"):
                    return False
            return True
        if k == "lbox":
            if alloc is None:
                return False
            tot = 0
            for c in self.kids[i]:
                r = self.rows(c)
                if r == 0:
                    return False
                tot += r
                if not self.fits(c, None) or self.has_box(c):
                    return False
            return tot + 1 <= alloc
        if k == "frame":
            if alloc is None:
                return False
            p = self.parts[i]
            h = self.rows(p[101]) if p[101] is not None else 0
            f = self.rows(p[102]) if p[102] is not None else 0
            if h + f + 2 > alloc:
                return False
            for q in (101, 102):
                if p[q] is not None and not self.fits(p[q], None):
                    return False
                if p[q] is not None and self.nodes[p[q]].get("deco") and self.nodes[p[q]]["k"] != "leaf":
                    return False      # Frame tests its header/footer for truth: a decorated empty container is true
            return self.fits(p[100], alloc - h - f)
        if k == "ovl":
            if alloc is None or alloc < 4:
                return False
            p = self.parts[i]
            return self.fits(p[1], alloc // 2 - 1) and self.fits(p[0], alloc)
        return True

    def has_box(self, i):
        if self.nodes[i]["k"] in ("lbox", "frame", "ovl"):
            return True
        return any(self.has_box(c) for _p, c in self.children(i))

    def walk(self, i=None, path=()):
        """yield (path, id) for every reachable node"""
        if i is None:
            i = self.root
        yield list(path), i
        for p, c in self.children(i):
            yield from self.walk(c, path + (p,))

    def under_listbox(self, path):
        i = self.root
        for p in path:
            if self.nodes[i]["k"] == "lbox":
                return True
            i = dict(self.children(i))[p]
        return self.nodes[i]["k"] == "lbox"


class Gen:
    def __init__(self, rng, W=1000, H=160, depth=4, size=3, deco=(), pdeco=0.0):
        self.deco_kinds = list(deco)      # decorations that may be put around children
        self.pdeco = pdeco
        self.rng = rng
        self.W, self.H = W, H
        self.maxdepth = depth
        self.size = size
        self.nodes = []

    def new(self, n):
        r = self.rng
        if self.deco_kinds and r.random() < self.pdeco:
            n["deco"] = [r.choice(self.deco_kinds) for _ in range(r.choice([1, 1, 2]))]
        if n["k"] == "lbox" and r.random() < 0.4:
            n["slw"] = 1
        self.nodes.append(n)
        return len(self.nodes) - 1

    def leaf(self, wd, tall=False, weight=False):
        """tall: a flow leaf of 2-3 rows now and then; weight: a ('weight', n) Pile child now and then"""
        i = self._leaf(wd)
        r = self.rng
        if tall and r.random() < 0.15:
            self.nodes[i]["ht"] = r.choice([2, 2, 3])
        if weight and r.random() < 0.3:
            self.nodes[i]["wt"] = r.choice([1, 1, 2, 3])
        return i

    def wleaf(self, wd):
        """a ('weight', n) leaf"""
        i = self._leaf(wd)
        self.nodes[i]["wt"] = self.rng.choice([1, 1, 2, 3])
        return i

    def _leaf(self, wd):
        r = self.rng
        sel = 1 if r.random() < 0.6 else 0
        keys = []
        if sel and r.random() < 0.6:
            keys = r.sample(LEAF_KEYS, r.choice([1, 1, 2, 3]))
        elif not sel and r.random() < 0.1:
            keys = r.sample(LEAF_KEYS, 1)
        return self.new({"k": "leaf", "sel": sel, "keys": sorted(keys), "wd": wd})

    def nkids(self):
        r = self.rng
        return r.choice([0, 1, 1, 2, 2, 2, 3, 3, 4][: 4 + 2 * self.size]) if r.random() < 0.9 else r.choice([0, 5])

    def focus_arg(self, n):
        r = self.rng
        if n == 0 or r.random() < 0.6:
            return None
        return r.randrange(n)

    def flow(self, depth, wd, nobox=False):
        r = self.rng
        if depth >= self.maxdepth or wd < 4 or r.random() < 0.3:
            return self.leaf(wd, tall=True)
        k = r.choice(["pile", "pile", "cols", "cols", "grid"])
        if k == "pile":
            ch = []
            for _ in range(self.nkids()):
                if not nobox and depth + 1 < self.maxdepth and r.random() < 0.12:
                    ch.append(self.box(depth + 1, wd, r.choice([5, 8, 12]), asbox=True))
                elif r.random() < 0.1:
                    ch.append(self.leaf(wd, tall=True, weight=True))     # in a flow Pile a weighted child is packed
                else:
                    ch.append(self.flow(depth + 1, wd, nobox))
            return self.new({"k": "pile", "ch": ch, "f": self.focus_arg(len(ch)), "wd": wd})
        if k == "cols":
            dv = r.choice([0, 0, 1, 2])
            sw = max(1, (wd - dv * (KCAP - 1)) // KCAP)
            ch = [self.wleaf(sw) if r.random() < 0.15 else self.flow(depth + 1, sw, nobox) for _ in range(min(self.nkids(), KCAP))]
            return self.new({"k": "cols", "ch": ch, "f": self.focus_arg(len(ch)), "dv": dv, "wd": wd})
        cw = r.choice([1, 2, 3, max(1, wd // 3), max(1, wd // 2), wd, wd + 2])
        hs = r.choice([0, 1, 2])
        vs = r.choice([0, 1, 1, 2])
        n = r.choice([0, 1, 2, 3, 4, 5, 6, 7])
        if n and n * cw + (n - 1) * hs == wd:
            # at exactly its natural width urwid keeps the constructor's display widget (and its pref_col state)
            if n > 1:
                hs += 1
            else:
                cw = max(1, cw - 1)
        ch = [self.leaf(cw) for _ in range(n)]
        f = None
        if n and r.random() < 0.4:
            f = r.randrange(n)
        return self.new({"k": "grid", "ch": ch, "f": f, "cw": cw, "hs": hs, "vs": vs, "wd": wd})

    def box(self, depth, wd, ht, asbox=False):
        """a widget for a box slot of wd x ht"""
        r = self.rng
        extra = {"wd": wd, "ht": ht}
        if asbox:
            extra["box"] = 1
        if depth >= self.maxdepth or ht < 4:
            k = "lbox" if ht >= 3 and depth < self.maxdepth + 1 and r.random() < 0.5 else "leaf"
        else:
            k = r.choice(["lbox", "lbox", "frame", "frame", "ovl", "pile", "cols", "leaf"])
        if k == "leaf":
            i = self.leaf(wd)
            self.nodes[i].update(extra)
            return i
        if k == "lbox":
            ch = []
            for _ in range(self.nkids()):
                ch.append(self.flow(max(depth + 1, self.maxdepth - 1 - r.choice([0, 0, 1])), wd, nobox=True))
            f = r.randrange(len(ch)) if ch and r.random() < 0.3 else None
            return self.new(dict({"k": "lbox", "ch": ch, "f": f}, **extra))
        if k == "frame":
            hd = self.flow(depth + 1, wd) if r.random() < 0.6 else None
            ft = self.flow(depth + 1, wd) if r.random() < 0.6 else None
            body = self.box(depth + 1, wd, max(1, ht - 6))
            part = 100
            q = r.random()
            if q < 0.25 and hd is not None:
                part = 101
            elif q < 0.5 and ft is not None:
                part = 102
            elif q < 0.56 and (hd is None or ft is None):
                part = 101 if hd is None else 102     # accepted by Frame.__init__ although the part is missing
            return self.new(dict({"k": "frame", "body": body, "hd": hd, "ft": ft, "part": part}, **extra))
        if k == "ovl":
            top = self.box(depth + 1, wd, ht // 2 - 1)
            bot = self.box(depth + 1, wd, ht)
            return self.new(dict({"k": "ovl", "top": top, "bot": bot}, **extra))
        if k == "pile":
            ch = []
            boxed = asbox or depth == 0          # this Pile is given a height: a box Pile, weighted children share the rest
            for _ in range(self.nkids()):
                q = r.random()
                if depth + 1 < self.maxdepth and q < 0.3:
                    ch.append(self.box(depth + 1, wd, r.choice([5, 8, 12, 20]), asbox=True))
                elif boxed and q < 0.5:
                    if depth + 1 < self.maxdepth and r.random() < 0.4:
                        c = self.box(depth + 1, wd, 8, asbox=False)
                        if self.nodes[c]["k"] not in ("leaf", "lbox"):
                            c = self._leaf(wd)
                    else:
                        c = self._leaf(wd)
                    self.nodes[c]["wt"] = r.choice([1, 1, 2, 3])
                    ch.append(c)
                else:
                    ch.append(self.flow(depth + 1, wd))
            if depth == 0:
                extra = dict(extra, box=1)
            if not boxed:
                extra = dict(extra, nowt=1)
            return self.new(dict({"k": "pile", "ch": ch, "f": self.focus_arg(len(ch))}, **extra))
        # box columns
        dv = r.choice([0, 0, 1, 2])
        sw = max(1, (wd - dv * (KCAP - 1)) // KCAP)
        ch = []
        for _ in range(min(self.nkids(), KCAP)):
            if depth + 1 < self.maxdepth and r.random() < 0.4:
                ch.append(self.box(depth + 1, sw, ht, asbox=True))
            elif r.random() < 0.15:
                ch.append(self.wleaf(sw))
            else:
                ch.append(self.flow(depth + 1, sw))
        return self.new(dict({"k": "cols", "ch": ch, "f": self.focus_arg(len(ch)), "dv": dv}, **extra))

    # ---------------- whole case ----------------
    def tree(self):
        for _attempt in range(30):
            self.nodes = []
            root = self.box(0, self.W, self.H)
            if self.nodes[root]["k"] == "leaf":
                continue
            self.nodes[root].pop("deco", None)
            m = Mirror(self.nodes, root, self.W, self.H)
            if m.fits():
                return root, m
        # fallback
        self.nodes = []
        a = self.leaf(self.W)
        root = self.new({"k": "pile", "ch": [a], "f": None, "wd": self.W, "ht": self.H})
        return root, Mirror(self.nodes, root, self.W, self.H)

    def new_child_for(self, m, cid, nobox):
        """a fresh pool subtree suitable as a child of container cid"""
        n = self.nodes[cid]
        k = n["k"]
        r = self.rng
        before = len(self.nodes)
        if k == "grid":
            i = self.leaf(n["cw"])
        elif k == "cols":
            dv = n.get("dv", 0)
            sw = max(1, (n["wd"] - dv * (KCAP - 1)) // KCAP)
            i = self.wleaf(sw) if r.random() < 0.2 else self.flow(self.maxdepth - r.choice([0, 1, 1, 2]), sw, nobox=True)
        elif k == "pile" and not n.get("nowt") and r.random() < 0.2:
            i = self._leaf(n["wd"])
            self.nodes[i]["wt"] = r.choice([1, 2, 3])
        else:
            i = self.flow(self.maxdepth - r.choice([0, 1, 1, 2]), n["wd"], nobox=True)
        for j in range(before, len(self.nodes)):
            m.add(j)
        return i

    def ops(self, m, nops, page_ok):
        r = self.rng
        out = []
        has_save = False
        for _ in range(nops):
            conts = [(p, i) for p, i in m.walk() if self.nodes[i]["k"] != "leaf"]
            leaves = [(p, i) for p, i in m.walk() if self.nodes[i]["k"] == "leaf"]
            q = r.random()
            if q < 0.40:
                pool = KEYS_NAV * 3 + KEYS_OTHER + (KEYS_PAGE if page_ok else [])
                out.append(["key", r.choice(pool)])
            elif q < 0.52:
                if leaves:
                    p, i = r.choice(leaves)
                    out.append(["press", p, r.randrange(8)])
            elif q < 0.64:
                p, i = r.choice(conts)
                k = self.nodes[i]["k"]
                n = len(m.children(i))
                if r.random() < 0.08:
                    pos = r.choice([199, 199, 101, 100])
                elif k == "frame":
                    pos = r.choice([100, 100, 101, 101, 102, 102, 0, 1, 199, -1])
                elif k == "ovl":
                    pos = r.choice([1, 1, 0, 2, -1])
                else:
                    pos = r.choice(list(range(n)) * 3 + [-1, n, n + 1, -n - 1, 0])
                out.append(["setpos", p, pos])
            elif q < 0.70:
                p, i = r.choice(conts)
                # a path of plausible positions below this container
                ps, cur = [], i
                for _d in range(r.choice([1, 2, 2, 3, 4])):
                    ch = m.children(cur)
                    if not ch or r.random() < 0.1:
                        ps.append(r.choice([0, 1, 5, -1, 100, 101, 199]))
                        break
                    pp, cur = r.choice(ch)
                    ps.append(pp)
                out.append(["setpath", p, ps])
            elif q < 0.75:
                out.append(["save"])
                has_save = True
            elif q < 0.80:
                if has_save:
                    out.append(["restore"])
            elif q < 0.95:
                lists = [(p, i) for p, i in conts if self.nodes[i]["k"] in ("pile", "cols", "grid", "lbox")]
                if not lists:
                    continue
                p, i = r.choice(lists)
                e = self.edit_op(m, p, i)
                if e is not None:
                    out.append(["edit", p, e])
            else:
                frames = [(p, i) for p, i in conts if self.nodes[i]["k"] == "frame"]
                if not frames:
                    continue
                p, i = r.choice(frames)
                part = r.choice([101, 101, 102, 102, 100])
                if r.random() < 0.35 and part != 100:
                    if r.random() < 0.5:
                        op = ["delpart", p, part]
                    else:
                        op = ["setpart", p, part, None]
                    saved = dict(m.parts[i])
                    if op[0] == "delpart" and m.parts[i][part] is None:
                        out.append(op)       # KeyError expected
                        continue
                    m.parts[i][part] = None
                    out.append(op)
                else:
                    if part == 100:
                        continue
                    before = len(self.nodes)
                    c = self.flow(self.maxdepth - r.choice([0, 1, 2]), self.nodes[i]["wd"], nobox=m.under_listbox(p))
                    for j in range(before, len(self.nodes)):
                        m.add(j)
                    saved = dict(m.parts[i])
                    m.parts[i][part] = c
                    if m.fits():
                        out.append(["setpart", p, part, c])
                    else:
                        m.parts[i] = saved
        return out

    def edit_op(self, m, path, i):
        r = self.rng
        kids = m.kids[i]
        n = len(kids)
        nobox = True
        saved = list(kids)

        def idx():
            return r.choice([None, None, -9, -2, -1, 0, 0, 1, 1, 2, 3, 4, 9])

        def iidx():
            return r.choice(list(range(n)) * 2 + [-1, -n, n, -n - 1, 0, 1] if n else [0, -1, 1])
        t = r.choice(["append", "append", "insert", "insert", "delitem", "delitem", "setitem", "delslice", "setslice",
                      "extend", "pop", "reverse", "clear", "assign", "remove", "remove", "iadd"])
        new = lambda: self.new_child_for(m, i, nobox)
        try:
            if t == "append":
                e = [t, new()]
                kids.append(e[1])
            elif t == "insert":
                e = [t, iidx(), new()]
                kids.insert(e[1], e[2])
            elif t == "delitem":
                e = [t, iidx()]
                try:
                    del kids[e[1]]
                except IndexError:
                    pass
            elif t == "setitem":
                e = [t, iidx(), new()]
                try:
                    kids[e[1]] = e[2]
                except IndexError:
                    pass
            elif t == "delslice":
                e = [t, idx(), idx(), r.choice([None, None, 1, 2, -1])]
                del kids[slice(e[1], e[2], e[3])]
            elif t == "setslice":
                st = r.choice([None, None, 1, 2, -1])
                cnt = r.choice([0, 1, 1, 2])
                a, b = idx(), idx()
                if st not in (None, 1):
                    cnt = len(range(*slice(a, b, st).indices(n))) if r.random() < 0.8 else cnt
                e = [t, a, b, st, [new() for _ in range(cnt)]]
                try:
                    kids[slice(a, b, st)] = list(e[4])
                except ValueError:
                    pass
            elif t == "extend":
                e = [t, [new() for _ in range(r.choice([0, 1, 2]))]]
                kids.extend(e[1])
            elif t == "pop":
                e = [t, iidx()]
                try:
                    kids.pop(e[1])
                except IndexError:
                    pass
            elif t == "reverse":
                e = [t]
                kids.reverse()
            elif t == "clear":
                e = [t]
                del kids[:]
            elif t == "remove":
                # usually a present child (often the only selectable one), sometimes a widget that is not there
                selk = [c for c in kids if m.nodes[c]["k"] == "leaf" and m.nodes[c]["sel"]]
                if kids and r.random() < 0.85:
                    e = [t, r.choice(selk) if selk and r.random() < 0.6 else r.choice(kids)]
                    kids.remove(e[1])
                else:
                    e = [t, new()]
            elif t == "iadd":
                e = [t, [new() for _ in range(r.choice([0, 1, 2]))]]
                kids.extend(e[1])
            else:
                e = [t, [new() for _ in range(r.choice([0, 1, 2, 3]))]]
                kids[:] = list(e[1])
        finally:
            pass
        if not m.fits():
            m.kids[i] = saved
            return None
        return e

    def case(self, nops=None):
        root, m = self.tree()
        page_ok = not any(n["k"] == "lbox" for n in self.nodes)
        nops = nops if nops is not None else self.rng.choice([3, 5, 8, 12, 16])
        ops = self.ops(m, nops, page_ok)
        if any(n["k"] == "lbox" for n in self.nodes):
            # a ListBox may have entered through a later Frame part: page keys inside a ListBox are not modelled
            ops = [["key", op[1].split()[-1]] if op[0] == "key" and op[1] in KEYS_PAGE else op for op in ops]
        return {"W": self.W, "H": self.H, "root": root, "nodes": self.nodes, "ops": ops}



# ======================================================================================================
# oracle (from the property text; sees only what the implementation did)
# ======================================================================================================


def opname(case, k):
    if k == 0:
        return "construction"
    op = case["ops"][k - 1]
    return f"op#{k} {op[0]}"


def container_problem(f, nodes):
    """The focus-validity clause for one container (None = fine).  From the property text:
    a non-empty container's focus_position is a valid position whose child is `focus`;
    an empty one has focus None and focus_position raises IndexError."""
    kind = f["k"]
    if kind in ("pile", "cols", "grid", "lbox"):
        if f["n"] == 0:
            if f["pos_exc"] != "IndexError":
                return f"is empty but focus_position gives {f['pos'] if f['pos_exc'] is None else f['pos_exc']} (IndexError expected)"
            if not f["focus_none"] or f["focus_exc"]:
                return "is empty but focus is not None"
            return None
        if f["pos_exc"] is not None:
            return f"has {f['n']} children but focus_position raises {f['pos_exc']}"
        if not (isinstance(f["pos"], int) and 0 <= f["pos"] < f["n"]):
            return f"has {f['n']} children but focus_position is {f['pos']}"
        if f["focus_none"] or not f["match"]:
            return f"focus is not the child at focus_position {f['pos']}"
        return None
    if kind == "frame":
        if f["pos_exc"] is not None or f["pos"] not in PARTNAME:
            return f"focus_position is {f['pos'] if f['pos_exc'] is None else f['pos_exc']}"
        if not f["parts"][f["pos"] - 100]:
            return f"focus_position {PARTNAME[f['pos']]!r} names a part the Frame does not have (focus is None: {f['focus_none']})"
        if f["focus_none"] or not f["match"]:
            return f"focus is not the {PARTNAME[f['pos']]} widget"
        return None
    if f["pos_exc"] is not None or f["pos"] != 1 or not f["match"] or f["focus_none"]:
        return f"focus_position {f['pos']} / focus do not designate the top widget"
    return None


def oracle(case, res):
    msgs = []
    nodes = case["nodes"]
    obs, chk = res["obs"], res["chk"]
    prev_facts = {}
    bad_before = {}
    for k, (o, c) in enumerate(zip(obs, chk)):
        tag = opname(case, k)
        op = case["ops"][k - 1] if k else None
        # ---- clause: invalid assignment -> IndexError, nothing changes; valid -> accepted ----
        if op and op[0] == "setpos" and "setpos" in c:
            cid, kind, pos, outcome, old, new = c["setpos"]
            pf = prev_facts.get(cid)
            if pf is not None:
                if kind in ("pile", "cols", "grid", "lbox"):
                    valid = isinstance(pos, int) and pos < 100 and 0 <= pos < pf["n"]
                elif kind == "frame":
                    valid = pos in PARTNAME and pf["parts"][pos - 100]
                else:
                    valid = pos == 1
                shown = repr(POS2PY.get(pos, pos))
                if valid:
                    if outcome != "ok":
                        msgs.append(f"{tag}: {kind}#{cid}.focus_position = {shown} (a valid position) raised {outcome}")
                    elif new != pos:
                        msgs.append(f"{tag}: {kind}#{cid}.focus_position = {shown} accepted but focus_position reads {new}")
                else:
                    if outcome != "IndexError":
                        msgs.append(f"{tag}: {kind}#{cid}.focus_position = {shown} (invalid position) "
                                    f"{'was accepted' if outcome == 'ok' else 'raised ' + outcome}, IndexError expected")
                    if new != old:
                        msgs.append(f"{tag}: {kind}#{cid}.focus_position = {shown} (invalid) changed the focus {old} -> {new}")
        # ---- clause: keys only along the focus path; unhandled key unchanged; arrows land on selectable ----
        if op and op[0] == "key":
            key = op[1]
            for lid, onp in c.get("offer_onpath", []):
                if not onp:
                    msgs.append(f"{tag} {key!r}: leaf#{lid} was offered the key but is not on the focus path")
            if c.get("keyexc"):
                msgs.append(f"{tag} {key!r}: keypress raised {c['keyexc']} (an unhandled key must come back unchanged)")
            else:
                ret = o["op"][1]
                offered = o["op"][2]
                handled_by = [lid for lid in offered if key in nodes[lid]["keys"]]
                if ret == 2:
                    msgs.append(f"{tag} {key!r}: keypress returned a different key")
                elif key not in NAV and not handled_by and ret != 1:
                    mv = "; ".join(f"focus moved in {m[1]}#{m[0]} (its selectable() was {bool(m[5])})" for m in c.get("moved", []))
                    msgs.append(f"{tag} {key!r}: not a navigation key and handled by no leaf, but came back as None" + (": " + mv if mv else ""))
                if key in ARROWS:
                    for m in c.get("moved", []):
                        if m[4] == 0 and case.get("tight") and m[1] == "lbox":
                            continue       # a ListBox that does not show all its items scrolls over unselectable ones by design
                        if m[4] == 0:
                            msgs.append(f"{tag} {key!r}: focus of {m[1]}#{m[0]} moved {m[2]} -> {m[3]} onto a child that is not selectable")
        # ---- clause: selectable() iff a child is, right after the contents were set ----
        if "edit_sel" in c:
            cid, kind, sl, anyc = c["edit_sel"]
            if sl != anyc:
                msgs.append(f"{tag}: {kind}#{cid}.selectable() is {bool(sl)} after its contents were set, but any(child.selectable()) is {bool(anyc)}")
        # ---- clause: only the focus path is rendered with focus ----
        for lid, onp in c.get("render_onpath", []):
            if not onp:
                msgs.append(f"{tag}: leaf#{lid} rendered with focus=True but is not on the focus path")
        # ---- clause: focus path round trip ----
        if "restore" in c:
            rr = c["restore"]
            if rr["shape_same"]:
                if rr["res"] != ["ok"]:
                    msgs.append(f"{tag}: set_focus_path(saved get_focus_path()) raised {rr['res'][1]} although no contents changed")
                elif rr["now"] != rr["saved"]:
                    msgs.append(f"{tag}: set_focus_path(saved) gives focus path {rr['now']}, saved was {rr['saved']}")
                elif rr.get("saved_deep") is not None and rr.get("now_deep") != rr["saved_deep"]:
                    msgs.append(f"{tag}: set_focus_path(saved get_focus_path()) does not restore the focus: the deepest focus widget "
                                f"is #{rr['now_deep']}, it was #{rr['saved_deep']} when the path was read")
        # ---- the focus path IS the chain of focus positions down to the leaf ----
        if c.get("fp_chain") is not None and not (o["fp"] and o["fp"][0] == "E"):
            if o["fp"] != c["fp_chain"]:
                msgs.append(f"{tag}: get_focus_path() is {o['fp']} but following .focus from the root gives {c['fp_chain']}")
        # ---- clause: focus validity in every container; a bad state is reported when it arises ----
        facts = c.get("facts", [])
        prev_facts = {f["id"]: f for f in facts}
        for f in facts:
            prob = container_problem(f, nodes)
            cid = f["id"]
            if prob is None:
                bad_before.pop(cid, None)
                continue
            if bad_before.get(cid) == prob:
                continue
            bad_before[cid] = prob
            if k == 0 and f["k"] == "frame" and "names a part the Frame does not have" in prob:
                part = PARTNAME[f["pos"]]
                msgs.append(f"construction: Frame(body, {part}=None, focus_part={part!r}) is accepted: frame#{cid} {prob}")
            else:
                msgs.append(f"{tag}: {f['k']}#{cid} {prob}")
    return msgs


# ======================================================================================================
# wire format of coq/theories/Model/Containers.v
# ======================================================================================================
KINDC = {"leaf": 0, "pile": 1, "cols": 2, "grid": 3, "frame": 4, "ovl": 5, "lbox": 6}
ERRN = {1: "IndexError", 2: "ValueError", 3: "TypeError", 8: "KeyError", 11: "AttributeError", 12: "Fuel",
        13: "Unmodelled", 14: "Bad"}


def oz(v):
    return [0] if v is None else [1, v]


def enc_key(k):
    return [len(k)] + [ord(ch) for ch in k]


def enc_node(n):
    k = n["k"]
    deco = n.get("deco") or []
    l = [KINDC[k], n.get("wd", 0), 1 if n.get("box") else 0, n.get("ht", 0), n.get("wt", 0),
         2 if "dis" in deco else (1 if "pad" in deco else 0)]
    if k == "leaf":
        l += [1 if n["sel"] else 0, len(n["keys"])]
        for key in n["keys"]:
            l += enc_key(key)
    elif k in ("pile", "cols", "grid", "lbox"):
        l += oz(n.get("f"))
        l += [n.get("dv", 0) if k == "cols" else n.get("hs", 0), (1 if n.get("slw") else 0) if k == "lbox" else n.get("cw", 0), n.get("vs", 0)]
        l += [len(n["ch"])] + list(n["ch"])
    elif k == "frame":
        l += [n["body"]] + oz(n.get("hd")) + oz(n.get("ft")) + [n.get("part", 100)]
    else:
        l += [n["top"], n["bot"]]
    return l


def enc_edit(e):
    t = e[0]
    if t == "delitem":
        return [1, e[1]]
    if t == "setitem":
        return [2, e[1], e[2]]
    if t == "delslice":
        return [3] + oz(e[1]) + oz(e[2]) + oz(e[3])
    if t == "setslice":
        return [4] + oz(e[1]) + oz(e[2]) + oz(e[3]) + [len(e[4])] + list(e[4])
    if t == "insert":
        return [5, e[1], e[2]]
    if t == "append":
        return [6, e[1]]
    if t == "extend":
        return [7, len(e[1])] + list(e[1])
    if t == "pop":
        return [8, e[1]]
    if t == "reverse":
        return [10]
    if t == "clear":
        return [14]
    if t == "remove":
        return [9, e[1]]
    if t == "iadd":
        return [12, len(e[1])] + list(e[1])
    if t == "assign":
        return [4, 0, 0, 0, len(e[1])] + list(e[1])
    raise core.MachineryError("edit " + t)


def enc_op(op):
    t = op[0]
    if t == "key":
        return [1] + enc_key(op[1])
    if t == "press":
        return [2, len(op[1])] + list(op[1])
    if t == "setpos":
        return [3, len(op[1])] + list(op[1]) + [op[2]]
    if t == "setpath":
        return [4, len(op[1])] + list(op[1]) + [len(op[2])] + list(op[2])
    if t == "save":
        return [5]
    if t == "restore":
        return [6]
    if t == "edit":
        return [7, len(op[1])] + list(op[1]) + enc_edit(op[2])
    if t == "setpart":
        return [8, len(op[1])] + list(op[1]) + [op[2]] + oz(op[3])
    if t == "delpart":
        return [9, len(op[1])] + list(op[1]) + [op[2]]
    raise core.MachineryError("op " + t)


def decode_obs(case, ints):
    it = iter(ints)
    nxt = lambda: next(it)

    def lst():
        n = nxt()
        return [nxt() for _ in range(n)]
    out = []
    try:
        for k in range(len(case["ops"]) + 1):
            o = {}
            c = nxt()
            if c == 0:
                o["op"] = ["init"]
            elif c == 1:
                ret = nxt()
                o["op"] = ["k", ret, lst()]
            elif c == 2:
                o["op"] = ["E", ERRN.get(nxt(), "?")]
            elif c == 3:
                n = nxt()
                o["op"] = ["m", [[nxt(), nxt()] for _ in range(n)]]
            elif c == 4:
                o["op"] = ["badroute"]
            elif c == 5:
                o["op"] = ["norender"]
            elif c == 6:
                o["op"] = ["ok"]
            elif c == 8:
                o["op"] = ["badpath"]
            elif c == 9:
                o["op"] = ["nosave"]
            else:
                return [{"malformed": ints[:60]}]
            if nxt() == 0:
                o["rn"] = lst()
            else:
                o["rn"] = ["E", ERRN.get(nxt(), "?")]
            n = nxt()
            o["st"] = [[nxt(), nxt(), nxt()] for _ in range(n)]
            if nxt() == 0:
                o["fp"] = lst()
            else:
                o["fp"] = ["E", ERRN.get(nxt(), "?")]
            out.append(o)
    except StopIteration:
        return [{"malformed": ints[:60]}]
    return out


# ======================================================================================================
# the check
# ======================================================================================================
def L(sel, keys=(), wd=1000, **kw):
    return dict({"k": "leaf", "sel": sel, "keys": list(keys), "wd": wd}, **kw)


class C08(core.Check):
    pid = "C08"
    gen_modules = ["monitored_list", "c08_container"]
    model_targets = ["theories/Model/Containers.vo"]
    prop_file = "theories/Properties/C08.v"
    extract_v = "Extract/C08X.v"
    allowed_axioms = set()
    design_ref = "DESIGN.md section 5, C08"
    correspondence_name = "containers-model-vs-implementation"
    technique = ("Coq theorems (invariants over operation histories, lifted from the C16 focus-list theorems) about an "
                 "executable heap model of Pile/Columns/GridFlow/Frame/Overlay/ListBox focus handling and input routing; "
                 "key->command table and focus_position range tests re-translated from the source every run (py2v); "
                 "extracted-model correspondence on random nestings with spy leaves; independent oracle from the property text")
    level_text = ("Proved in Coq for ALL operation histories and all trees (no bound): after any sequence of keypresses, button-1 "
                  "presses, focus_position / set_focus_path assignments, contents edits (every C16 list operation) and Frame part "
                  "replacements - each followed by a render - every Pile/Columns/GridFlow/ListBox of the model has a focus that is None "
                  "with IndexError for the position when empty and otherwise a position in range whose child is the focus widget "
                  "(lifted from the C16 theorems), every Frame built with an existing focus part keeps focusing an existing part, Overlay "
                  "focuses its top widget (focus_valid_inv); an invalid assignment raises IndexError and no focus anywhere changes; "
                  "selectable() of a Pile/Columns equals any(child.selectable()) right after its contents were set (GridFlow: always); "
                  "the focus path read from a tree can be written back to any later heap of the same shape and is read back identically "
                  "(tree hypothesis: no widget twice on the path); a key not bound to a navigation command that no offered leaf "
                  "handles comes back unchanged whenever keypress returns (unhandled_key_unchanged).  Also with PENDING ListBox "
                  "set_focus requests, for every state: a key is offered only along dispatch steps from a container to the widget "
                  "that is its focus in the heap in which it dispatches - for a ListBox the heap after the pending request was "
                  "completed (key_only_on_focus_path, KeyRoute); render passes focus=True only along such steps "
                  "(only_focus_path_rendered_with_focus, FocusRender); when nothing is pending these routes are the focus path of the "
                  "heap before the call and render changes nothing.  Tree-wide: after a keypress with an arrow key every focus anywhere "
                  "in the tree is the one it was or a child whose selectable() was True (arrows_land_on_selectable; premise: no pending "
                  "ListBox request, which every render establishes), plus the local statements at the decision points of Pile / Columns "
                  "/ Columns.move_cursor_to_coords.  REFUTED with a model witness replayed on the code: the Frame clause for "
                  "Frame(body, header=None, focus_part='header') - the one known finding.  The range tests of the focus_position "
                  "setters and the key->command table are re-translated from the source each run; all other model code is hand-written "
                  "and tied by an exact extracted-model correspondence (9.5k cases per quick run: op results, offered leaves, leaves "
                  "rendered with focus, every container's focus_position and selectable(), get_focus_path after every operation).  "
                  "Decorations are inside the model with exact correspondence (AttrMap, Padding, WidgetDisable, nested): the "
                  "routes of clauses 2 and 6 provably never pass through a WidgetDisable.  Left/right in Columns give the focus to "
                  "the NEAREST selectable column, up/down in a Pile to the first selectable candidate, and nothing is written "
                  "exactly when no candidate is selectable (theorems over all trees).  Contents edits are C16 MonitoredFocusList "
                  "steps (imported model + step_sound), so the focus after an edit is computed by the C16 model; ListBox over a "
                  "plain list uses the SimpleListWalker rule.  "
                  "Geometry modelled: given and WEIGHTED Pile items (box-mode row distribution) and Columns (column_widths with "
                  "weights), flow leaves of 1-3 rows, GridFlow wrapping, pref_col / move_cursor_to_coords through nested containers.")
    level_note = ("Trusted: Coq kernel, py2v translator, extraction + OCaml driver, the hand-written model and its geometry abstraction "
                  "(everything-fits regime: given widths/heights, all ListBox items visible, mouse press given as the child route "
                  "computed by the harness from the rendered canvas), the Python oracle and spy leaves.  Not covered: page up/down in "
                  "ListBox, TreeListBox, cursor widgets (Edit) as leaves, decoration widgets between containers, weights, clipped "
                  "geometry.  Exceptions from render() and mouse_event() are observations, not judged.")
    rule = ("case = pool of widget specs (depth <= 4 nestings of Pile/Columns/GridFlow/Frame/Overlay/ListBox over spy leaves: "
            "selectable or not, handling a configurable key set) + op list (keys incl. arrows/home/end/tab/page keys, button-1 "
            "presses at a cell showing a chosen leaf's marker, focus_position assignments valid and invalid, set_focus_path, "
            "save/restore of get_focus_path, contents edits through every C16 list operation, Frame header/footer replacement "
            "and deletion); geometry restricted to the everything-fits regime (given widths/heights, all ListBox items visible); "
            "exhaustive single operations on one-level containers with <= 3 children of every selectability pattern (ListBox over "
            "both walkers); decorations around leaves and containers (AttrMap, Padding, WidgetDisable, nested two deep) in the "
            "modelled streams; one ORACLE-ONLY stream outside the modelled regime: the same trees on a screen of 1-8 rows "
            "(clipped Frame headers, scrolling list boxes); "
            "non-trivial = some focus position changed, a key was offered or an operation raised; distinct by hash of (case, outcome)")
    trusted_base = [
        "Coq 8.16.1 kernel (coqc; vm_compute only in closed examples and the _refuted witnesses)",
        "tools/py2v translator + tools/py2v/mods/c08_container.py (command table, focus_position range tests) and mods/monitored_list.py",
        "extraction: ExtrOcamlBasic only; OCaml 4.13.1; tools/driver/driver.ml",
        "hand-written Model/Containers.v (routing, focus moves, ListBox pending-focus completion, constructors) and the C16 "
        "Model/MonitoredList.v it reuses: validated by this correspondence, not proved against Python",
        "the geometry abstraction (everything fits; mouse cell -> child route computed by the harness from the rendered canvas)",
        "Python oracle and spy leaves in harness/props/c08.py",
    ]
    assumptions = [
        "leaves are non-cursor widgets without get_pref_col/move_cursor_to_coords; decorations modelled: AttrMap (transparent), "
        "Padding(w) with left = right = 0 (clamps the column of move_cursor_to_coords), WidgetDisable (inert: unselectable, stops keys, "
        "mouse events and the render focus flag); no decoration around a container that is a Frame header/footer (Frame tests it for "
        "truth); screens too short for the tree are judged by the oracle only (no correspondence)",
        "Pile children are ('pack'), ('given', n) or ('weight', w) (weights share the rows of a Pile that is itself given a height: a "
        "'given' child of a Pile, a box column, or the root; in a flow Pile a weighted child is packed; no weights in a Pile that fills a "
        "Frame/Overlay slot); Columns children are ('given', w) or, for leaves, ('weight', w), and all columns fit; GridFlow cells are "
        "one-row leaves of the GridFlow's cell width and a GridFlow is never constructed at exactly its natural width (there urwid keeps "
        "the constructor's display widget with its pref_col state); every ListBox item is visible and has >= 1 row (ListBox up/down never "
        "scroll: the scrolling view is C07's model); ListBox body is a SimpleFocusListWalker or a SimpleListWalker (plain list); no box-only widget below a ListBox",
        "page up / page down inside a ListBox and TreeListBox are not covered (cases with a ListBox never send page keys)",
        "every widget object occurs at most once in the tree (no aliasing, no cycles)",
        "exceptions raised by render() are recorded as observations, not judged (C07 judges the ListBox view)",
    ]
    search_budget = {"quick": 60, "thorough": 300}

    MAX_PER_SIG = 6

    def __init__(self):
        super().__init__()
        self._last_chk = None
        self._emitted = {}
        self._in_shrink = False

    # ---------- implementation ----------
    def run_impl(self, case):
        import urwid
        try:
            res = run_case(case)
        finally:
            urwid.CanvasCache.clear()
        self._last_chk = res["chk"]
        return res

    # ---------- model wire format ----------
    def encode(self, case):
        if case.get("tight"):
            return None      # outside the modelled regime (clipped geometry): oracle only
        l = [case["W"], case["H"], case["root"], len(case["nodes"])]
        for n in case["nodes"]:
            l += enc_node(n)
        l.append(len(case["ops"]))
        for op in case["ops"]:
            l += enc_op(op)
        return l

    def decode(self, case, ints):
        # chk holds oracle-only facts taken from the implementation; it is outside the correspondence
        return {"obs": decode_obs(case, ints), "chk": self._last_chk}

    # ---------- oracle ----------
    def oracle(self, case, res):
        msgs = oracle(case, res)
        if self._in_shrink:
            return msgs
        out = []
        for m in msgs:
            sig = self.signature(case, m)
            self._emitted[sig] = self._emitted.get(sig, 0) + 1
            if self._emitted[sig] <= self.MAX_PER_SIG:     # the same finding is not reported hundreds of times
                out.append(m)
        return out

    def shrink(self, case, msg):
        self._in_shrink = True
        try:
            return super().shrink(case, msg)
        finally:
            self._in_shrink = False

    def signature(self, case, msg):
        m = re.sub(r"^(construction|op#\d+ \w+)( '[^']*')?: ", "", msg)
        return re.sub(r"\d+", "N", m)

    def nontrivial(self, case, res):
        obs = res["obs"]
        if any(o["op"][0] in ("E",) or (o["op"][0] == "k" and o["op"][2]) for o in obs):
            return True
        return any(a["st"] != b["st"] for a, b in zip(obs, obs[1:]))

    def distribution(self, case, res, dist):
        def inc(k, n=1):
            dist[k] = dist.get(k, 0) + n
        kinds = {n["k"] for n in case["nodes"]}
        for k in kinds:
            inc("has:" + k)
        inc("nodes:%d" % min(len(case["nodes"]) // 10 * 10, 90))
        for op, o, c in zip([["init"]] + case["ops"], res["obs"], res["chk"]):
            inc("op:" + op[0])
            if o["op"][0] == "E":
                inc("raised:" + op[0] + ":" + o["op"][1])
            if o["rn"] and o["rn"][0] == "E":
                inc("obs:render_raised:" + str(o["rn"][1]))
            if o["fp"] and o["fp"][0] == "E":
                inc("obs:get_focus_path_raised:" + str(o["fp"][1]))
            if op[0] == "key":
                inc("key:" + op[1])
                if c.get("moved"):
                    inc("key_moved_focus")
                if o["op"][0] == "k" and o["op"][2]:
                    inc("key_offered_to_leaf")
            if op[0] == "press" and o["op"][0] == "m":
                inc("press_delivered" if o["op"][1] else "press_not_delivered")
            for f in c.get("facts", []):
                if f["k"] == "frame" and f.get("contents_exc"):
                    inc("obs:frame_contents_raises_for_focus_position:" + f["contents_exc"])
                    break

    # ---------- generators ----------
    def small_cases(self, deep):
        """exhaustive single operations on one container with <= 3 leaf children (every selectability pattern)"""
        import itertools
        W, H = 60, 30
        keys = ["up", "down", "left", "right", "home", "end", "x", "tab"]
        for kind in ("pile", "cols", "grid", "lbox", "slw"):
            slw = kind == "slw"
            if slw:
                kind = "lbox"
            for n in range(0, 4):
                for pat in itertools.product([0, 1], repeat=n):
                    for f in [None] + list(range(n)):
                        nodes = [L(s, ["x"] if (j == 1) else [], wd=(10 if kind != "pile" and kind != "lbox" else W)) for j, s in enumerate(pat)]
                        spare = len(nodes)
                        nodes.append(L(1, [], wd=10 if kind in ("cols", "grid") else W))
                        c = {"k": kind, "ch": list(range(n)), "f": f, "wd": W}
                        if kind == "cols":
                            c["dv"] = 1
                        if kind == "grid":
                            c.update(cw=10, hs=1, vs=1)
                        if kind == "lbox":
                            c.update(ht=H)
                            if slw:
                                c["slw"] = 1
                        nodes.append(c)
                        cid = len(nodes) - 1
                        if kind in ("cols", "grid"):
                            nodes.append(L(1, [], wd=W))
                            nodes.append({"k": "pile", "ch": [cid + 1, cid], "f": 1, "wd": W, "ht": H})
                            root, path = len(nodes) - 1, [1]
                        else:
                            root, path = cid, []
                        ops1 = [["key", k] for k in keys]
                        ops1 += [["setpos", path, p] for p in range(-1, n + 2)] + [["setpos", path, 199], ["setpos", path, 101]]
                        ops1 += [["press", path + [j], 0] for j in range(n)]
                        ops1 += [["edit", path, e] for e in (["append", spare], ["insert", 0, spare], ["delitem", 0], ["delitem", -1],
                                                             ["clear"], ["reverse"], ["assign", [spare]], ["pop", n],
                                                             ["remove", spare], ["iadd", [spare]])]
                        ops1 += [["edit", path, ["remove", j]] for j in range(n)]
                        for op in ops1:
                            yield {"W": W, "H": H, "root": root, "nodes": nodes, "ops": [op, ["key", "down"]] if deep else [op]}

    def random_case(self, rng):
        """modelled regime: everything fits; transparent decorations (AttrMap) around some children"""
        g = Gen(rng, depth=rng.choice([2, 3, 3, 4, 4]), size=rng.choice([1, 2, 3]), deco=("attr",), pdeco=0.12)
        return g.case()

    def deco_case(self, rng):
        """decorations that are not transparent (Padding has its own cursor methods, WidgetDisable overrides
        selectable()) around leaves and containers; modelled like everything else"""
        g = Gen(rng, depth=rng.choice([2, 3, 3, 4]), size=rng.choice([1, 2, 3]), deco=("attr", "pad", "dis", "dis"), pdeco=0.3)
        return g.case()

    def tight_case(self, rng):
        """oracle only: the same trees on a screen that is too short (clipped Frame headers, scrolling list boxes ...)"""
        c = self.random_case(rng)
        c["H"] = rng.choice([1, 2, 2, 3, 3, 4, 5, 6, 8])
        c["tight"] = 1
        return c

    def cases(self, rng, tier):
        yield from self.small_cases(False)
        if tier != "quick":
            yield from self.small_cases(True)
        n = 3500 if tier == "quick" else 40000
        for _ in range(n):
            yield self.random_case(rng)
        for _ in range(n // 5):
            yield self.deco_case(rng)
        for _ in range(n // 6):
            yield self.tight_case(rng)

    def search_cases(self, rng, tier):
        while True:
            yield self.random_case(rng)

    def shrink_candidates(self, case):
        ops = case["ops"]
        for i in range(len(ops) - 1, -1, -1):
            yield dict(case, ops=ops[:i] + ops[i + 1:])
        for i in range(len(ops) - 1):
            yield dict(case, ops=ops[:i + 1])

    # ---------- not case-shaped: what the model's abstraction relies on in the source ----------
    def extra_checks(self, tier, rng, ev):
        """AST facts the model relies on (reported as violations of the tie when they stop holding)."""
        import ast
        import os
        out = []

        def src(rel):
            return open(os.path.join(core.REPO, rel)).read()
        try:
            gf = src("urwid/widget/grid_flow.py")
            # the display widget is regenerated by every GridFlow method: _invalidate() clears the cache key
            tree = ast.parse(gf)
            ok = False
            for n in ast.walk(tree):
                if isinstance(n, ast.FunctionDef) and n.name == "_invalidate":
                    ok = ok or "self._cache_maxcol = None" in ast.unparse(n)
            if not ok:
                out.append(({"note": "grid_flow.py"}, "tie: GridFlow._invalidate no longer clears _cache_maxcol (the model regenerates the display widget on every call)"))
        except Exception as e:      # pragma: no cover
            out.append(({"note": "grid_flow.py"}, f"tie: cannot inspect grid_flow.py: {type(e).__name__}"))
        return out


CHECK = C08
