"""C14 - signals reach every connected handler exactly once per emit.

A case is a history of operations on the public signal API (register_signal, connect_signal,
disconnect_signal, disconnect_signal_by_key, emit_signal) plus dropping weakly referenced
arguments (del + optionally gc.collect()).  Callbacks are objects that log the call and then
run a script made of the same operations, so they connect / disconnect / emit / drop objects
while an emit is in progress.  Everything observable is logged as flat integer events.
"""
import gc
import sys
import warnings
import weakref

from harness import core

warnings.simplefilter("ignore")

# value returned by a callback for each return code; truthiness is what emit must report
RET_TRUTHY = {0: False, 1: True, 2: False, 3: False, 4: False, 5: True, 6: True, 7: False, 8: True}


# user_data / user argument values of the widget-level stream (index -> value); falsy non-None values included
VALS = [None, 0, False, "", 0.0, (), 1, True, "x", 7, (1,), "0"]


def vrepr(v):
    return "%s:%r" % (type(v).__name__, v)


def retval(code):
    return [False, True, None, 0, "", "x", 7, [], [0]][code]


SIGNAL_NAMES = ["change", "postchange", "click"]       # the names the real widgets use come first
TEXTS_M = ["", "a", "ab", "12"]                         # edit texts of the modelled widget stream (state = index)


def sname(n):
    return SIGNAL_NAMES[n] if 0 <= n < len(SIGNAL_NAMES) else "sig%d" % n


def sid(name):
    if name in SIGNAL_NAMES:
        return SIGNAL_NAMES.index(name)
    return int(name[3:]) if isinstance(name, str) and name.startswith("sig") and name[3:].isdigit() else -1


def oz(v):
    return [0] if v is None else [1, v]


class Runaway(BaseException):
    """The case's budget of callback invocations is used up: the callback refuses to run.  Scripts that
    connect handlers and emit recursively grow exponentially (and a broken emit may never end), so every
    case carries a budget "maxcalls"; the model has the same budget.  Not an Exception: nothing swallows it."""


class W:
    """a weakly referencable argument"""

    def __init__(self, i):
        self.i = i
        self.me = None


class CB:
    """A callback.  Two CB objects with the same callback id are equal (as two bound methods of
    one object are), so disconnect_signal finds it; the serial tells which connect() created
    the handler that is being called (it is the number of that connect among the successful
    ones, i.e. the key number)."""

    def __init__(self, run, cb, serial):
        self.run = run
        self.cb = cb
        self.serial = serial

    def __eq__(self, other):
        return isinstance(other, CB) and other.cb == self.cb

    def __ne__(self, other):
        return not self.__eq__(other)

    def __hash__(self):
        return hash(self.cb)

    def __call__(self, *args):
        run = self.run
        flat = []
        for a in args:
            if isinstance(a, W):
                flat += [1, a.i]
            elif isinstance(a, bool):
                flat += [0, int(a)]                      # a CheckBox state
            elif isinstance(a, int):
                flat += [0, a]
            elif isinstance(a, str) and a in TEXTS_M:
                flat += [0, TEXTS_M.index(a)]            # an Edit text
            elif any(a is w for w in run.senders):
                flat += [2, [i for i, w in enumerate(run.senders) if a is w][0]]     # the sending widget itself
            else:
                flat += [3, 0]
        if run.ncalls >= run.case["maxcalls"]:
            raise Runaway()
        run.ncalls += 1
        run.trace.append([7, self.serial, self.cb, len(args)] + flat)
        ret, ops = run.case["cbs"][self.cb]
        for op in ops:
            run.do_op(op)
        run.trace.append([8, ret])
        return retval(ret)


def errcode(e):
    if isinstance(e, NameError):
        return -1
    if isinstance(e, RecursionError):
        return -3
    if isinstance(e, Runaway):
        return -8
    return -9


def cls_spec(c):
    """a sender class of a case: truthiness, parent class indexes (in base order; earlier classes only), declared
    with the MetaSignals metaclass or not, the `signals` list of its body (None: no such attribute).
    An int is a plain class without bases.  {"w": kind, "sig": [...]} is a real urwid widget class."""
    if isinstance(c, dict):
        p = c.get("p", -1)
        parents = [x for x in p if x >= 0] if isinstance(p, list) else ([p] if p >= 0 else [])
        return bool(c.get("t", 1)), parents, bool(c.get("m", 0)) or "w" in c, c.get("sig")
    return bool(c), [], False, None


def shadow_classes(specs):
    """the same hierarchy built from plain classes: Python's own MRO and attribute lookup, no urwid"""
    shadow = []
    for c in specs:
        _, parents, _, _ = cls_spec(c)
        shadow.append(type("Shadow", tuple(shadow[p] for p in parents), {}))
    return shadow


def mro_indexes(specs):
    sh = shadow_classes(specs)
    return [[sh.index(k) for k in c.__mro__[1:] if k in sh] for c in sh]


def meta_info(specs):
    """Reference computation (independent of urwid and of the Coq model, used by the oracle only): for classes
    created through urwid.MetaSignals (directly, or by subclassing such a class) the names the metaclass
    registers at class creation = the class body's `signals` followed by the `signals` attribute of each base
    class in base order (whatever the base's metaclass), without duplicates.
    Returns {class index: names} in class order."""
    shadow, is_meta, out = [], {}, {}
    for i, c in enumerate(specs):
        _, parents, m, sig = cls_spec(c)
        is_meta[i] = m or any(is_meta[p] for p in parents)
        inherited = [x for p in parents for x in getattr(shadow[p], "signals", [])]
        ns = {}
        if is_meta[i]:
            own = list(sig) if sig is not None else []
            out[i] = list(dict.fromkeys(own + inherited))
            if sig is not None:
                ns["signals"] = own + inherited      # the list of the class body is extended in place
        elif sig is not None:
            ns["signals"] = list(sig)
        shadow.append(type("Shadow", tuple(shadow[p] for p in parents), ns))
    return out


def hierarchy_ok(specs):
    """can Python build these classes at all (consistent method resolution order)?"""
    try:
        shadow_classes(specs)
        return True
    except TypeError:
        return False


def mk_classes(specs, urwid, created=None):
    """build the sender classes; created(i, cls, is_meta) is called right after class i exists"""
    import types
    classes = []
    for i, c in enumerate(specs):
        truthy, parents, m, sig = cls_spec(c)
        if isinstance(c, dict) and "w" in c:
            cls = {"button": urwid.Button, "checkbox": urwid.CheckBox, "edit": urwid.Edit}[c["w"]]
        else:
            ns = {}
            if not truthy:
                ns["__bool__"] = lambda self: False
            if sig is not None:
                ns["signals"] = [sname(n) for n in sig]
            bases = tuple(classes[p] for p in parents)
            kw = {"metaclass": urwid.MetaSignals} if m else {}
            cls = types.new_class("Sender", bases, kw, lambda d, ns=ns: d.update(ns))
        classes.append(cls)
        if created is not None:
            created(i, cls, isinstance(cls, urwid.MetaSignals))
    return classes


class Run:
    def __init__(self, case, sig):
        self.case = case
        self.sig = sig
        self.trace = []
        self.depth = 0
        self.ncalls = 0
        self.fuel = case["fuel"]
        supported = getattr(getattr(sig.signals, "_signals", None), "_supported", {})

        def created(i, cls, is_meta):
            if is_meta:         # what the metaclass registered for the class, read when the class has just been made
                names = [sid(x) for x in supported.get(cls, ())]
                self.trace.append([1, i, len(names)] + names)

        self.classes = mk_classes(case["classes"], sig, created)
        self.own_classes = [k for k, c in zip(self.classes, case["classes"]) if not (isinstance(c, dict) and "w" in c)]
        self.wkind = [case["classes"][c].get("w") if isinstance(case["classes"][c], dict) else None for c in case["senders"]]
        w0 = case.get("wstates") or [0] * len(case["senders"])
        self.senders = []
        for c, k, v in zip(case["senders"], self.wkind, w0):
            if k == "button":
                self.senders.append(self.classes[c]("b"))
            elif k == "checkbox":
                self.senders.append(self.classes[c]("c", bool(v)))
            elif k == "edit":
                self.senders.append(self.classes[c]("", TEXTS_M[v]))
            else:
                self.senders.append(self.classes[c]())
        self.reg = {}
        self.wr = {}
        self.keys = []
        for i, cyc in enumerate(case["objs"]):
            self._mk(i, cyc)

    def _mk(self, i, cyc):
        w = W(i)
        if cyc:
            w.me = w
        self.reg[i] = w
        trace = self.trace
        self.wr[i] = weakref.ref(w, lambda r: trace.append([10, i]))

    def do_op(self, op):
        k = op[0]
        t = self.trace
        sig = self.sig
        if k == "reg":
            sig.register_signal(self.classes[op[1]], [sname(n) for n in op[2]])
            t.append([1, op[1], len(op[2])] + list(op[2]))
        elif k in ("con", "dis"):
            _, s, n, cb, ua, ws, us = op
            head = [2 if k == "con" else 3, s, n, cb] + oz(ua) + [len(ws)] + list(ws) + [len(us)] + list(us)
            if any(w not in self.reg for w in ws):
                t.append(head + [-2])       # cannot pass an object that is no longer referenced
                return
            if k == "con":
                serial = len(self.keys)
                try:
                    key = sig.connect_signal(self.senders[s], sname(n), CB(self, cb, serial), ua,
                                             weak_args=[self.reg[w] for w in ws], user_args=list(us))
                except Exception as e:
                    t.append(head + [errcode(e)])
                    raise
                self.keys.append(key)
                t.append(head + [serial])
            else:
                try:
                    sig.disconnect_signal(self.senders[s], sname(n), CB(self, cb, -1), ua,
                                          weak_args=[self.reg[w] for w in ws], user_args=list(us))
                except Exception as e:
                    t.append(head + [errcode(e)])
                    raise
                t.append(head + [0])
        elif k == "dk":
            _, s, n, kk = op
            key = self.keys[kk] if 0 <= kk < len(self.keys) else object()
            try:
                sig.disconnect_signal_by_key(self.senders[s], sname(n), key)
            except Exception as e:
                t.append([4, s, n, kk, errcode(e)])
                raise
            t.append([4, s, n, kk, 0])
        elif k == "emit":
            _, s, n, args = op
            t.append([5, s, n, len(args)] + list(args))
            if self.depth >= self.fuel:
                t.append([6, -3])
                raise RecursionError("harness depth bound")
            self.depth += 1
            try:
                r = sig.emit_signal(self.senders[s], sname(n), *args)
            except (Exception, Runaway) as e:
                self.depth -= 1
                t.append([6, errcode(e)])
                raise
            self.depth -= 1
            t.append([6, 1 if r is True else 0 if r is False else 3 if r else 2])
        elif k in ("click", "setstate", "settext"):
            s = op[1]
            v = 0 if k == "click" else op[2]
            t.append([13, {"click": 0, "setstate": 1, "settext": 2}[k], s, v])
            if self.depth >= self.fuel:
                t.append([14, -3])
                raise RecursionError("harness depth bound")
            self.depth += 1
            w = self.senders[s]
            try:
                if k == "click":
                    w.keypress((15,), "enter") if (len(t) % 2) else w.mouse_event((15,), "mouse press", 1, 1, 0, True)
                elif k == "setstate":
                    w.set_state(bool(v))
                else:
                    w.set_edit_text(TEXTS_M[v])
            except (Exception, Runaway) as e:
                self.depth -= 1
                t.append([14, errcode(e)])
                raise
            self.depth -= 1
            t.append([14, 0])
        elif k == "kill":
            o = op[1]
            if o not in self.reg:
                t.append([9, o, -2])
                return
            t.append([9, o, 0])
            del self.reg[o]
        elif k == "gc":
            t.append([11])
            gc.collect()
        else:
            raise core.MachineryError("unknown op " + str(k))

    def history(self):
        for op in self.case["ops"]:
            try:
                self.do_op(op)
            except core.MachineryError:
                raise
            except (Exception, Runaway):
                pass        # logged where it happened; leaving this block clears the traceback

    def final(self):
        serial = {k: i for i, k in enumerate(self.keys)}
        out = []
        for s, obj in enumerate(self.senders):
            d = getattr(obj, "_urwid_signals", {})
            for n in range(self.case["nnames"]):
                l = d.get(sname(n), [])
                if l:
                    out.append([s, n, [serial.get(h[0], -1) for h in l]])
        return out

    def dead(self):
        return [o for o in sorted(self.wr) if self.wr[o]() is None]

    def wstate(self):
        out = []
        for k, w in zip(self.wkind, self.senders):
            if k == "checkbox":
                out.append(1 if w.get_state() is True else 0 if w.get_state() is False else -1)
            elif k == "edit":
                out.append(TEXTS_M.index(w.get_edit_text()) if w.get_edit_text() in TEXTS_M else -1)
            else:
                out.append(0)
        return out


def canon_trace(trace):
    """several objects dying at one point die in an unspecified order: sort each run of deaths"""
    out, i = [], 0
    while i < len(trace):
        if trace[i][0] == 10:
            j = i
            while j < len(trace) and trace[j][0] == 10:
                j += 1
            out += sorted(trace[i:j])
            i = j
        else:
            out.append(trace[i])
            i += 1
    return out


_frozen = []


class C14(core.Check):
    pid = "C14"
    gen_modules = []
    model_targets = ["theories/Model/Signals.vo"]
    prop_file = "theories/Properties/C14.v"
    extract_v = "Extract/C14X.v"
    allowed_axioms = set()
    design_ref = "DESIGN.md section 5, C14"
    technique = ("Coq theorems (induction over the emit snapshot, a monotone invariant over all operations and all "
                 "handler scripts, a safety invariant of the flattened call/death trace, induction over histories and over "
                 "class-statement sequences) about a hand-written executable model of urwid/signals.py (Signals, MetaSignals) "
                 "and of the widget methods that emit (Button, CheckBox.set_state, Edit.set_edit_text); "
                 "extracted-model correspondence on event traces; independent reference oracle; weakref/gc heap probes")
    level_text = ("Proved in Coq for every state satisfying the connection-order invariant (which is proved to hold after "
                  "every history), every callback script table (scripts may connect, disconnect, emit and drop objects during "
                  "the emit), every fuel: an emit that returns calls a subsequence of the handlers connected when it started, "
                  "in connection order, each at most once; every handler of the snapshot still connected when the emit returns "
                  "whose weak arguments are alive is called exactly once; a handler is called exactly when it is connected and "
                  "its weak arguments are alive at its turn; handlers disconnected before the emit or with a dead weak argument "
                  "are never called; the result is the OR of the truthiness of the returned values; the arguments are weak args, "
                  "user args, emit args (then the deprecated user_arg); disconnecting by key or by arguments something not "
                  "connected leaves the state unchanged and raises nothing; connecting to an unregistered name raises NameError "
                  "and changes nothing; the death of a weak argument removes exactly the handlers that reference it (any "
                  "sender, also one that is false in a boolean context).  Nested emits use fuel; theorems are about emits that return (out-of-fuel = RecursionError is an "
                  "exception and excluded explicitly).  The model is hand-written and tied to signals.py by an exact "
                  "correspondence of event traces and final handler tables.  A connect is accepted IFF the name is registered for the sender's own class "
                  "(connect_accepted_iff_registered, all states); what the MetaSignals metaclass registers is modelled "
                  "(create_class: body list + getattr(base,'signals') per direct base along the given MRO, deduplicated) and "
                  "proved for every sequence of class statements (metaclass_registration: unaffected by classes created later; "
                  "registers own names, each base's visible attribute, nothing else); the docstring reading 'every name declared "
                  "in the MRO is registered' is REFUTED (metaclass_inherits_every_declared_name_refuted: class D(C), C(A,B)). "
                  "Weak-argument death at any point: for every history the flattened trace of calls and deaths is safe "
                  "(no_call_after_weak_argument_death: after an object died no call receives it; every call passes all weak "
                  "arguments of its handler).  Widgets as users of the machinery, modelled and proved: a Button activation "
                  "emits 'click' once, CheckBox.set_state emits nothing when the state is unchanged and otherwise 'change' "
                  "(widget, new) then 'postchange' (widget, old) exactly once each, Edit.set_edit_text always emits both (old text "
                  "read after the first emit) - each emit with the exactly-once / order / arguments guarantees (emit_once), also "
                  "under re-entrant handlers; tied by correspondence on real Button/CheckBox/Edit senders (kind wmodel). "
                  "Registration is per exact class in model and theorems (unregistered_name_rejected looks only at the "
                  "sender's own class); sender classes that are subclasses of registered classes (single and multiple "
                  "inheritance), declared plainly or through the MetaSignals metaclass (whose registration = own signals + "
                  "those of the base classes is computed by the harness; base classes are exercised after their subclasses "
                  "were created), are part of the correspondence stream.  ORACLE-ONLY widget-level stream (no model, no theorem; the widget "
                  "constructors' callback shorthand, typed falsy user_data, RadioButton groups, IntEdit, typing into an Edit, "
                  "ListBox body replacement): "
                  "Button / CheckBox / RadioButton constructor callbacks with user_data over a value set including falsy "
                  "non-None values (0, False, '', 0.0, ()), connect/disconnect by the same arguments, Edit/IntEdit change and "
                  "postchange, a Button subclass with extra signals, and ListBox body replacement followed by emits and "
                  "modifications of old and new walkers (observed through a counting _invalidate) are judged by a reference "
                  "handler list only.  ORACLE-ONLY (harness, not a theorem): 'the signal "
                  "machinery never keeps a sender or a weak argument alive' is a statement about the CPython heap; it is checked "
                  "by dropping the references and weakref liveness - for senders first under pure reference counting "
                  "(collector disabled, weak arguments outliving the sender: a cycle through the machinery that only the "
                  "cyclic collector frees counts as keeping the sender alive), then after gc.collect() -, at every drop point of every history and at "
                  "the end of each case.")
    level_note = ("Trusted: Coq kernel, ExtrOcamlBasic extraction + OCaml driver, the hand-written model (validated by the "
                  "correspondence, not proved against CPython), the Python oracle, CPython reference counting / gc.collect() as "
                  "the notion of 'garbage-collected'.  Assumes callbacks that do not catch exceptions of nested operations; "
                  "senders stay alive during a history; callbacks compare equal by callback id.")
    rule = ("case = (fuel = emit nesting bound, maxcalls = total callback-invocation budget, sender classes with truthiness, senders, weakly referencable objects (plain or in a reference "
            "cycle), callback scripts, top-level operation list) over register/connect/disconnect/disconnect_by_key/emit/"
            "drop-object/gc.collect; exhaustive scenarios: n<=3 (quick) or n<=4 (thorough) handlers x one or two scripted "
            "behaviours x positions x targets x weak-argument patterns x return patterns, plus random histories; "
            "class hierarchies A<-B<-C (plain / MetaSignals) x register_signal patterns x every (sender class, name); "
            "modelled widget stream (kind wmodel): real Button/CheckBox/Edit senders, random connect/disconnect/emit/drop/"
            "click/set_state/set_edit_text histories with scripted (re-entrant) handlers, compared with the model; "
            "widget-level stream (oracle only): every constructor-callback widget x 12 user_data values x activation kinds, "
            "random connect/disconnect/activate/drop-weak-argument sequences on buttons, check boxes, radio groups, edits; "
            "random ListBox body swaps over 2-3 walkers and 1-2 list boxes with emits/appends/pops on every walker; "
            "non-trivial = at least one handler was called; distinct by hash of (case, outcome)")
    trusted_base = [
        "Coq 8.16.1 kernel (coqc; vm_compute used only for closed examples)",
        "extraction: ExtrOcamlBasic only; Z/positive stay Coq datatypes; OCaml 4.13.1",
        "tools/driver/driver.ml (int <-> Z conversion, line I/O)",
        "hand-written model Model/Signals.v of urwid/signals.py (Signals, MetaSignals.__init__) and of Button._emit('click'), "
        "CheckBox.set_state, Edit.set_edit_text (validated by the trace correspondence, not proved against Python)",
        "Python's method resolution order (computed by Python on a shadow hierarchy and handed to the model as data)",
        "the harness instrumentation (callback objects, death-logging weakrefs, depth bound standing for the recursion limit)",
        "CPython reference counting and gc.collect() as the meaning of 'garbage-collected' (heap clause is oracle-only)",
        "Python oracle in harness/props/c14.py",
        "widget-level stream: the documented widget contracts (callback(widget [, state] [, user_data]); Button/CheckBox "
        "docstrings) as the reference; no model behind it",
    ]
    assumptions = [
        "callback scripts do not catch exceptions raised by the operations they perform",
        "senders stay referenced during a history (they are dropped only in the final heap probe)",
        "callbacks are compared by ==; the harness callbacks are equal exactly when their callback ids are",
        "signal names, user arguments and emitted arguments are integers/strings compared by ==",
        "theorems about emit are about emits that return normally (no exception; in particular the nesting fuel and the "
        "per-case callback-invocation budget, which the harness imposes on implementation and model alike, are not exhausted)",
    ]

    # ---------- implementation: widget-level streams ----------
    def run_widget(self, case):
        import urwid
        gc.freeze()
        log = []
        widgets = []

        def canon(a):
            for i, w in enumerate(widgets):
                if a is w:
                    return ["w", i]
            if isinstance(a, W):
                return ["o", a.i]
            return ["v", vrepr(a)]

        class CBW:
            def __init__(self, cb, serial):
                self.cb, self.serial = cb, serial

            def __eq__(self, other):
                return isinstance(other, CBW) and other.cb == self.cb

            def __hash__(self):
                return hash(self.cb)

            def __call__(self, *args):
                log.append([self.serial, self.cb, [canon(a) for a in args]])

        class ButtonSub(urwid.Button):
            signals = ["extra"]

        objs = {0: W(0), 1: W(1)}
        group = []
        serial = 0
        size = (15,)
        for k, cb, d, state in case["widgets"]:
            f = None
            if cb is not None and k in ("button", "button_sub", "checkbox", "radio"):
                f = CBW(cb, serial)
                serial += 1
            try:
                if k == "button":
                    w = urwid.Button("b", f, VALS[d])
                elif k == "button_sub":
                    w = ButtonSub("b", f, VALS[d])
                elif k == "checkbox":
                    w = urwid.CheckBox("c", bool(state), False, f, VALS[d])
                elif k == "radio":
                    w = urwid.RadioButton(group, "r", bool(state), f, VALS[d])
                elif k == "edit":
                    w = urwid.Edit("", "ab")
                elif k == "intedit":
                    w = urwid.IntEdit("", 12)
                else:
                    raise core.MachineryError("unknown widget kind " + str(k))
            except core.MachineryError:
                raise
            except Exception as e:
                return {"outs": [], "ctor_exc": [k, type(e).__name__]}
            widgets.append(w)

        def states():
            out = []
            for (k, _, _, _), w in zip(case["widgets"], widgets):
                if k in ("checkbox", "radio"):
                    out.append(vrepr(w.get_state()))
                elif k in ("edit", "intedit"):
                    out.append(vrepr(w.get_edit_text()))
                else:
                    out.append(None)
            return out

        outs = []
        for st in case["steps"]:
            if st[0] in ("con", "dis"):
                _, wi, sig, cb, ua, us, ws = st
                if any(o not in objs for o in ws):
                    outs.append("skip")
                    continue
                fn = urwid.connect_signal if st[0] == "con" else urwid.disconnect_signal
                f = CBW(cb, serial if st[0] == "con" else -1)
                if st[0] == "con":
                    serial += 1
                try:
                    fn(widgets[wi], sig, f, None if ua is None else VALS[ua],
                       weak_args=[objs[o] for o in ws], user_args=[VALS[i] for i in us])
                    outs.append("ok")
                except Exception as e:
                    outs.append(type(e).__name__)
            elif st[0] == "kill":
                objs.pop(st[1], None)
                gc.collect()
                outs.append("ok")
            elif st[0] == "act":
                _, wi, how = st
                w = widgets[wi]
                before = states()
                del log[:]
                exc = None
                try:
                    if how == "enter":
                        w.keypress(size, "enter")
                    elif how in ("space", "key"):
                        w.keypress(size, " ")
                    elif how == "mouse":
                        w.mouse_event(size, "mouse press", 1, 1, 0, True)
                    elif how == "toggle":
                        w.toggle_state()
                    elif how in ("set0", "set1"):
                        w.set_state(how == "set1")
                    elif how.startswith("set:"):
                        w.set_edit_text(self.TEXTS[int(how[4:])])
                    elif how.startswith("key:"):
                        w.keypress(size, how[4:])
                    else:
                        raise core.MachineryError("unknown action " + how)
                except core.MachineryError:
                    raise
                except Exception as e:
                    exc = type(e).__name__
                outs.append({"calls": [list(c) for c in log], "before": before, "after": states(), "exc": exc})
            else:
                raise core.MachineryError("unknown step " + str(st[0]))
        return {"outs": outs}

    def run_listbox(self, case):
        import urwid
        gc.freeze()
        counts = []

        class CountingListBox(urwid.ListBox):
            idx = 0

            def _invalidate(self):
                counts[self.idx] += 1
                super()._invalidate()

        try:
            walkers = [(urwid.SimpleFocusListWalker if k == "sflw" else urwid.SimpleListWalker)([urwid.Text("a")])
                       for k in case["walkers"]]
            lbs = []
            for i, w in enumerate(case["lbs"]):
                counts.append(0)
                lb = CountingListBox(walkers[w])
                lb.idx = i
                lbs.append(lb)
        except Exception as e:
            return {"outs": [], "ctor_exc": ["listbox", type(e).__name__]}
        outs = []
        for st in case["steps"]:
            for i in range(len(counts)):
                counts[i] = 0
            exc = None
            try:
                if st[0] == "body":
                    lbs[st[1]].body = walkers[st[2]]
                elif st[0] == "same":
                    lbs[st[1]].body = lbs[st[1]].body
                elif st[0] == "emit":
                    urwid.emit_signal(walkers[st[1]], "modified")
                elif st[0] == "append":
                    walkers[st[1]].append(urwid.Text("x"))
                elif st[0] == "pop":
                    walkers[st[1]].pop()
                else:
                    raise core.MachineryError("unknown step " + str(st[0]))
            except core.MachineryError:
                raise
            except Exception as e:
                exc = type(e).__name__
            outs.append([list(counts), exc])
        return {"outs": outs}

    # ---------- implementation ----------
    def run_impl(self, case):
        import urwid
        if case.get("kind") == "widget":
            return self.run_widget(case)
        if case.get("kind") == "listbox":
            return self.run_listbox(case)
        # every gc.collect() below must only look at this case's objects: park everything that
        # exists now (results kept by the pipeline included) in the permanent generation
        if not _frozen:
            gc.collect()
            _frozen.append(1)
        gc.freeze()
        was = gc.isenabled()
        gc.disable()
        unraisable = []
        old_hook = sys.unraisablehook
        sys.unraisablehook = lambda u: unraisable.append(type(u.exc_value).__name__ if u.exc_value is not None else "?")
        run = Run(case, urwid)
        try:
            run.history()
            trace = canon_trace(list(run.trace))
            final = run.final()
            dead = run.dead()
            wstate = run.wstate()
            # ---- heap probe (oracle-only clause) ----
            sender_wr = [weakref.ref(o) for o in run.senders]
            run.senders = None
            # first by reference counting (the collector is disabled, nothing has been collected yet, the weak
            # arguments still alive outlive the senders): a reference cycle through the machinery that only the
            # cyclic collector can free counts as keeping the sender alive
            senders_kept_rc = [i for i, r in enumerate(sender_wr) if r() is not None]
            gc.collect()
            senders_kept = [i for i, r in enumerate(sender_wr) if r() is not None]
            run.reg.clear()
            gc.collect()
            objs_kept = [o for o in sorted(run.wr) if run.wr[o]() is not None]
        finally:
            sys.unraisablehook = old_hook
            sup = getattr(getattr(urwid.signals, "_signals", None), "_supported", None)
            if isinstance(sup, dict):
                for c in run.own_classes:
                    sup.pop(c, None)
            if was:
                gc.enable()
        return {"trace": trace, "final": final, "dead": dead, "wstate": wstate,
                "heap": {"senders_kept_refcount": senders_kept_rc, "senders_kept": senders_kept, "objs_kept": objs_kept,
                         "unraisable": unraisable}}

    # ---------- model wire format ----------
    @staticmethod
    def enc_op(op):
        k = op[0]
        if k == "reg":
            return [1, op[1], len(op[2])] + list(op[2])
        if k in ("con", "dis"):
            _, s, n, cb, ua, ws, us = op
            return [2 if k == "con" else 3, s, n, cb] + oz(ua) + [len(ws)] + list(ws) + [len(us)] + list(us)
        if k == "dk":
            return [4, op[1], op[2], op[3]]
        if k == "emit":
            return [5, op[1], op[2], len(op[3])] + list(op[3])
        if k == "kill":
            return [6, op[1]]
        if k == "gc":
            return [7]
        if k == "click":
            return [8, op[1], 2]
        if k == "setstate":
            return [9, op[1], 0, 1, op[2]]
        if k == "settext":
            return [10, op[1], 0, 1, op[2]]
        raise core.MachineryError("unknown op " + str(k))

    def encode(self, case):
        if case.get("kind") in ("widget", "listbox"):
            return None          # widget-level streams are judged by the oracle only
        l = [case["fuel"], case["nnames"], case["maxcalls"]]
        specs = case["classes"]
        mros = mro_indexes(specs)
        l.append(len(specs))
        for c, mro in zip(specs, mros):
            _, parents, m, sig = cls_spec(c)
            l += [1 if m else 0, len(parents)] + list(parents) + [len(mro)] + list(mro)
            l += [0] if sig is None else [1, len(sig)] + list(sig)
        l += [len(case["senders"])] + list(case["senders"])
        w0 = case.get("wstates") or [0] * len(case["senders"])
        l += [len(w0)] + list(w0)
        l += [len(case["objs"])] + [1 if c else 0 for c in case["objs"]]
        l.append(len(case["cbs"]))
        for ret, ops in case["cbs"]:
            l += [ret, len(ops)]
            for op in ops:
                l += self.enc_op(op)
        l.append(len(case["ops"]))
        for op in case["ops"]:
            l += self.enc_op(op)
        return l

    def decode(self, case, ints):
        it = iter(ints)
        try:
            nev = next(it)
            if nev < 0:
                return {"malformed": ints[:50]}
            trace = []
            for _ in range(nev):
                ln = next(it)
                trace.append([next(it) for _ in range(ln)])
            nfin = next(it)
            final = []
            for _ in range(nfin):
                s, n, ln = next(it), next(it), next(it)
                final.append([s, n, [next(it) for _ in range(ln)]])
            nd = next(it)
            dead = [next(it) for _ in range(nd)]
            nw = next(it)
            wstate = [next(it) for _ in range(nw)]
        except StopIteration:
            return {"malformed": ints[:50]}
        # the heap clause is not modelled: the expected value is the constant "nothing kept alive"
        return {"trace": trace, "final": final, "dead": dead, "wstate": wstate,
                "heap": {"senders_kept_refcount": [], "senders_kept": [], "objs_kept": [], "unraisable": []}}

    # ---------- oracle: a plain reference list per (sender, name), written from the property text ----------
    def analyse_widget(self, case, res):
        """reference: per (widget, signal) the list of handlers the case connected (constructor callbacks are
        connect_signal(widget, 'click'/'change', callback, user_data), as the widget docstrings say)"""
        msgs, obs = [], {}

        def note(k, n=1):
            obs[k] = obs.get(k, 0) + n

        if res.get("ctor_exc"):
            return [f"constructing a {res['ctor_exc'][0]} (with its documented callback arguments) raised {res['ctor_exc'][1]}"], obs
        hs = []                     # by serial
        kinds = [w[0] for w in case["widgets"]]

        def val(i):
            return None if i is None else VALS[i]

        for wi, (k, cb, d, _) in enumerate(case["widgets"]):
            if cb is not None and k in ("button", "button_sub", "checkbox", "radio"):
                hs.append({"w": wi, "sig": self.WIDGET_SIGNALS[k][0], "cb": cb, "ua": VALS[d], "us": [], "ws": [], "state": "on"})
        for st, out in zip(case["steps"], res["outs"]):
            if st[0] in ("con", "dis"):
                _, wi, sig, cb, ua, us, ws = st
                if out == "skip":
                    continue
                if st[0] == "con":
                    supported = sig in self.WIDGET_SIGNALS[kinds[wi]]
                    h = {"w": wi, "sig": sig, "cb": cb, "ua": val(ua), "us": [VALS[i] for i in us], "ws": list(ws),
                         "state": "on" if out == "ok" else "never"}
                    hs.append(h)
                    if not supported:
                        note("widget_connect_unregistered")
                        if out == "ok":
                            msgs.append(f"connect to signal {sig!r}, not registered for a {kinds[wi]}, was accepted")
                    continue
                cands = [h for h in hs if h["state"] in ("on", "maybe") and (h["w"], h["sig"], h["cb"], h["ws"]) == (wi, sig, cb, list(ws))
                         and h["ua"] == val(ua) and h["us"] == [VALS[i] for i in us]]
                if out != "ok":
                    if not cands:
                        msgs.append(f"disconnect of a handler that is not connected raised {out}")
                    continue
                strict = [h for h in cands if vrepr(h["ua"]) == vrepr(val(ua)) and [vrepr(x) for x in h["us"]] == [vrepr(VALS[i]) for i in us]]
                if not cands:
                    note("widget_disconnect_absent")
                elif len(cands) == 1 and strict and cands[0]["state"] == "on":
                    cands[0]["state"] = "off"
                    note("widget_disconnect")
                else:
                    note("widget_disconnect_ambiguous")
                    for h in cands:
                        h["state"] = "maybe"
            elif st[0] == "kill":
                for h in hs:
                    if st[1] in h["ws"] and h["state"] in ("on", "maybe"):
                        h["state"] = "dead"
            elif st[0] == "act":
                _, wi, how = st
                note("widget_activations")
                calls = out["calls"]
                for serial, cb, args in calls:
                    note("widget_calls")
                    if not (0 <= serial < len(hs)):
                        msgs.append(f"a callback that was never connected was called (serial {serial})")
                        continue
                    h = hs[serial]
                    if h["state"] in ("off", "never"):
                        msgs.append(f"{kinds[h['w']]} {h['sig']!r}: a handler that was disconnected before the emit was called")
                    elif h["state"] == "dead":
                        msgs.append(f"{kinds[h['w']]} {h['sig']!r}: a handler whose weak argument died was called")
                if out["exc"]:
                    note("widget_action_raised")
                    continue
                expected = []
                for j, k in enumerate(kinds):
                    b, a = out["before"][j], out["after"][j]
                    if k in ("button", "button_sub"):
                        if j == wi:
                            expected.append((j, "click", [["w", j]]))
                    elif b != a:
                        expected.append((j, "change", [["w", j], ["v", a]]))
                        expected.append((j, "postchange", [["w", j], ["v", b]]))
                for j, sig, E in expected:
                    H = [s for s, h in enumerate(hs) if (h["w"], h["sig"]) == (j, sig) and h["state"] == "on"]
                    got = [c for c in calls if c[0] in H]
                    if [c[0] for c in got] != H:
                        for s in H:
                            n = sum(1 for c in got if c[0] == s)
                            if n != 1:
                                msgs.append(f"{kinds[j]} {sig!r}: a connected handler was called {n} times by one emit")
                        if sorted(c[0] for c in got) == sorted(H):
                            msgs.append(f"{kinds[j]} {sig!r}: handlers called out of connection order")
                        continue
                    for s, cb, args in got:
                        h = hs[s]
                        exp = [["o", o] for o in h["ws"]] + [["v", vrepr(x)] for x in h["us"]] + E \
                            + ([["v", vrepr(h["ua"])]] if h["ua"] is not None else [])
                        if args != exp:
                            msgs.append(f"{kinds[j]} {sig!r}: handler connected with user_arg={h['ua']!r} user_args={h['us']!r} "
                                        f"received {args}, expected {exp}")
        return msgs, obs

    def analyse_listbox(self, case, res):
        msgs, obs = [], {}
        if res.get("ctor_exc"):
            return [f"constructing a list box over a list walker raised {res['ctor_exc'][1]}"], obs
        body = list(case["lbs"])
        for st, (counts, exc) in zip(case["steps"], res["outs"]):
            if st[0] == "body":
                if exc is None:
                    body[st[1]] = st[2]
                obs["listbox_body_swaps"] = obs.get("listbox_body_swaps", 0) + 1
                continue
            if st[0] == "same" or exc is not None:
                continue
            w = st[1]
            for i, n in enumerate(counts):
                if body[i] != w and n:
                    msgs.append(f"a list walker that is no longer (or never was) the body of list box {i} reached its "
                                f"_invalidate handler {n} time(s) on {st[0]}")
                elif body[i] == w and st[0] == "emit" and n != 1:
                    msgs.append(f"emit of 'modified' by the body of list box {i} called its handler {n} times")
                elif body[i] == w and n == 0:
                    msgs.append(f"{st[0]} on the body of list box {i} did not reach its 'modified' handler")
            obs["listbox_emits"] = obs.get("listbox_emits", 0) + 1
        return msgs, obs

    def analyse(self, case, res):
        if case.get("kind") == "widget":
            return self.analyse_widget(case, res)
        if case.get("kind") == "listbox":
            return self.analyse_listbox(case, res)
        msgs, obs = [], {}

        def note(k, n=1):
            obs[k] = obs.get(k, 0) + n

        if "trace" not in res:
            return ["malformed implementation result"], obs
        cls_of = case["senders"]
        registered = {}
        conn = {}           # (s, n) -> handlers possibly connected, in connection order
        allh = {}           # key -> handler
        stack = []          # active emit frames and call frames
        killed = set()

        def emits_on(sn):
            out = [f for f in stack if f["t"] == "emit" and f["sn"] == sn]
            for f in stack:
                if f["t"] == "wop" and sn in f["subs"]:
                    out.append(f["subs"][sn])
            return out

        def emit_frame(sn, eargs):
            start = [h for h in conn.get(sn, [])]
            return {"t": "emit", "sn": sn, "eargs": eargs,
                    "start": [h["key"] for h in start if h["state"] == "on"],
                    "maybe": {h["key"] for h in start if h["state"] == "maybe"},
                    "lost": {h["key"] for h in start if h["deadarg"]},
                    "late": set(), "calls": [], "rets": [], "argvs": []}

        def check_args(E, key, h, argv):
            pre = [x for w in h["ws"] for x in (1, w)] + [x for u in h["us"] for x in (0, u)]
            suf = [0, h["ua"]] if h["ua"] is not None else []
            if E["eargs"] is None:
                if argv[:len(pre)] != pre or (suf and argv[-2:] != suf):
                    msgs.append(f"handler {key} received arguments {argv}, expected weak and user arguments {pre} first")
                return
            exp = pre + E["eargs"]
            if h["ua"] is None:
                if argv != exp:
                    msgs.append(f"handler {key} received arguments {argv}, expected weak, user, emitted = {exp}")
            else:
                note("deprecated_user_arg_calls")
                if argv[:len(exp)] != exp:
                    msgs.append(f"handler {key} received arguments {argv}, expected to start with {exp}")

        def judge_once(E):
            must = [k for k in E["start"] if k not in E["lost"]]
            mset = set(must)
            got = [k for k in E["calls"] if k in mset]
            if got != must:
                for k in must:
                    c = got.count(k)
                    if c == 0:
                        msgs.append(f"handler {k} stayed connected throughout the emit of {E['sn']} but was never called")
                    elif c > 1:
                        msgs.append(f"handler {k} stayed connected throughout the emit but was called {c} times")
                if sorted(got) == sorted(must):
                    msgs.append(f"handlers called in order {got}, connection order is {must}")
            if E["lost"]:
                note("emits_with_handler_lost_midway")

        # reference state of the widget senders (None = not known any more)
        wref = list(case.get("wstates") or [0] * len(cls_of))

        def lose(h):
            for f in emits_on(h["sn"]):
                f["lost"].add(h["key"])

        # Which names a class declared through MetaSignals supports when several levels / several bases are
        # involved is only loosely documented ("including signals in superclasses"): a name declared by the class or
        # any of its ancestors is never counted as "not registered" for it, until register_signal() names the class
        # explicitly.  (The exact set urwid registers is pinned by the correspondence, not by this oracle.)
        anc_names, n_meta = {}, len(meta_info(case["classes"]))
        for i, c in enumerate(case["classes"]):
            _, parents, _, sig = cls_spec(c)
            anc_names[i] = set(sig or ()).union(*[anc_names[p] for p in parents]) if parents else set(sig or ())
        n_reg_events = 0

        for ev in res["trace"]:
            t = ev[0]
            if t == 1:
                registered[ev[1]] = set(ev[3:3 + ev[2]])
                n_reg_events += 1
                if n_reg_events > n_meta:
                    anc_names[ev[1]] = set()      # explicit register_signal: exactly these names
            elif t in (2, 3):
                s, n, cb = ev[1], ev[2], ev[3]
                p = 4
                if ev[p] == 0:
                    ua, p = None, p + 1
                else:
                    ua, p = ev[p + 1], p + 2
                ws = ev[p + 1:p + 1 + ev[p]]
                p += 1 + ev[p]
                us = ev[p + 1:p + 1 + ev[p]]
                p += 1 + ev[p]
                out = ev[p]
                if out == -2:
                    note("op_not_run")
                    continue
                sn = (s, n)
                if t == 2:
                    unreg = n not in registered.get(cls_of[s], ()) and n not in anc_names.get(cls_of[s], ())
                    if unreg:
                        note("connect_unregistered")
                        if out >= 0:
                            msgs.append(f"connect to signal name {n} not registered for the class of sender {s} was accepted")
                    if out >= 0:
                        h = {"key": out, "sn": sn, "cb": cb, "ua": ua, "ws": ws, "us": us, "state": "on", "deadarg": False}
                        allh[out] = h
                        conn.setdefault(sn, []).append(h)
                        for f in emits_on(sn):
                            f["late"].add(out)
                else:
                    cands = [h for h in conn.get(sn, []) if (h["cb"], h["ua"], h["ws"], h["us"]) == (cb, ua, ws, us)
                             and not h["deadarg"]]
                    if out != 0:
                        if not cands:
                            msgs.append(f"disconnect of a handler that is not connected raised (code {out})")
                        continue
                    if not cands:
                        note("disconnect_absent")
                    elif len(cands) == 1 and cands[0]["state"] == "on":
                        cands[0]["state"] = "off"
                        conn[sn].remove(cands[0])
                        lose(cands[0])
                    else:
                        # which of several equal handlers goes is not stated: stop judging them
                        note("disconnect_ambiguous")
                        for h in cands:
                            h["state"] = "maybe"
                            lose(h)
            elif t == 4:
                s, n, k, out = ev[1], ev[2], ev[3], ev[4]
                h = allh.get(k)
                present = h is not None and h["sn"] == (s, n) and h["state"] != "off"
                if out != 0:
                    if not present:
                        msgs.append(f"disconnect_by_key of a key that is not connected raised (code {out})")
                    continue
                if present:
                    h["state"] = "off"
                    conn[(s, n)].remove(h)
                    lose(h)
                else:
                    note("disconnect_absent")
            elif t == 5:
                sn = (ev[1], ev[2])
                stack.append(emit_frame(sn, [x for a in ev[4:4 + ev[3]] for x in (0, a)]))
                note("emits")
                if len([f for f in stack if f["t"] in ("emit", "wop")]) > 1:
                    note("nested_emits")
            elif t == 13:
                code, s, v = ev[1], ev[2], ev[3]
                note("widget_methods")
                for f in stack:
                    if f["t"] == "wop" and f["s"] == s and code != 0 and f["code"] != 0:
                        f["tainted"] = True        # re-entrant state change: what "old" is, is not observable
                        wref[s] = None
                frame = {"t": "wop", "code": code, "s": s, "v": v, "tainted": wref[s] is None and code != 0, "old": wref[s]}
                if code == 0:
                    frame["subs"] = {(s, 2): emit_frame((s, 2), [2, s])}
                else:
                    frame["subs"] = {(s, 0): emit_frame((s, 0), [2, s, 0, v]), (s, 1): emit_frame((s, 1), None)}
                stack.append(frame)
            elif t == 7:
                key, cb, argv = ev[1], ev[2], ev[4:]
                top = stack[-1] if stack else None
                stack.append({"t": "call", "key": key})
                note("calls")
                if top is None or top["t"] not in ("emit", "wop"):
                    msgs.append("a handler was called outside any emit")
                    continue
                h = allh.get(key)
                if h is None:
                    msgs.append(f"a callback that was never connected was called (serial {key})")
                    continue
                if top["t"] == "wop":
                    E = top["subs"].get(h["sn"])
                    if E is None:
                        msgs.append(f"a widget method of sender {top['s']} called handler {key} connected to {h['sn']}")
                        continue
                else:
                    E = top
                    if h["sn"] != E["sn"]:
                        msgs.append(f"emit of {E['sn']} called handler {key} connected to {h['sn']}")
                        continue
                E["calls"].append(key)
                E["argvs"].append(argv)
                if h["deadarg"]:
                    msgs.append(f"handler {key} was called although one of its weak arguments had died")
                if key in E["late"]:
                    note("called_handler_connected_during_emit")
                elif key not in E["start"] and key not in E["maybe"]:
                    msgs.append(f"handler {key} was already disconnected when the emit started but was called")
                elif key in E["lost"] and not h["deadarg"]:
                    note("called_after_disconnect_during_emit")
                if top["t"] == "emit":
                    check_args(E, key, h, argv)
            elif t == 8:
                if stack and stack[-1]["t"] == "call":
                    stack.pop()
                    if stack and stack[-1]["t"] == "emit":
                        stack[-1]["rets"].append(RET_TRUTHY.get(ev[1], False))
            elif t == 6:
                while stack and stack[-1]["t"] != "emit":
                    stack.pop()
                if not stack:
                    msgs.append("emit end without start")
                    continue
                E = stack.pop()
                out = ev[1]
                if out < 0:
                    note("emit_aborted_by_exception")
                    continue
                judge_once(E)
                if len(E["rets"]) == len(E["calls"]):
                    exp = any(E["rets"])
                    if (out in (1, 3)) != exp:
                        msgs.append(f"emit returned {out in (1, 3)} but the handlers' return values say {exp}")
            elif t == 14:
                while stack and stack[-1]["t"] != "wop":
                    stack.pop()
                if not stack:
                    msgs.append("widget method end without start")
                    continue
                F = stack.pop()
                s, code, v = F["s"], F["code"], F["v"]
                if ev[1] != 0:
                    note("widget_method_aborted")
                    if code != 0:
                        wref[s] = None
                    continue
                if code != 0 and F["tainted"]:
                    note("widget_method_reentrant")
                    continue
                emitted = code in (0, 2) or F["old"] != v       # CheckBox.set_state emits only on a state change
                if code != 0:
                    F["subs"][(s, 1)]["eargs"] = [2, s, 0, F["old"]]
                    wref[s] = v
                if not emitted:
                    note("widget_state_unchanged")
                    continue
                note("widget_state_changes")
                for E in F["subs"].values():
                    judge_once(E)
                    for key, argv in zip(E["calls"], E["argvs"]):
                        check_args(E, key, allh[key], argv)
            elif t == 9:
                if ev[2] == 0:
                    killed.add(ev[1])
            elif t == 10:
                o = ev[1]
                note("deaths")
                if stack:
                    note("deaths_during_emit")
                for h in allh.values():
                    if o in h["ws"] and not h["deadarg"]:
                        h["deadarg"] = True
                        if h["state"] != "off":
                            lose(h)
            elif t == 11:
                note("gc_collect")
        # ---- heap clause (oracle-only) ----
        heap = res.get("heap", {})
        for o in sorted(killed):
            if not case["objs"][o] and o not in res.get("dead", []):
                msgs.append(f"weak argument object {o} was dropped by its owner but is still alive at top level")
        if heap.get("senders_kept"):
            msgs.append(f"senders {heap['senders_kept']} are kept alive after their owner dropped them")
        elif heap.get("senders_kept_refcount"):
            msgs.append(f"senders {heap['senders_kept_refcount']} are not released when their owner drops them: a reference "
                        f"cycle through the signal machinery keeps them alive until the cyclic garbage collector runs")
        if heap.get("objs_kept"):
            msgs.append(f"weak argument objects {heap['objs_kept']} are kept alive after their owner dropped them")
        if heap.get("unraisable"):
            msgs.append(f"exceptions in weakref callbacks / finalisers: {heap['unraisable']}")
        return msgs, obs

    def oracle(self, case, res):
        return self.analyse(case, res)[0]

    def nontrivial(self, case, res):
        if case.get("kind") == "widget":
            return any(isinstance(o, dict) and o["calls"] for o in res.get("outs", []))
        if case.get("kind") == "listbox":
            return any(any(o[0]) for o in res["outs"])
        return any(e[0] == 7 for e in res.get("trace", []))

    def signature(self, case, msg):
        import re
        return re.sub(r"\d+", "N", msg)

    def distribution(self, case, res, dist):
        _, obs = self.analyse(case, res)
        for k, v in obs.items():
            dist[k] = dist.get(k, 0) + v
        for e in res.get("trace", []):
            k = "ev:%d" % e[0]
            dist[k] = dist.get(k, 0) + 1
            if e[0] in (2, 3, 4, 6, 9):
                k = "ev:%d:out:%s" % (e[0], "key" if e[0] == 2 and e[-1] >= 0 else e[-1])
                dist[k] = dist.get(k, 0) + 1
        k = "kind:" + case.get("kind", "?")
        dist[k] = dist.get(k, 0) + 1
        dist["max_trace_len"] = max(dist.get("max_trace_len", 0), len(res.get("trace", [])))

    # ---------- generators ----------
    @staticmethod
    def scenario(n, behaviours, wpat, rets, extra_ops=(), falsy=False, gc_after=False):
        """n handlers (callback i, user args [100+i]) connected in order to signal 0 of sender 0;
        behaviours: {position: script ops}; wpat: {position: weak arg ids}; rets: return codes."""
        cbs = []
        for i in range(n):
            cbs.append([rets[i], list(behaviours.get(i, []))])
        # auxiliary callbacks: n = plain (returns True), n+1 = plain on signal 1 (returns False)
        cbs.append([1, []])
        cbs.append([0, []])
        ops = [["reg", 0, [0, 1]]]
        ops.append(["con", 0, 1, n + 1, None, [], [201]])
        for i in range(n):
            ops.append(["con", 0, 0, i, None, list(wpat.get(i, [])), [100 + i]])
        ops += list(extra_ops)
        ops.append(["emit", 0, 0, [7, 8]])
        if gc_after:
            ops.append(["gc"])
        ops.append(["emit", 0, 0, []])
        ops.append(["emit", 0, 1, [9]])
        return {"kind": "scenario", "fuel": 2, "nnames": 3, "maxcalls": 200, "classes": [0 if falsy else 1], "senders": [0],
                "objs": [0, 1, 0], "cbs": cbs, "ops": ops}

    @staticmethod
    def behaviours(n, p, q):
        """scripts for the handler at position p aimed at the handler at position q; key of handler i is i + 1
        (the auxiliary handler on signal 1 is connected first and has key 0)"""
        con = lambda i, ws=(): ["con", 0, 0, i, None, list(ws), [100 + i]]
        return {
            "nop": [],
            "dk_target": [["dk", 0, 0, q + 1]],
            "dis_target": [["dis", 0, 0, q, None, [], [100 + q]]],
            "dk_absent": [["dk", 0, 0, 77], ["dk", 0, 1, q + 1]],
            "dis_absent": [["dis", 0, 0, q, None, [], [999]], ["dis", 0, 1, q, None, [], [100 + q]]],
            "connect_new": [["con", 0, 0, n, None, [], [300]]],
            "connect_dup": [con(q)],
            "reconnect": [["dk", 0, 0, q + 1], con(q)],
            "connect_unreg": [["con", 0, 2, n, None, [], []]],
            "emit_other": [["emit", 0, 1, [5]]],
            "emit_same": [["emit", 0, 0, [6]]],
            "kill0": [["kill", 0]],
            "kill0_gc": [["kill", 0], ["gc"]],
            "kill1": [["kill", 1]],
            "kill1_gc": [["kill", 1], ["gc"]],
            "dk_all": [["dk", 0, 0, i + 1] for i in range(n)],
            "dk_then_emit_other": [["dk", 0, 0, q + 1], ["emit", 0, 1, []]],
        }

    WPATS = [{}, {"q": [0]}, {"q": [1]}, {"q": [0, 1]}, {"p": [0]}, {"p": [0], "q": [0]}, {"p": [1], "q": [0, 1]},
             {"all": [0]}, {"all": [1]}]

    def wpat(self, pat, n, p, q):
        out = {}
        for k, ws in pat.items():
            if k == "all":
                for i in range(n):
                    out[i] = list(ws)
            elif k == "p":
                out[p] = out.get(p, []) + list(ws)
            else:
                out[q] = out.get(q, []) + list(ws)
        return out

    def exhaustive(self, nmax, rng, pairs):
        for n in range(1, nmax + 1):
            for p in range(n):
                for q in range(n):
                    bs = self.behaviours(n, p, q)
                    for bname, script in bs.items():
                        kills = "kill" in bname
                        for pat in (self.WPATS if kills else self.WPATS[:2] + self.WPATS[5:6]):
                            if not kills and pat and q == p and "p" in pat:
                                continue
                            w = self.wpat(pat, n, p, q)
                            for rets in ([0] * n, [1 if i == q else 2 for i in range(n)], [5 if i == n - 1 else 4 for i in range(n)]):
                                for falsy in ((False, True) if kills else (False,)):
                                    c = self.scenario(n, {p: script}, w, rets, falsy=falsy, gc_after=kills)
                                    c["kind"] = "scenario1"
                                    yield c
        if pairs:
            # two scripted handlers
            for n in range(2, nmax + 1):
                for p1 in range(n):
                    for p2 in range(n):
                        if p1 == p2:
                            continue
                        for q1 in range(n):
                            for q2 in range(n):
                                b1s = self.behaviours(n, p1, q1)
                                b2s = self.behaviours(n, p2, q2)
                                for n1, s1 in b1s.items():
                                    for n2, s2 in b2s.items():
                                        if pairs < 1 and rng.random() > pairs:
                                            continue
                                        pat = rng.choice(self.WPATS)
                                        w = self.wpat(pat, n, p1, q2)
                                        rets = [rng.choice([0, 0, 1, 2, 5, 7]) for _ in range(n)]
                                        c = self.scenario(n, {p1: s1, p2: s2}, w, rets, falsy=rng.random() < 0.1,
                                                          gc_after=True)
                                        c["kind"] = "scenario2"
                                        yield c

    def random_op(self, rng, ns, nn, ncb, nobj, nkeys, in_script):
        r = rng.random()
        s = rng.randrange(ns)
        n = rng.choice([0, 0, 0, 1, 1, 2][:nn + 3]) % nn
        small = lambda: [rng.randrange(3) for _ in range(rng.choice([0, 0, 1, 1, 2]))]
        ws = lambda: [rng.randrange(nobj) for _ in range(rng.choice([0, 0, 0, 1, 1, 2]))] if nobj else []
        ua = lambda: rng.choice([None, None, None, None, 0, 5])
        if r < 0.30:
            return ["con", s, n, rng.randrange(ncb), ua(), ws(), small()]
        if r < 0.42:
            return ["dis", s, n, rng.randrange(ncb), ua(), ws(), small()]
        if r < 0.56:
            return ["dk", s, n, rng.randrange(max(1, nkeys + 2))]
        if r < 0.80:
            return ["emit", s, n, [rng.randrange(10) for _ in range(rng.choice([0, 1, 1, 2]))]]
        if r < 0.90 and nobj:
            return ["kill", rng.randrange(nobj)]
        if r < 0.95:
            return ["gc"]
        if in_script:
            return ["emit", s, n, []]
        return ["reg", rng.randrange(3), rng.sample(range(nn), rng.randrange(nn + 1))]

    def random_case(self, rng, nops):
        ns = rng.choice([1, 1, 2, 3])
        nn = rng.choice([1, 2, 3])
        ncb = rng.choice([1, 2, 3, 5])
        nobj = rng.choice([0, 1, 2, 4])
        ncls = 3
        if rng.random() < 0.5:
            classes = [1, rng.choice([0, 1, 1]), 1]
        else:
            # subclasses of registered classes, declared plainly or through the MetaSignals metaclass
            def spec(i):
                m = rng.random() < 0.4
                d = {"t": rng.choice([0, 1, 1, 1]), "p": rng.randrange(-1, i), "m": 1 if m else 0}
                if i == 2 and rng.random() < 0.4:
                    d["p"] = rng.choice([[0, 1], [1, 0]])
                if m or rng.random() < 0.2:
                    d["sig"] = [x for x in range(nn) if rng.random() < 0.5]
                return d
            classes = [spec(i) for i in range(3)]
            if not hierarchy_ok(classes):
                classes[2]["p"] = 1          # the bases were related: no consistent method resolution order
        senders = [rng.choice([0, 0, 1, 2]) for _ in range(ns)]
        objs = [rng.choice([0, 0, 1]) for _ in range(nobj)]
        nkeys = nops // 2
        cbs = []
        for _ in range(ncb):
            k = rng.choice([0, 0, 0, 1, 1, 2, 3])
            cbs.append([rng.randrange(9), [self.random_op(rng, ns, nn, ncb, nobj, nkeys, True) for _ in range(k)]])
        ops = []
        for c in range(ncls):
            if rng.random() < 0.9:
                names = [x for x in range(nn) if rng.random() < 0.8]
                ops.append(["reg", c, names])
        # connected duplicates are needed for disconnect-by-arguments to be interesting: reuse earlier connects
        for _ in range(nops):
            if ops and rng.random() < 0.15:
                prev = [o for o in ops if o[0] == "con"]
                if prev:
                    o = list(rng.choice(prev))
                    o[0] = rng.choice(["con", "dis", "dis"])
                    ops.append(o)
                    continue
            ops.append(self.random_op(rng, ns, nn, ncb, nobj, nkeys, False))
        for s in range(ns):
            for n in range(nn):
                ops.append(["emit", s, n, [1]])
        return {"kind": "random", "fuel": rng.choice([0, 1, 2, 2, 3, 3]), "nnames": nn,
                "maxcalls": rng.choice([3, 40, 150, 150, 150]), "classes": classes, "senders": senders,
                "objs": objs, "cbs": cbs, "ops": ops}


    # ---------- class hierarchies: registration is per class ----------
    def hier_cases(self):
        """classes A <- B <- C; A plain or declared with MetaSignals, B plain / with its own signals list / metaclass;
        explicit register_signal calls on A and/or B; then every sender class x every name is connected and emitted"""
        for sa in (None, [], [0], [0, 1]):
            for bkind in ("plain", "sig1", "meta2", "meta_empty"):
                for ra in (None, [0], [2]):
                    for rb in (None, [1], []):
                        a = {"t": 1, "p": -1, "m": 0} if sa is None else {"t": 1, "p": -1, "m": 1, "sig": sa}
                        b = {"t": 1, "p": 0, "m": 0}
                        if bkind == "sig1":
                            b["sig"] = [1]
                        elif bkind == "meta2":
                            b.update(m=1, sig=[2])
                        elif bkind == "meta_empty":
                            b.update(m=1, sig=[])
                        c = {"t": 1, "p": 1, "m": 0}
                        ops = []
                        if ra is not None:
                            ops.append(["reg", 0, ra])
                        if rb is not None:
                            ops.append(["reg", 1, rb])
                        for s in range(3):
                            for n in range(3):
                                ops.append(["con", s, n, 0, None, [], [10 * s + n]])
                        for s in range(3):
                            for n in range(3):
                                ops.append(["emit", s, n, [5]])
                        yield {"kind": "hierarchy", "fuel": 1, "nnames": 3, "maxcalls": 50, "classes": [a, b, c],
                               "senders": [0, 1, 2], "objs": [], "cbs": [[1, []]], "ops": ops}
        # multiple inheritance: unrelated bases A, B (each plain with a signals attribute, or MetaSignals), then
        # C(A, B) / C(B, A) with or without its own list, then D(C); every base is exercised AFTER the subclasses exist
        kinds = {"meta0": {"m": 1, "sig": [0]}, "meta1": {"m": 1, "sig": [1]}, "meta01": {"m": 1, "sig": [0, 1]},
                 "meta_empty": {"m": 1, "sig": []}, "plain": {"m": 0}, "plain_attr2": {"m": 0, "sig": [2]}}
        for ka in ("meta0", "meta01", "meta_empty", "plain", "plain_attr2"):
            for kb in ("meta1", "meta01", "plain", "plain_attr2"):
                for order in ([0, 1], [1, 0]):
                    for csig in (None, [], [2], [1]):
                        for cm in (0, 1):
                            a = dict(kinds[ka], t=1, p=-1)
                            b = dict(kinds[kb], t=1, p=-1)
                            c = {"t": 1, "p": order, "m": cm}
                            if csig is not None:
                                c["sig"] = csig
                            d = {"t": 1, "p": [2], "m": 0}
                            ops = []
                            for s in range(4):
                                for n in range(3):
                                    ops.append(["con", s, n, 0, None, [], [10 * s + n]])
                            for s in range(4):
                                for n in range(3):
                                    ops.append(["emit", s, n, [5]])
                            yield {"kind": "hierarchy", "fuel": 1, "nnames": 3, "maxcalls": 50, "classes": [a, b, c, d],
                                   "senders": [0, 1, 2, 3], "objs": [], "cbs": [[1, []]], "ops": ops}

    # ---------- widget-level stream (oracle only: there is no model of the widgets) ----------
    WIDGET_SIGNALS = {"button": ["click"], "button_sub": ["click", "extra"], "checkbox": ["change", "postchange"],
                      "radio": ["change", "postchange"], "edit": ["change", "postchange"], "intedit": ["change", "postchange"]}
    SIGNAMES = ["click", "change", "postchange", "extra", "nosuch"]
    TEXTS = ["", "a", "ab", "12", "7"]

    # ---------- modelled widget stream: real Button / CheckBox / Edit senders ----------
    WCLASSES = [{"w": "checkbox", "sig": [0, 1], "t": 1, "p": -1, "m": 1}, {"w": "button", "sig": [2], "t": 1, "p": -1, "m": 1},
                {"w": "edit", "sig": [0, 1], "t": 1, "p": -1, "m": 1}]

    def reentrant_cases(self):
        """a handler that disconnects itself and then changes the state of its own widget again, while the widget
        method that called it is still running; plain handlers on both signals record what they are told"""
        for kind, cls, vals in (("checkbox", 0, [0, 1]), ("edit", 2, [0, 1, 2])):
            opname = "setstate" if kind == "checkbox" else "settext"
            for init in vals:
                for v1 in vals:
                    for v2 in vals:
                        for asig in (0, 1):
                            for how in ("dk", "dis"):
                                # keys: 0 = plain on change, 1 = the re-entrant handler, 2 = plain on postchange
                                undo = ["dk", 0, asig, 1] if how == "dk" else ["dis", 0, asig, 1, None, [], [8]]
                                cbs = [[0, []], [1, [undo, [opname, 0, v2]]], [2, []]]
                                ops = [["con", 0, 0, 0, None, [], [7]], ["con", 0, asig, 1, None, [], [8]],
                                       ["con", 0, 1, 2, 5, [], [9]], [opname, 0, v1], [opname, 0, v1], [opname, 0, init]]
                                yield {"kind": "wmodel", "fuel": 3, "nnames": 4, "maxcalls": 60,
                                       "classes": [dict(c) for c in self.WCLASSES], "senders": [cls], "wstates": [init],
                                       "objs": [], "cbs": cbs, "ops": ops}

    def random_wop(self, rng, kinds, ncb, nobj, nkeys, in_script):
        s = rng.randrange(len(kinds))
        k = kinds[s]
        names = {"checkbox": [0, 1], "edit": [0, 1], "button": [2]}[k]
        r = rng.random()
        us = lambda: [rng.randrange(3) for _ in range(rng.choice([0, 0, 1, 2]))]
        ws = lambda: [rng.randrange(nobj) for _ in range(rng.choice([0, 0, 0, 1, 2]))] if nobj else []
        ua = lambda: rng.choice([None, None, None, 0, 5])
        if r < 0.28:
            return ["con", s, rng.choice(names * 4 + [0, 1, 2, 3]), rng.randrange(ncb), ua(), ws(), us()]
        if r < 0.36:
            return ["dis", s, rng.choice(names), rng.randrange(ncb), ua(), ws(), us()]
        if r < 0.44:
            return ["dk", s, rng.choice(names), rng.randrange(max(1, nkeys + 2))]
        if r < 0.50:
            return ["emit", s, rng.choice(names), [rng.randrange(5)]]
        if r < 0.57 and nobj:
            return ["kill", rng.randrange(nobj)]
        if r < 0.60:
            return ["gc"]
        if k == "button":
            return ["click", s]
        if k == "checkbox":
            return ["setstate", s, rng.choice([0, 1])]
        return ["settext", s, rng.randrange(len(TEXTS_M))]

    def random_wmodel_case(self, rng, nops):
        ns = rng.choice([1, 1, 2, 3])
        cls = [rng.randrange(3) for _ in range(ns)]
        kinds = [self.WCLASSES[c]["w"] for c in cls]
        wst = [rng.randrange(2) if k == "checkbox" else rng.randrange(len(TEXTS_M)) if k == "edit" else 0 for k in kinds]
        ncb = rng.choice([1, 2, 3, 4])
        nobj = rng.choice([0, 1, 2, 3])
        nkeys = nops // 2
        cbs = []
        for _ in range(ncb):
            k = rng.choice([0, 0, 0, 1, 1, 2])
            cbs.append([rng.randrange(9), [self.random_wop(rng, kinds, ncb, nobj, nkeys, True) for _ in range(k)]])
        ops = []
        for _ in range(nops):
            if ops and rng.random() < 0.12:
                prev = [o for o in ops if o[0] == "con"]
                if prev:
                    o = list(rng.choice(prev))
                    o[0] = rng.choice(["con", "dis", "dis"])
                    ops.append(o)
                    continue
            ops.append(self.random_wop(rng, kinds, ncb, nobj, nkeys, False))
        for s, k in enumerate(kinds):
            if k == "button":
                ops.append(["click", s])
            elif k == "checkbox":
                ops += [["setstate", s, 1], ["setstate", s, 0]]
            else:
                ops += [["settext", s, 1], ["settext", s, 1]]
        return {"kind": "wmodel", "fuel": rng.choice([1, 2, 2, 3]), "nnames": 4, "maxcalls": rng.choice([5, 60, 120]),
                "classes": [dict(c) for c in self.WCLASSES], "senders": cls, "wstates": wst,
                "objs": [rng.choice([0, 0, 1]) for _ in range(nobj)], "cbs": cbs, "ops": ops}

    def random_widget_case(self, rng):
        kinds = rng.choice([["button"], ["button"], ["button_sub"], ["checkbox"], ["checkbox"], ["radio", "radio", "radio"],
                            ["radio", "radio"], ["edit"], ["edit"], ["intedit"], ["button", "checkbox", "edit"]])
        widgets = []
        for k in kinds:
            cb = rng.choice([None, 0, 0, 1])
            widgets.append([k, cb, rng.randrange(len(VALS)) if cb is not None else 0, rng.choice([0, 1])])
        steps = []
        conns = []
        for _ in range(rng.choice([2, 4, 6, 9])):
            wi = rng.randrange(len(widgets))
            k = widgets[wi][0]
            r = rng.random()
            if r < 0.3:
                sig = rng.choice(self.WIDGET_SIGNALS[k] * 3 + self.SIGNAMES)
                ua = rng.choice([None, None] + list(range(len(VALS))))
                us = [rng.randrange(len(VALS)) for _ in range(rng.choice([0, 0, 1, 2]))]
                ws = [rng.randrange(2)] if rng.random() < 0.2 else []
                st = ["con", wi, sig, rng.randrange(3), ua, us, ws]
                conns.append(st)
                steps.append(st)
            elif r < 0.45:
                prev = conns + [["con", i, self.WIDGET_SIGNALS[w[0]][0], w[1], w[2], [], []]
                                for i, w in enumerate(widgets) if w[1] is not None]
                if prev and rng.random() < 0.8:
                    st = list(rng.choice(prev))
                    st[0] = "dis"
                    if rng.random() < 0.2:
                        st[4] = rng.choice([None] + list(range(len(VALS))))
                else:
                    st = ["dis", wi, rng.choice(self.WIDGET_SIGNALS[k]), rng.randrange(3),
                          rng.choice([None] + list(range(len(VALS)))), [], []]
                steps.append(st)
            elif r < 0.5:
                steps.append(["kill", rng.randrange(2)])
            else:
                if k in ("button", "button_sub"):
                    how = rng.choice(["enter", "space", "mouse"])
                elif k in ("checkbox", "radio"):
                    how = rng.choice(["toggle", "key", "mouse", "set0", "set1"])
                else:
                    how = rng.choice(["set:%d" % rng.randrange(len(self.TEXTS)), "key:1", "key:x", "key:backspace"])
                steps.append(["act", wi, how])
        for wi, w in enumerate(widgets):
            steps.append(["act", wi, {"button": "enter", "button_sub": "mouse", "checkbox": "toggle", "radio": "set1",
                                      "edit": "set:2", "intedit": "set:4"}[w[0]]])
        return {"kind": "widget", "widgets": widgets, "steps": steps}

    def widget_ctor_cases(self):
        """every constructor-callback widget x every user_data value: activate, disconnect by the same arguments, activate"""
        for k, how in (("button", "enter"), ("button", "mouse"), ("button_sub", "space"), ("checkbox", "toggle"),
                       ("checkbox", "key"), ("radio", "set1"), ("radio", "mouse")):
            sig = self.WIDGET_SIGNALS[k][0]
            for d in range(len(VALS)):
                for state in (0, 1):
                    if k in ("button", "button_sub") and state:
                        continue
                    ws = [[k, 0, d, state]] + ([[k, 1, d, 0]] if k == "radio" else [])
                    yield {"kind": "widget", "widgets": ws,
                           "steps": [["act", 0, how], ["con", 0, sig, 1, None, [d], []], ["act", 0, how if k[0] == "b" else "toggle"],
                                     ["dis", 0, sig, 0, d, [], []], ["act", 0, how if k[0] == "b" else "set0"],
                                     ["act", 0, how if k[0] == "b" else "set1"]]}

    def random_listbox_case(self, rng):
        nw = rng.choice([2, 3])
        walkers = [rng.choice(["sflw", "slw"]) for _ in range(nw)]
        lbs = [rng.randrange(nw) for _ in range(rng.choice([1, 1, 2]))]
        steps = []
        for _ in range(rng.choice([3, 6, 10])):
            r = rng.random()
            if r < 0.3:
                steps.append(["body", rng.randrange(len(lbs)), rng.randrange(nw)])
            elif r < 0.6:
                steps.append(["emit", rng.randrange(nw)])
            elif r < 0.8:
                steps.append(["append", rng.randrange(nw)])
            elif r < 0.9:
                steps.append(["pop", rng.randrange(nw)])
            else:
                steps.append(["same", rng.randrange(len(lbs))])
        for w in range(nw):
            steps.append(["emit", w])
            steps.append(["append", w])
        return {"kind": "listbox", "walkers": walkers, "lbs": lbs, "steps": steps}

    def cases(self, rng, tier):
        yield from self.hier_cases()
        yield from self.widget_ctor_cases()
        for _ in range(1500 if tier == "quick" else 15000):
            yield self.random_widget_case(rng)
        for _ in range(400 if tier == "quick" else 4000):
            yield self.random_listbox_case(rng)
        yield from self.reentrant_cases()
        for _ in range(2500 if tier == "quick" else 30000):
            yield self.random_wmodel_case(rng, rng.choice([3, 6, 10, 16]))
        if tier == "quick":
            yield from self.exhaustive(3, rng, 0.05)
            for _ in range(8000):
                yield self.random_case(rng, rng.choice([3, 6, 10, 16]))
        else:
            yield from self.exhaustive(4, rng, 1.0)
            for _ in range(120000):
                yield self.random_case(rng, rng.choice([3, 6, 10, 16, 30]))

    def search_cases(self, rng, tier):
        yield from self.exhaustive(3, rng, 0)
        while True:
            yield self.random_case(rng, rng.choice([2, 3, 5, 8]))
            yield self.random_widget_case(rng)
            yield self.random_listbox_case(rng)
            yield self.random_wmodel_case(rng, rng.choice([3, 6, 10]))

    def shrink_candidates(self, case):
        if case.get("kind") in ("widget", "listbox"):
            st = case["steps"]
            for i in range(len(st)):
                c = dict(case)
                c["steps"] = st[:i] + st[i + 1:]
                yield c
            return
        ops = case["ops"]
        for i in range(len(ops)):
            c = dict(case)
            c["ops"] = ops[:i] + ops[i + 1:]
            yield c
        for j, (ret, sops) in enumerate(case["cbs"]):
            for i in range(len(sops)):
                c = dict(case)
                c["cbs"] = [list(x) for x in case["cbs"]]
                c["cbs"][j] = [ret, sops[:i] + sops[i + 1:]]
                yield c


CHECK = C14
