"""C17 - display attributes travel from markup to the terminal unchanged."""
import io
import os
import re
import warnings

from harness import core

warnings.simplefilter("ignore")

ERRC = {"IndexError": 1, "ValueError": 2, "TypeError": 3, "WidgetError": 4, "CanvasError": 5, "AttrSpecError": 7,
        "KeyError": 8, "TagMarkupException": 10, "ScreenError": 10}
ERRN = {1: "IndexError", 2: "ValueError", 3: "TypeError", 4: "WidgetError", 5: "CanvasError", 7: "AttrSpecError",
        8: "KeyError", 10: "Other"}
DEPTHS = [1, 16, 88, 256, 2 ** 24]
DEPTH_IDX = {16: 0, 1: 1, 88: 2, 256: 3, 2 ** 24: 4}
BASIC = ["black", "dark red", "dark green", "brown", "dark blue", "dark magenta", "dark cyan", "light gray",
         "dark gray", "light red", "light green", "yellow", "light blue", "light magenta", "light cyan", "white"]
SETTINGS = ["bold", "italics", "underline", "blink", "standout", "strikethrough"]
ENCODINGS = ["utf-8", "iso8859-1", "ascii", "euc-jp"]

_NAMES = None


def names():
    """The attribute-name universe: hashable objects, pairwise different under ==; index = wire integer."""
    global _NAMES
    if _NAMES is None:
        import urwid
        _NAMES = ["a", "b", "c", "hdr", 5, 7, ("t", 1), frozenset({2}), "körper", b"raw",
                  urwid.AttrSpec("dark red", "default"), "", 0, "None"]
    return _NAMES


def name_of(i):
    return None if i is None else names()[i]


def id_of(a):
    if a is None:
        return None
    for i, n in enumerate(names()):
        if type(n) is type(a) and n == a:
            return i
    raise core.MachineryError("attribute outside the universe: %r" % (a,))


def oz(v):
    return [0] if v is None else [1, int(v)]


def errname(e):
    n = type(e).__name__
    return n if n in ERRC else "Other:" + n


def errnorm(n):
    """Name of an exception as the model can express it."""
    return ERRN.get(ERRC.get(n, -1), n)


class Enc:
    """set_encoding is process-global: set per case, restore utf-8."""

    def __init__(self, enc):
        self.enc = enc

    def __enter__(self):
        import urwid
        urwid.set_encoding(self.enc)

    def __exit__(self, *a):
        import urwid
        urwid.set_encoding("utf-8")


# ---------------------------------------------------------------- markup helpers
def build_markup(t):
    k = t[0]
    if k == "s":
        return bytes(t[2]) if t[1] else "".join(chr(c) for c in t[2])
    if k == "t":
        return (name_of(t[1]), build_markup(t[2]))
    if k == "l":
        return [build_markup(x) for x in t[1]]
    if k == "bad":
        return [7, ("a", "b", "c"), None][t[1] % 3]
    raise core.MachineryError("bad markup node %r" % (t,))


def enc_markup(t):
    k = t[0]
    if k == "s":
        return [0, 1 if t[1] else 0, len(t[2])] + list(t[2])
    if k == "t":
        return [1] + oz(t[1]) + enc_markup(t[2])
    if k == "l":
        out = [2, len(t[1])]
        for x in t[1]:
            out += enc_markup(x)
        return out
    return [3]


def flatten(t, cur=None):
    """Oracle, from the property text: (unit, innermost tag) for every character (str) / byte (bytes).
    Returns (list of (isb, code), list of tags) or None when the markup is not displayable."""
    k = t[0]
    if k == "s":
        return [(t[1], c) for c in t[2]], [cur] * len(t[2])
    if k == "t":
        return flatten(t[2], t[1])
    if k == "l":
        cs, ts = [], []
        for x in t[1]:
            r = flatten(x, cur)
            if r is None:
                return None
            cs += r[0]
            ts += r[1]
        return cs, ts
    return None


def rle_merge(seq):
    out = []
    for a in seq:
        if out and out[-1][0] == a:
            out[-1][1] += 1
        else:
            out.append([a, 1])
    return out


def rle_merge_runs(tags):
    return [tuple(x) for x in rle_merge(tags)]


def has_empty_tagged(t):
    """Does the markup contain an empty string (it yields a zero-length attribute run)?"""
    if t[0] == "s":
        return len(t[2]) == 0
    if t[0] == "t":
        return has_empty_tagged(t[2])
    if t[0] == "l":
        return any(has_empty_tagged(x) for x in t[1])
    return False


def rle_expand(runs):
    out = []
    for a, n in runs:
        out += [a] * max(0, n)
    return out


# ---------------------------------------------------------------- per-character data
def char_data(text):
    """[(encoded byte length, columns of the encoded bytes, isascii, columns the layout counts)] per character / byte."""
    from urwid import str_util
    from urwid.util import apply_target_encoding
    out = []
    if isinstance(text, bytes):
        n = len(text)
        if str_util.get_byte_encoding() != "utf8":
            wid = [1] * n          # calc_width of bytes is the byte count in the 8-bit and double-byte modes
        else:
            i = 0
            wid = [0] * n
            while i < n:
                j = max(str_util.move_next_char(text, i, n), i + 1)
                try:
                    wid[i] = str_util.calc_width(text, i, j)
                except Exception:
                    wid[i] = 1
                i = j
        lw = [0] * n
        i = 0
        while i < n:
            j = max(str_util.move_next_char(text, i, n), i + 1)
            try:
                lw[i] = str_util.calc_width(text, i, j)
            except Exception:
                lw[i] = 1
            i = j
        for i in range(n):
            e = 0 if text[i] in (14, 15) else 1
            out.append((e, wid[i] if e else 0, int(text[i] < 128), lw[i]))
        return out
    for ch in text:
        b = apply_target_encoding(ch)[0]
        if ch.isascii() and len(b) > 1:
            raise core.MachineryError("enc_ok premise violated: ASCII %r encodes to %d bytes" % (ch, len(b)))
        out.append((len(b), str_util.calc_width(b, 0, len(b)) if b else 0, int(ch.isascii()), str_util.get_char_width(ch)))
    return out


def enc_layout(ls):
    from urwid import str_util
    from urwid.util import apply_target_encoding
    out = [len(ls)]
    for line in ls:
        out.append(len(line))
        for s in line:
            if len(s) == 3 and isinstance(s[2], (bytes, list)):
                raw = bytes(s[2])
                b = apply_target_encoding(raw)[0]
                rc = row_chars(raw)
                out += [1, s[0], s[1], len(b), len(rc)]
                for bl_, wd_ in rc:
                    out += [bl_, wd_]
            elif len(s) == 3:
                out += [0, s[0], s[1], s[2]]
            else:
                out += [2, s[0]] + oz(s[1])
    return out


def trimmed(ls, text, maxcol):
    """The lines as apply_text_layout sees them after its own trim_line call (layout data)."""
    from urwid.text_layout import trim_line
    return [trim_line(list(line), text, 0, maxcol) for line in ls]


def layout_json(ls):
    return [[[s[0], s[1], list(s[2])] if (len(s) == 3 and isinstance(s[2], bytes)) else list(s) for s in line] for line in ls]


def layout_py(ls):
    return [[(s[0], s[1], bytes(s[2])) if (len(s) == 3 and isinstance(s[2], list)) else tuple(s) for s in line] for line in ls]


def content_rows(canv):
    """Per row: (list of per-byte attribute ids, row bytes)."""
    rows = []
    for row in canv.content():
        attrs, bs = [], b""
        for a, _cs, t in row:
            attrs += [id_of(a)] * len(t)
            bs += t
        rows.append((attrs, bs))
    return rows


def cell_attrs(attrs, bs):
    """Per screen column attribute ids of one row; None (python) marks a column whose bytes disagree."""
    from urwid import str_util
    out = []
    i, n = 0, len(bs)
    while i < n:
        j = str_util.move_next_char(bs, i, n)
        if j <= i:
            j = i + 1
        w = str_util.calc_width(bs, i, j)
        same = all(attrs[k] == attrs[i] for k in range(i, j))
        out += [(attrs[i] if same else "split")] * w
        i = j
    return out


def row_chars(bs):
    """[(byte length, columns)] of the displayed characters of one canvas row."""
    from urwid import str_util
    out = []
    i, n = 0, len(bs)
    while i < n:
        j = max(str_util.move_next_char(bs, i, n), i + 1)
        out.append((j - i, str_util.calc_width(bs, i, j)))
        i = j
    return out


def split_cols(attrs, bs, c0, c1):
    """The per-byte attributes of the characters of a row lying in screen columns [c0, c1)."""
    from urwid import str_util
    out, col, i, n = [], 0, 0, len(bs)
    while i < n:
        j = max(str_util.move_next_char(bs, i, n), i + 1)
        w = str_util.calc_width(bs, i, j)
        if c0 <= col and col + w <= c1 and not (w == 0 and col == c0 and c0 > 0):
            out += attrs[i:j]
        col += w
        i = j
    return out


# ---------------------------------------------------------------- SGR, read as a terminal does (oracle)
def parse_sgr(esc):
    m = re.fullmatch(r"\x1b\[([0-9;]*)m", esc)
    if not m:
        return None
    return [int(x) if x else 0 for x in m.group(1).split(";")]


def term_decode(ps):
    """ECMA-48 SGR + the xterm 38/48 extensions and aixterm 90-107; state after the sequence from a reset pen."""
    st = {"fg": [0], "bg": [0], "bold": 0, "italic": 0, "underline": 0, "blink": 0, "reverse": 0, "strike": 0}
    i = 0
    while i < len(ps):
        p = ps[i]
        i += 1
        if p in (38, 48):
            key = "fg" if p == 38 else "bg"
            if i < len(ps) and ps[i] == 5 and i + 1 < len(ps):
                if 0 <= ps[i + 1] <= 255:
                    st[key] = [1, ps[i + 1]]
                i += 2
            elif i < len(ps) and ps[i] == 2 and i + 3 < len(ps):
                if all(0 <= v <= 255 for v in ps[i + 1:i + 4]):
                    st[key] = [2] + ps[i + 1:i + 4]
                i += 4
            else:
                break
            continue
        if p == 0:
            st = {"fg": [0], "bg": [0], "bold": 0, "italic": 0, "underline": 0, "blink": 0, "reverse": 0, "strike": 0}
        elif p == 1:
            st["bold"] = 1
        elif p == 3:
            st["italic"] = 1
        elif p == 4:
            st["underline"] = 1
        elif p in (5, 6):
            st["blink"] = 1
        elif p == 7:
            st["reverse"] = 1
        elif p == 9:
            st["strike"] = 1
        elif p == 22:
            st["bold"] = 0
        elif p == 23:
            st["italic"] = 0
        elif p == 24:
            st["underline"] = 0
        elif p == 25:
            st["blink"] = 0
        elif p == 27:
            st["reverse"] = 0
        elif p == 29:
            st["strike"] = 0
        elif 30 <= p <= 37:
            st["fg"] = [1, p - 30]
        elif p == 39:
            st["fg"] = [0]
        elif 40 <= p <= 47:
            st["bg"] = [1, p - 40]
        elif p == 49:
            st["bg"] = [0]
        elif 90 <= p <= 97:
            st["fg"] = [1, p - 82]
        elif 100 <= p <= 107:
            st["bg"] = [1, p - 92]
    return [st["fg"], st["bg"], st["bold"], st["italic"], st["underline"], st["blink"], st["reverse"], st["strike"]]


def sgr_apply(st, ps):
    """Apply one SGR parameter list to the pen st (same reading as term_decode, from the current pen)."""
    fg, bg, bold, it, ul, bl, rv, sk = st
    cur = {"fg": list(fg), "bg": list(bg), "bold": bold, "italic": it, "underline": ul, "blink": bl, "reverse": rv, "strike": sk}
    i = 0
    ps = list(ps) or [0]
    while i < len(ps):
        p = ps[i]
        i += 1
        if p in (38, 48):
            key = "fg" if p == 38 else "bg"
            if i < len(ps) and ps[i] == 5 and i + 1 < len(ps):
                if 0 <= ps[i + 1] <= 255:
                    cur[key] = [1, ps[i + 1]]
                i += 2
            elif i < len(ps) and ps[i] == 2 and i + 3 < len(ps):
                if all(0 <= v <= 255 for v in ps[i + 1:i + 4]):
                    cur[key] = [2] + ps[i + 1:i + 4]
                i += 4
            else:
                break
            continue
        if p == 0:
            cur = {"fg": [0], "bg": [0], "bold": 0, "italic": 0, "underline": 0, "blink": 0, "reverse": 0, "strike": 0}
        elif p == 1:
            cur["bold"] = 1
        elif p == 3:
            cur["italic"] = 1
        elif p == 4:
            cur["underline"] = 1
        elif p in (5, 6):
            cur["blink"] = 1
        elif p == 7:
            cur["reverse"] = 1
        elif p == 9:
            cur["strike"] = 1
        elif p == 22:
            cur["bold"] = 0
        elif p == 23:
            cur["italic"] = 0
        elif p == 24:
            cur["underline"] = 0
        elif p == 25:
            cur["blink"] = 0
        elif p == 27:
            cur["reverse"] = 0
        elif p == 29:
            cur["strike"] = 0
        elif 30 <= p <= 37:
            cur["fg"] = [1, p - 30]
        elif p == 39:
            cur["fg"] = [0]
        elif 40 <= p <= 47:
            cur["bg"] = [1, p - 40]
        elif p == 49:
            cur["bg"] = [0]
        elif 90 <= p <= 97:
            cur["fg"] = [1, p - 82]
        elif 100 <= p <= 107:
            cur["bg"] = [1, p - 92]
    return [cur["fg"], cur["bg"], cur["bold"], cur["italic"], cur["underline"], cur["blink"], cur["reverse"], cur["strike"]]


RESET_PEN = [[0], [0], 0, 0, 0, 0, 0, 0]


class FrameTerm:
    """Just the part of an xterm that one urwid frame in UTF-8 uses: cursor addressing, SGR, insert mode,
    erase to end of line with the current background, backspace.  Cells: [char or "" for the right half of a
    double-width character, pen, erased?]."""

    def __init__(self, cols, rows):
        self.cols, self.rows = cols, rows
        self.pen = list(RESET_PEN)
        self.grid = [[[" ", list(RESET_PEN), True] for _ in range(cols)] for _ in range(rows)]
        self.x = self.y = 0
        self.insert = False
        self.problems = []

    @staticmethod
    def width(ch):
        import unicodedata
        if unicodedata.category(ch) in ("Mn", "Me", "Cf"):
            return 0
        return 2 if unicodedata.east_asian_width(ch) in "WF" else 1

    def feed(self, data):
        pos, n = 0, len(data)
        csi = re.compile(r"\x1b\[([?0-9;]*)([A-Za-z@])")
        while pos < n:
            ch = data[pos]
            if ch == "\x1b":
                m = csi.match(data, pos)
                if m:
                    self.csi(m.group(1), m.group(2))
                    pos = m.end()
                    continue
                if data[pos:pos + 2] in ("\x1b)", "\x1b("):
                    pos += 3
                    continue
                self.problems.append("unknown escape %r" % data[pos:pos + 6])
                return
            pos += 1
            if ch in "\x0e\x0f":
                continue
            if ch == "\x08":
                self.x = max(0, min(self.x, self.cols - 1) - 1)
            elif ch == "\r":
                self.x = 0
            elif ch == "\n":
                self.y = min(self.rows - 1, self.y + 1)
            elif ord(ch) >= 32:
                self.put(ch)

    def put(self, ch):
        w = self.width(ch)
        if w == 0:
            return
        if self.x + w > self.cols:
            self.problems.append("write beyond the right margin at row %d" % self.y)
            return
        row = self.grid[self.y]
        cells = [[ch, list(self.pen), False]] + [["", list(self.pen), False] for _ in range(w - 1)]
        if self.insert:
            row[self.x:self.x] = cells
            del row[self.cols:]
        else:
            row[self.x:self.x + w] = cells
        self.x += w

    def csi(self, args, final):
        if args.startswith("?"):
            return
        nums = [int(v) if v else 0 for v in args.split(";")] if args else []
        if final == "H":
            self.y = max(0, min(self.rows - 1, (nums[0] if nums else 1) - 1))
            self.x = max(0, min(self.cols - 1, (nums[1] if len(nums) > 1 else 1) - 1))
        elif final == "K":
            if not nums or nums[0] == 0:
                pen = [[0], list(self.pen[1]), 0, 0, 0, 0, 0, 0]        # back colour erase
                for i in range(min(self.x, self.cols), self.cols):
                    self.grid[self.y][i] = [" ", list(pen), True]
        elif final == "m":
            self.pen = sgr_apply(self.pen, nums)
        elif final == "h" and nums == [4]:
            self.insert = True
        elif final == "l" and nums == [4]:
            self.insert = False
        elif final == "C":
            self.x = min(self.cols - 1, self.x + max(1, nums[0] if nums else 1))
        elif final == "A":
            self.y = max(0, self.y - max(1, nums[0] if nums else 1))
        elif final == "B":
            self.y = min(self.rows - 1, self.y + max(1, nums[0] if nums else 1))
        elif final == "D":
            self.x = max(0, self.x - max(1, nums[0] if nums else 1))


def canon_cell(cp, pen):
    """A terminal cell as far as it can be seen: on a blank only background, underline, standout,
    strikethrough (and the foreground under standout); everything otherwise.  pen = [fg, bg, bold, italics,
    underline, blink, standout, strikethrough], colours [0] | [1, n] | [2, r, g, b]."""
    fg, bg, bold, it, ul, bl, rv, sk = pen
    if cp == 32:
        return [32, list(fg) if rv else [0], list(bg), 0, 0, ul, 0, rv, sk]
    return [cp, list(fg), list(bg), bold, it, ul, bl, rv, sk]


def spec_fields(a):
    return [int(a.foreground_true), int(a.foreground_high), int(a.foreground_basic), a.foreground_number,
            int(a.background_true), int(a.background_high), int(a.background_basic), a.background_number,
            int(a.bold), int(a.italics), int(a.underline), int(a.blink), int(a.standout), int(a.strikethrough)]


def spec_expect(a):
    """What the palette entry specifies, in the terminal's terms."""
    def col(true, high, basic, num):
        if true:
            return [2, (num >> 16) & 255, (num >> 8) & 255, num & 255]
        if high or basic:
            return [1, num]
        return [0]
    return [col(a.foreground_true, a.foreground_high, a.foreground_basic, a.foreground_number),
            col(a.background_true, a.background_high, a.background_basic, a.background_number),
            int(a.bold), int(a.italics), int(a.underline), int(a.blink), int(a.standout), int(a.strikethrough)]


def perceived(st, bib, bbb):
    """On a bright-is-bold terminal bold + colour 0-7 IS the bright colour (and always looks bold);
    likewise blink + background 0-7 on a bright-is-blink terminal."""
    fg, bg, bold, it, ul, bl, rv, sk = [list(x) if isinstance(x, list) else x for x in st]
    if bib and fg[0] == 1 and fg[1] < 16:
        if bold and fg[1] < 8:
            fg = [1, fg[1] + 8]
        if fg[1] >= 8:
            bold = 1
    if bbb and bg[0] == 1 and bg[1] < 16:
        if bl and bg[1] < 8:
            bg = [1, bg[1] + 8]
        if bg[1] >= 8:
            bl = 1
    return [fg, bg, bold, it, ul, bl, rv, sk]


_SCREEN_CLS = None


def make_screen(bib, bbb):
    global _SCREEN_CLS
    import urwid
    if _SCREEN_CLS is None:
        from urwid.display import raw

        class NoTtyScreen(raw.Screen):
            def __init__(self):
                self.out = io.StringIO()
                super().__init__(io.StringIO(), self.out)

            def write(self, data):
                self.out.write(data)

            def flush(self):
                pass

            def _setup_G1(self):
                pass

        _SCREEN_CLS = NoTtyScreen
    old = os.environ.get("TERM")
    os.environ["TERM"] = "xterm"
    try:
        s = _SCREEN_CLS()
    finally:
        if old is None:
            del os.environ["TERM"]
        else:
            os.environ["TERM"] = old
    s.fg_bright_is_bold = bool(bib)
    s.bg_bright_is_blink = bool(bbb)
    return s


def drawn_escape(s, attr):
    """The SGR parameters draw_screen emits in front of text carrying display attribute attr."""
    import urwid
    canv = urwid.TextCanvas([b"xy", b"  "], [[(attr, 2)], [(None, 2)]], maxcol=2)
    s._started = True
    s.clear()
    s.out.seek(0)
    s.out.truncate()
    s.draw_screen((2, 2), canv)
    data = s.out.getvalue()
    k = data.find("xy")
    if k < 0:
        return None
    found = None
    for m in re.finditer(r"\x1b\[([0-9;]*)m", data[:k]):
        found = m
    return parse_sgr(found.group(0)) if found else None


def large_h(desc):
    if desc is None or not desc.startswith("h"):
        return False
    if "," in desc:
        desc = desc.split(",", 1)[0]
    try:
        return int(desc[1:], 10) > 15
    except ValueError:
        return False


class C17(core.Check):
    pid = "C17"
    gen_modules = ["attrspec_escape"]       # translator module of property C04, used read-only
    model_targets = ["theories/Model/AttrFlow.vo", "theories/Model/TermRef.vo", "theories/Model/DrawScreen.vo",
                     "theories/Model/AttrFlowE2E.vo"]
    prop_file = "theories/Properties/C17.v"
    extract_v = "Extract/C17X.v"
    allowed_axioms = set()
    design_ref = "DESIGN.md section 5, C17"
    technique = ("Coq theorems (structural induction over markup trees, layout segments, clipped rows, widget trees and palette "
                 "histories; composition with property C04's draw_screen theorem; lia case analysis of the SGR decoder) about a hand-written executable model of "
                 "decompose_tagmarkup / apply_text_layout / trim_text_attr_cs / fill_attr_apply / AttrMap.render / register_palette / "
                 "_attrspec_to_escape; extracted-model correspondence; independent per-cell and SGR-decoding oracle")
    level_text = (
        "Proved in Coq for ALL inputs of the model, no size bound: markup_innermost (every markup tree: the flattened text "
        "is the concatenation of the strings and every character carries the attribute of its innermost tag; run lengths "
        "sum to the text length); layout_keeps_attr_full (every str or bytes text, attribute list and multi-line layout: "
        "after apply_text_layout's own trim_line every byte of every displayed character carries that character's "
        "attribute, inserted text/clipping pads take the attribute at their offset, alignment padding and canvas fill carry "
        "None, no zero-length run is left) - premises: the data condition enc_ok and that trim_line yields well-formed "
        "segments, which is itself proved for every line that fits (trim_line_identity_when_fits, any characters) and for "
        "every line of truthful segments over 1- and 2-column characters, overlong or negatively padded "
        "(trim_line_keeps_wellformed, layout_keeps_attr_through_trim); subseg_shows_window (LayoutSegment.subseg of a "
        "text segment shows column by column exactly the window, the blank for half of a double-width character carrying "
        "that character's attribute, the character at text offset 0 included); layout_cells (the per-COLUMN statement: "
        "every row is the bytes of a sequence of displayed characters, each column of a character - both columns of a "
        "double-width one - carries that character's attribute, padding and fill columns carry None); clip_keeps_attr / "
        "clip_columns_unchanged (clipping of rendered rows by TextCanvas.content(trim_left, cols)); fill_attr_compose / "
        "attrmap_replaces_exactly_listed / attrmap_focus_choice / nested_maps_compose (every widget tree of AttrMap, Pile, "
        "Columns over leaves); sgr_roundtrip (every AttrSpec with in-range colour numbers, every colour depth, "
        "bright-is-bold and bright-is-blink on/off); palette_resolves_full and palette_name_to_terminal (every history "
        "of register_palette_entry / aliases / set_terminal_properties); undefined_name_defaults; END TO END, composed with property C04's proved model of Screen.draw_screen and its "
        "reference terminal (Model/DrawScreen.v, TermRef.v, PaintSpec.v, theorem draw_paints, imported read-only): "
        "attrspec_to_escape_is_translated_source (this model's _attrspec_to_escape equals the function py2v translates "
        "from _raw_display_base.py on every run), attrspec_to_escape_models_agree, draw_screen_sends_resolved_escape (after every palette history draw_screen's "
        "model sends for a name exactly the escape this model keeps in _pal_escape), expected_cells_carry_run_pens and "
        "markup_to_terminal (every markup, text, layout, width, palette history and synced screen/terminal state: after "
        "draw_screen every terminal cell is visually equal to a cell whose pen is the palette entry, at the active depth, "
        "of the attribute the markup gives the character occupying that column; premise canvas_row_reads - the row TEXT "
        "and TextCanvas.content() - is outside both models and is checked on every generated canvas).  Nothing is refuted or "
        "partial (the four defects this check found were repaired: 0eea584, b5288ea, c165cd7, b2a34b1; their inputs are "
        "regression cases in corpus/C17).  Correspondence/oracle only: that the hand model matches the Python code (exact extracted-model comparison on "
        "every case); that a Text re-tagged with set_text while its canvases are alive (alone, in AttrMap, in "
        "AttrMap/Pile/Columns) shows the attributes of the CURRENT markup (compared with the model's fresh render and "
        "judged by the oracle - the canvas cache itself is not modelled here); "
        "widths/encodings of real characters, zero-width characters inside segments that are cut, "
        "Pile/Columns geometry.")
    level_note = (
        "Trusted: Coq kernel, ExtrOcamlBasic extraction + OCaml driver, the hand-written model (tied by the correspondence, "
        "not proved against Python), the Python oracle and its SGR decoder.  Inputs taken as data from urwid itself: the "
        "untrimmed text layout (C03), AttrSpec colour parsing (C18), per-character encoded length, displayed width and "
        "layout width (C11).  Assumes TERM is not fbterm; stateless ASCII-compatible target encodings.")
    rule = ("cases = markup trees (nested tags incl. None, empty strings, str/bytes, wide, zero-width, multi-byte, DEC "
            "line-drawing and SO/SI characters) through decompose_tagmarkup and Text.render for every wrap x align x "
            "encoding; random well-formed and malformed layouts through apply_text_layout; rendered Text rows rich in "
            "double-width characters with an attribute boundary at every character clipped left/right/both at every column "
            "through TextCanvas.content(trim_left, cols), CompositeCanvas.pad_trim_left_right(-l, -r) and an Overlay "
            "(exhaustive for 3-character rows); sequences of set_text with the same characters and fresh tag structures on a "
            "live Text (alone / wrapped in AttrMap / in AttrMap(Pile(Columns))) rendered at the same size with all canvases "
            "kept alive; whole frames (1-3 rows, 2-8 columns, rows filled to the right edge with attribute changes at every "
            "position incl. before the corner cell, rows ending in blanks, back-colour-erase on/off, 16 and 256 colours, "
            "unregistered names) through Screen.draw_screen decoded by a terminal and compared cell by cell with the grid "
            "that this property's palette model + C04's draw_screen model + C04's reference terminal predict; palette "
            "entries with 'hN' colours around N = 15/16 and 87/88 at every depth; trees of AttrMap/AttrWrap "
            "(dict / single / focus maps, None keys and values) over Text/Pile/Columns; every 16-colour AttrSpec and "
            "sampled 88/256/true-colour ones x flags x bright-is-bold/blink through _attrspec_to_escape; palette "
            "histories (entries, aliases, set_terminal_properties) observed in draw_screen output; non-trivial = "
            "a result with at least one non-None attribute or a non-default escape; distinct by hash of (case, outcome)")
    trusted_base = [
        "Coq 8.16.1 kernel (coqc); vm_compute only for closed examples and refutation witnesses",
        "extraction: ExtrOcamlBasic only; Z/positive stay Coq datatypes; OCaml 4.13.1; tools/driver/driver.ml",
        "hand-written model Model/AttrFlow.v (validated by this correspondence, not proved against Python)",
        "property C04's hand-written models Model/DrawScreen.v, Model/TermRef.v, Model/PaintSpec.v and proofs (imported "
        "read-only; validated by C04's own token-stream correspondence and here by the frame stream)",
        "Base/PyList.v slice_indices (Python slice clamping, validated by C16)",
        "urwid's own text layout, AttrSpec parsing, str_util widths and apply_target_encoding lengths, used as input data",
        "Python oracle in harness/props/c17.py including its SGR decoder and its small frame terminal (cursor addressing, "
        "insert mode, erase in line with back colour erase, backspace; written from ECMA-48 / xterm ctlseqs)",
    ]
    assumptions = [
        "attribute names are compared with ==; the universe used has pairwise different names",
        "TERM is not fbterm (its private escape format is not SGR)",
        "trim_line / LayoutSegment.subseg are modelled; a text segment that is cut must lie inside the text (else the model "
        "reports the case as outside its domain); an insert that is cut holds no SO/SI",
        "malformed markup (a list holding an empty list after text -> IndexError, mixed str/bytes -> TypeError, non-markup "
        "objects -> TagMarkupException) is outside the property, which speaks of the displayed characters of valid markup: "
        "the model mirrors the exceptions (correspondence) and the oracle does not judge them (counted as err:markup:*)",
        "target encodings are stateless and ASCII-compatible (utf-8, 8-bit, EUC): the encoded length of a string is the "
        "sum over its characters and an ASCII character / a byte is at most one byte (enc_ok, checked on every case)",
        "on a bright-is-bold terminal a bright basic foreground is conveyed as bold + colour-8 (the terminal's own convention)",
        "the attribute of an ellipsis inserted by the text layout is not constrained by the property (not judged); the blank "
        "replacing half of a double-width character must carry that character's attribute (judged for layout clipping and "
        "for canvas clipping; a zero-width character attached to the cut character with a different attribute makes the "
        "cell 'any')",
        "end-to-end theorem: canvas_row_reads (the text of a canvas row is the characters of its segments plus fill blanks, "
        "as many bytes as attribute positions; TextCanvas.content() gives each column the attribute of the first byte of "
        "its character) is a premise - counted per case as 'e2e-premise canvas_row_reads:holds/FAILS'; Sync (C04) relates "
        "the Screen object and the terminal; attribute names are integers >= 0",
        "clip theorem: row characters are 1 or 2 columns wide (zero-width characters are covered by correspondence/oracle only)",
    ]

    def __init__(self):
        super().__init__()
        self._stash = {}
        self._sig_count = {}
        self._unlimited = False

    # ================================================================= implementation
    def run_impl(self, case):
        k = case["kind"]
        try:
            return getattr(self, "impl_" + k)(case)
        except core.MachineryError:
            raise
        except Exception as e:        # the implementation misbehaved in a way the runner did not foresee
            self._stash = {}
            return {"err": "unexpected:" + type(e).__name__}

    def impl_markup(self, case):
        import urwid
        from urwid.util import decompose_tagmarkup
        m = build_markup(case["m"])
        try:
            text, al = decompose_tagmarkup(m)
        except Exception as e:
            return {"err": errnorm(errname(e))}
        try:
            same = urwid.Text(build_markup(case["m"])).get_text() == (text, al)
        except Exception:
            same = False
        isb = isinstance(text, bytes)
        return {"ok": [int(isb), list(text) if isb else [ord(c) for c in text], [[id_of(a), n] for a, n in al]],
                "text_widget_same": same}

    def _rows_result(self, canv):
        """Correspondence observes the canvas' attribute runs exactly; the oracle reads content()."""
        from urwid import str_util
        rows = content_rows(canv)
        self._short = sum(1 for _, bs in rows if str_util.calc_width(bs, 0, len(bs)) != canv.cols())
        # the premise canvas_row_reads of the end-to-end theorem: as many text bytes as attribute positions, and
        # content() gives every column the attribute of the first byte of the character occupying it
        self._reads = True
        split_char = False
        try:
            for bs, arow, crow_ in zip(canv._text, canv._attr, canv.content()):
                pos = rle_expand([[id_of(a), n] for a, n in arow])
                if len(pos) != len(bs):
                    self._reads = False
                want, i = [], 0
                for ln, wd in row_chars(bs):
                    if len(set(map(repr, pos[i:i + ln]))) > 1:
                        split_char = True          # a bytes text tagged in the middle of a character
                    want += [pos[i] if i < len(pos) else None] * wd
                    i += ln
                got = []
                for a, _cs, t in crow_:
                    got += [id_of(a)] * str_util.calc_width(t, 0, len(t))
                if got != want:
                    self._reads = False
        except Exception:
            self._reads = False
        if split_char:
            self._reads = None
        return {"rows": [[[id_of(a), n] for a, n in line] for line in canv._attr]}, rows

    def impl_text(self, case):
        import urwid
        with Enc(case["enc"]):
            try:
                t = urwid.Text(build_markup(case["m"]), align=case["align"], wrap=case["wrap"])
                canv = t.render((case["w"],))
                res, rows = self._rows_result(canv)
                trans = t.get_line_translation(case["w"])
                self._stash = {"case": core.canon(case), "rows": rows, "ls": trans, "text": t.text}
                return res
            except Exception as e:
                self._stash = {}
                return {"err": errnorm(errname(e))}

    def impl_layout(self, case):
        from urwid.canvas import apply_text_layout
        with Enc(case["enc"]):
            text = bytes(case["text"]) if case["isb"] else "".join(chr(c) for c in case["text"])
            attr = [(name_of(a), n) for a, n in case["attr"]]
            ls = layout_py(case["ls"])
            try:
                canv = apply_text_layout(text, attr, ls, case["w"])
                res, rows = self._rows_result(canv)
                self._stash = {"case": core.canon(case), "rows": rows, "ls": ls, "text": text}
                return res
            except Exception as e:
                self._stash = {}
                return {"err": errnorm(errname(e))}

    # ---- re-tagging an existing Text while its canvases are alive
    def impl_retag(self, case):
        import urwid
        with Enc(case["enc"]):
            try:
                t = urwid.Text(build_markup(case["steps"][0]), align=case["align"], wrap=case["wrap"])
                if case["wrapped"] == 0:
                    top = t
                elif case["wrapped"] == 1:
                    top = urwid.AttrMap(t, {})
                else:
                    top = urwid.AttrMap(urwid.Pile([urwid.Columns([t]), urwid.Text("-")]), {})
                alive = []             # the screen / MainLoop keeps the last frames alive like this
                canv = top.render((case["w"],))
                alive.append(canv)
                for m in case["steps"][1:]:
                    t.set_text(build_markup(m))
                    canv = top.render((case["w"],))
                    alive.append(canv)
                nrows = t.rows((case["w"],))
                rows = content_rows(canv)[:nrows]
                trans = t.get_line_translation(case["w"])
                self._stash = {"case": core.canon(case), "rows": rows, "ls": trans, "text": t.text}
                return {"rows": [rle_merge(a) for a, _ in rows]}
            except Exception as e:
                self._stash = {}
                return {"err": errnorm(errname(e))}

    # ---- whole frames through the raw display
    FRAME_NAMES = 6

    def frame_expect(self, case):
        """From the markup alone: per row the cells (character or "" for a right half, attribute id)."""
        from urwid import str_util
        grid = []
        for m in case["lines"]:
            fl = flatten(m)
            cells = []
            for (_, code), tag in zip(*fl):
                w = FrameTerm.width(chr(code))
                if w == 0:
                    continue
                cells.append((chr(code), tag))
                cells += [("", tag)] * (w - 1)
            cells += [(" ", None)] * (case["cols"] - len(cells))
            grid.append(cells[:case["cols"]])
        return grid

    def impl_frame(self, case):
        import urwid
        with Enc("utf-8"):
            s = make_screen(case["bib"], False)
            s.back_color_erase = bool(case["bce"])
            if case["depth"] != 16:
                s.set_terminal_properties(colors=case["depth"])
            for nm, fg, bg in case["pal"]:
                if case["depth"] == 16:
                    s.register_palette_entry(name_of(nm), fg, bg)
                else:
                    s.register_palette_entry(name_of(nm), "default", "default", None, fg, bg)
            try:
                pile = urwid.Pile([urwid.Text(build_markup(m), wrap="clip") for m in case["lines"]])
                canv = pile.render((case["cols"],))
                if canv.rows() != len(case["lines"]):
                    return {"err": "rows"}
                s._started = True
                s.clear()
                s.out.seek(0)
                s.out.truncate()
                s.draw_screen((case["cols"], len(case["lines"])), canv)
                data = s.out.getvalue()
            except Exception as e:
                self._stash = {}
                return {"err": "unexpected:" + type(e).__name__}
            term = FrameTerm(case["cols"], len(case["lines"]))
            term.feed(data)
            self._stash = {"case": core.canon(case), "term": term}
            return {"grid": [[canon_cell(ord(c[0]) if c[0] else -1, c[1]) for c in row] for row in term.grid],
                    "problems": term.problems}

    # ---- clipping of rendered rows
    def clip_regions(self, case):
        """Column ranges [c0, c1) of the text canvas that stay visible."""
        w = case["w"]
        if case["via"] == "overlay":
            l0, k = case["left"], case["cols"]          # the top widget covers columns [l0, l0 + k)
            return [r for r in ((0, l0), (l0 + k, w)) if r[0] < r[1]]
        return [(case["left"], case["left"] + case["cols"])]

    def impl_clip(self, case):
        import urwid
        with Enc(case["enc"]):
            try:
                t = urwid.Text(build_markup(case["m"]), align=case["align"], wrap=case["wrap"])
                w = case["w"]
                canv = t.render((w,))
                full = content_rows(canv)
                via = case["via"]
                regions = self.clip_regions(case)
                clips = []      # per region, per row: per-byte attribute ids of the visible part
                if via == "content":
                    (c0, c1), = regions
                    rows = []
                    for row in canv.content(trim_left=c0, cols=c1 - c0):
                        a = []
                        for at, _cs, bs in row:
                            a += [id_of(at)] * len(bs)
                        rows.append(a)
                    clips.append(rows)
                elif via == "padtrim":
                    (c0, c1), = regions
                    cc = urwid.CompositeCanvas(canv)
                    cc.pad_trim_left_right(-c0, -(w - c1))
                    clips.append([a for a, _ in content_rows(cc)])
                elif via == "overlay":
                    nrows = canv.rows()
                    top = urwid.Filler(urwid.Text(("top-attr", "T" * case["cols"]), wrap="clip"), "top")
                    ov = urwid.Overlay(top, urwid.Filler(t, "top"), ("fixed left", case["left"]), case["cols"],
                                       ("fixed top", 0), nrows)
                    orows = []
                    for row in ov.render((w, nrows)).content():
                        a, bs = [], b""
                        for at, _cs, x in row:
                            a += [(-7 if at == "top-attr" else id_of(at))] * len(x)
                            bs += x
                        orows.append((a, bs))
                    for c0, c1 in regions:
                        clips.append([split_cols(a, bs, c0, c1) for a, bs in orows])
                else:
                    raise core.MachineryError("unknown clip path " + via)
            except core.MachineryError:
                raise
            except Exception as e:
                self._stash = {}
                return {"err": errnorm(errname(e))}
            self._stash = {"case": core.canon(case), "full": full, "regions": regions}
            return {"clips": [[rle_merge(a) for a in rows] for rows in clips]}

    # ---- attribute maps over widget trees
    def build_tree(self, t, leaves, maps):
        import urwid
        k = t[0]
        if k == "text":
            outer = self

            class RecText(urwid.Text):
                def render(self, size, focus=False):
                    c = super().render(size, focus)
                    self.last_canv = c
                    return c
            w = RecText(build_markup(t[1]), align=t[2], wrap=t[3])
            w.leaf_id = len(leaves)
            leaves.append(w)
            return w
        if k == "amap":
            child = self.build_tree(t[3], leaves, maps)

            def conv(m):
                if m is None:
                    return None
                if m[0] == "single":
                    return name_of(m[1])
                return {name_of(a): name_of(b) for a, b in m[1]}
            base = urwid.AttrWrap if t[4] == "AttrWrap" else urwid.AttrMap

            class Rec(base):
                def render(self, size, focus=False):
                    self.seen_focus = bool(focus)
                    return super().render(size, focus)
            w = Rec(child, conv(t[1]), conv(t[2]))
            w.seen_focus = None
            maps.append(w)
            return w
        if k == "pile":
            ws = [self.build_tree(c, leaves, maps) for c in t[2]]
            return urwid.Pile(ws, focus_item=t[1])
        if k == "cols":
            ws = [("given", wd, self.build_tree(c, leaves, maps)) for wd, c in t[2]]
            return urwid.Columns(ws, dividechars=0, focus_column=t[1])
        raise core.MachineryError("bad tree node %r" % (t,))

    def geometry(self, t, W, leaves, counter, x=0, y=0):
        """(height, regions) with regions = [(leaf id or -1, x, y, w, h)]; the leaf's own height is measured."""
        k = t[0]
        if k == "text":
            i = counter[0]
            counter[0] += 1
            h = leaves[i].rows((W,))
            return h, [(i, x, y, W, h)]
        if k == "amap":
            return self.geometry(t[3], W, leaves, counter, x, y)
        if k == "pile":
            regs, yy = [], y
            for c in t[2]:
                h, r = self.geometry(c, W, leaves, counter, x, yy)
                regs += r
                yy += h
            return yy - y, regs
        if k == "cols":
            parts, xx = [], x
            for wd, c in t[2]:
                h, r = self.geometry(c, wd, leaves, counter, xx, y)
                parts.append((h, r, xx, wd))
                xx += wd
            H = max(h for h, _, _, _ in parts)
            regs = []
            for h, r, px, wd in parts:
                regs += r
                if h < H:
                    regs.append((-1, px, y + h, wd, H - h))
            return H, regs
        raise core.MachineryError("bad tree node")

    def impl_maps(self, case):
        import urwid
        with Enc("utf-8"):
            leaves, maps = [], []
            try:
                root = self.build_tree(case["tree"], leaves, maps)
                canv = root.render((case["w"],), focus=bool(case["focus"]))
                grid = [cell_attrs(a, b) for a, b in content_rows(canv)]
                shards = list(canv.shards) if hasattr(canv, "shards") else None
            except Exception as e:
                self._stash = {}
                return {"err": errnorm(errname(e))}
            by_canv = {}
            for lf in leaves:
                if getattr(lf, "last_canv", None) is not None:
                    by_canv[id(lf.last_canv)] = lf.leaf_id
            own = []
            for lf in leaves:
                c = lf.render((self._leaf_width(case, lf.leaf_id),))
                own.append([cell_attrs(a, b) for a, b in content_rows(c)])
            H, regs = self.geometry(case["tree"], case["w"], leaves, [0])
            views = []
            if shards is None:
                # a bare Text: one view without a map
                views.append([0, None])
            else:
                for _nrows, cviews in shards:
                    for cv in cviews:
                        cid = by_canv.get(id(cv[5]), -1 if cv[5] is urwid.canvas.blank_canvas else -9)
                        mp = None if cv[4] is None else sorted(
                            ([id_of(k_), id_of(v_)] for k_, v_ in cv[4].items()), key=lambda p: (p[0] is not None, p[0] or 0))
                        views.append([cid, mp])
            # observed own -> final pairs per region, from the final grid
            obs = []
            consistent = True
            for rid, x, y, w, h in regs:
                pairs = {}
                for r in range(h):
                    for c in range(w):
                        try:
                            o = own[rid][r][c] if rid >= 0 else None
                            f = grid[y + r][x + c]
                        except IndexError:
                            consistent = False
                            continue
                        if o in pairs and pairs[o] != f:
                            consistent = False
                        pairs.setdefault(o, f)
                obs.append([rid, sorted(([o, f] for o, f in pairs.items()), key=lambda p: (p[0] is not None, p[0] or 0))])
            self._stash = {"case": core.canon(case), "grid": grid, "own": own, "regs": regs,
                           "focus_seen": [m.seen_focus for m in maps], "H": H, "consistent": consistent}
            return {"views": sorted(views, key=core.canon), "obs": sorted(obs, key=core.canon)}

    def _leaf_width(self, case, leaf_id):
        ws = []

        def walk(t, W):
            if t[0] == "text":
                ws.append(W)
            elif t[0] == "amap":
                walk(t[3], W)
            elif t[0] == "pile":
                for c in t[2]:
                    walk(c, W)
            else:
                for wd, c in t[2]:
                    walk(c, wd)
        walk(case["tree"], case["w"])
        return ws[leaf_id]

    # ---- escapes and palettes
    def impl_escape(self, case):
        import urwid
        fg, bg, colors = case["spec"]
        s = make_screen(case["bib"], case["bbb"])
        a = urwid.AttrSpec(fg, bg, colors)
        ps = parse_sgr(s._attrspec_to_escape(a))
        self._stash = {"case": core.canon(case), "spec": a}
        return {"ps": ps, "dec": term_decode(ps) if ps is not None else None}

    def impl_decode(self, case):
        return {"dec": term_decode(case["ps"])}

    def _apply_pal_ops(self, case):
        import urwid
        from urwid.display.common import AttrSpecError, ScreenError
        s = make_screen(case["bib"], case["bbb"])
        errs = []
        for op in case["ops"]:
            try:
                if op[0] == "reg":
                    s.register_palette_entry(name_of(op[1]), *op[2:])
                elif op[0] == "alias":
                    s.register_palette([(name_of(op[1]), name_of(op[2]))])
                elif op[0] == "props":
                    s.set_terminal_properties(colors=op[1], bright_is_bold=bool(op[2]), has_underline=bool(op[3]))
                errs.append(0)
            except (AttrSpecError, ScreenError, KeyError) as e:
                errs.append(ERRC.get(errname(e), 10))
        return s, errs

    def impl_palette(self, case):
        import urwid
        s, errs = self._apply_pal_ops(case)
        esc = []
        for q in case["queries"]:
            a = urwid.AttrSpec(*q[1:]) if isinstance(q, list) else name_of(q)
            esc.append(drawn_escape(s, a))
        self._stash = {"case": core.canon(case), "screen": s}
        return {"errs": errs, "esc": esc}

    # ================================================================= model wire
    def encode(self, case):
        k = case["kind"]
        if k == "markup":
            return [1] + enc_markup(case["m"])
        if k == "text":
            import urwid
            with Enc(case["enc"]):
                fl = flatten(case["m"])
                if fl is None or len({b for b, _ in fl[0]}) > 1:
                    return None          # undisplayable markup: judged in the markup kind
                isb = bool(fl[0]) and fl[0][0][0]
                codes = [c for _, c in fl[0]]
                text = bytes(codes) if isb else "".join(chr(c) for c in codes)
                try:
                    ls = urwid.text_layout.default_layout.layout(text, case["w"], case["align"], case["wrap"])
                except Exception:
                    return None
                cd = char_data(text)
                out = [7, case["w"], len(cd)]
                for e, w, a, lw in cd:
                    out += [e, w, a, lw]
                return out + enc_markup(case["m"]) + enc_layout(ls)
        if k == "layout":
            with Enc(case["enc"]):
                text = bytes(case["text"]) if case["isb"] else "".join(chr(c) for c in case["text"])
                cd = char_data(text)
                out = [2, case["w"], int(bool(case["isb"])), len(cd)]
                for e, w, a, lw in cd:
                    out += [e, w, a, lw]
                out.append(len(case["attr"]))
                for a, n in case["attr"]:
                    out += oz(a) + [n]
                return out + enc_layout(layout_py(case["ls"]))
        if k == "frame":
            return self.encode_frame(case)
        if k == "retag":
            pseudo = {"kind": "text", "m": case["steps"][-1], "w": case["w"], "align": case["align"],
                      "wrap": case["wrap"], "enc": case["enc"]}
            return self.encode(pseudo)
        if k == "clip":
            import urwid
            with Enc(case["enc"]):
                try:
                    t = urwid.Text(build_markup(case["m"]), align=case["align"], wrap=case["wrap"])
                    canv = t.render((case["w"],))
                except Exception:
                    return None
                out = [8, 0]
                nq = 0
                for c0, c1 in self.clip_regions(case):
                    for bs, arow in zip(canv._text, canv._attr):
                        rc = row_chars(bs)
                        out += [c0, c1, len(rc)]
                        for b, wd in rc:
                            out += [b, wd]
                        out.append(len(arow))
                        for a, n in arow:
                            out += oz(id_of(a)) + [n]
                        nq += 1
                out[1] = nq
                return out
        if k == "maps":
            return self.encode_maps(case)
        if k == "escape":
            import urwid
            a = urwid.AttrSpec(*case["spec"])
            return [4, int(case["bib"]), int(case["bbb"])] + spec_fields(a)
        if k == "decode":
            return [6, len(case["ps"])] + list(case["ps"])
        if k == "palette":
            return self.encode_palette(case)
        raise core.MachineryError("unknown kind " + k)

    def frame_pal_ops(self, case):
        ops = [["props", case["depth"], bool(case["bib"]), True]] if case["depth"] != 16 else []
        for nm, fg, bg in case["pal"]:
            if case["depth"] == 16:
                ops.append(["reg", nm, fg, bg, None, None, None])
            else:
                ops.append(["reg", nm, "default", "default", None, fg, bg])
        return ops

    def encode_frame(self, case):
        """This property's palette model builds the attribute table; the draw_screen model and reference
        terminal of property C04 (imported read-only) turn the canvas content into the terminal grid."""
        import urwid
        from urwid import str_util
        with Enc("utf-8"):
            try:
                pile = urwid.Pile([urwid.Text(build_markup(m), wrap="clip") for m in case["lines"]])
                canv = pile.render((case["cols"],))
                content = list(canv.content())
            except Exception:
                return None
            if len(content) != len(case["lines"]):
                return None
            pal = self.encode_palette({"kind": "palette", "bib": case["bib"], "bbb": False,
                                       "ops": self.frame_pal_ops(case), "queries": []})
            out = [101] + pal[1:] + [int(bool(case["bce"])), self.FRAME_NAMES + 1, 1]
            out += [1, case["cols"], len(content), len(content), -1, 0, 0, 0, len(content)]
            for row in content:
                out.append(len(row))
                for a, cs, bs in row:
                    if cs is not None:
                        return None
                    text = bs.decode("utf-8")
                    out += [0 if a is None else id_of(a) + 1, 0, len(text)]
                    for ch in text:
                        out += [ord(ch), str_util.get_char_width(ch)]
            return out

    def encode_maps(self, case):
        with Enc("utf-8"):
            leaves, maps = [], []
            try:
                self.build_tree(case["tree"], leaves, maps)
            except Exception:
                return None
            heights = {}
            lcount = [0]

            def annotate(t, W):
                if t[0] == "text":
                    i = lcount[0]
                    lcount[0] += 1
                    h = leaves[i].rows((W,))
                elif t[0] == "amap":
                    h = annotate(t[3], W)
                elif t[0] == "pile":
                    h = sum(annotate(c, W) for c in t[2])
                else:
                    h = max([annotate(c, wd) for wd, c in t[2]])
                heights[id(t)] = h
                return h

            def dct(m):
                if m[0] == "single":
                    return [1] + oz(None) + oz(m[1])
                out = [len(m[1])]
                for a, b in m[1]:
                    out += oz(a) + oz(b)
                return out
            counter = [0]

            def enc(t):
                if t[0] == "text":
                    i = counter[0]
                    counter[0] += 1
                    return [0, i]
                if t[0] == "amap":
                    out = [1] + dct(t[1])
                    out += [0] if t[2] is None else [1] + dct(t[2])
                    return out + enc(t[3])
                if t[0] == "pile":
                    out = [2, t[1], len(t[2])]
                    for c in t[2]:
                        out += enc(c) + [0]
                    return out
                # heights of the columns decide which ones get a blank view underneath
                H = heights[id(t)]
                out = [2, t[1], len(t[2])]
                for wd, c in t[2]:
                    out += enc(c) + [1 if heights[id(c)] < H else 0]
                return out
            try:
                annotate(case["tree"], case["w"])
            except Exception:
                return None
            body = enc(case["tree"])
            probes = [None] + list(range(len(names())))
            out = [3, int(bool(case["focus"]))] + body + [len(probes)]
            for p in probes:
                out += oz(p)
            return out

    def encode_palette(self, case):
        import urwid
        from urwid.display.common import AttrSpecError
        out = [5, int(case["bib"]), int(case["bbb"]), len(case["ops"])]
        for op in case["ops"]:
            if op[0] == "reg":
                _, nm, fg, bg, mono, fgh, bgh = op
                try:
                    basic = urwid.AttrSpec(fg, bg, 16)
                    mono_s = urwid.AttrSpec(mono if mono is not None else "default", "default", 1)
                    fgh2 = fg if fgh is None else fgh
                    bgh2 = bg if bgh is None else bgh
                    h256 = urwid.AttrSpec(fgh2, bgh2, 256)
                    htrue = urwid.AttrSpec(fgh2, bgh2, 2 ** 24)
                    lh = large_h(fgh2) or large_h(bgh2)
                    h88 = basic if lh else urwid.AttrSpec(fgh2, bgh2, 88)
                except AttrSpecError:
                    out.append(4)
                    continue
                out += [1] + oz(nm) + [int(lh)]
                for a in (basic, mono_s, h88, h256, htrue):
                    out += spec_fields(a)
            elif op[0] == "alias":
                out += [2] + oz(op[1]) + oz(op[2])
            else:
                out += [3, op[1], int(op[2]), int(op[3])]
        out.append(len(case["queries"]))
        for q in case["queries"]:
            if isinstance(q, list):
                out += [1] + spec_fields(urwid.AttrSpec(*q[1:]))
            else:
                out += [0] + oz(q)
        return out

    def decode(self, case, ints):
        k = case["kind"]
        it = iter(ints)

        def nxt():
            return next(it)

        def noz():
            return None if nxt() == 0 else nxt()

        def nrle():
            n = nxt()
            return [[noz(), nxt()] for _ in range(n)]

        def ncol():
            t = nxt()
            return [0] if t == 0 else ([1, nxt()] if t == 1 else [2, nxt(), nxt(), nxt()])

        def nstate():
            return [ncol(), ncol()] + [nxt() for _ in range(6)]
        try:
            head = nxt()
            if head == -1:
                return {"err": ERRN.get(nxt(), "?")}
            if head != 0:
                return {"malformed": ints[:40]}
            if k == "markup":
                isb = nxt()
                n = nxt()
                text = [nxt() for _ in range(n)]
                return {"ok": [isb, text, nrle()], "text_widget_same": True}
            if k in ("text", "layout"):
                n = nxt()
                rows = []
                for _ in range(n):
                    rows.append(nrle())
                return {"rows": rows}
            if k == "retag":
                n = nxt()
                return {"rows": [rle_merge(rle_expand(nrle())) for _ in range(n)]}
            if k == "frame":
                nerr = nxt()
                errs = [nxt() for _ in range(nerr)]
                ferr = nxt()
                ntok = nxt()
                for _ in range(ntok):
                    nxt()
                nsnap = nxt()
                snap = [nxt() for _ in range(nsnap)]
                if any(errs) or ferr:
                    return {"err": "model:%r/%r" % (errs, ferr)}
                cols, rows = snap[0], snap[1]
                pos = 11 + 9

                def col(v):
                    return [0] if v[0] == 0 else ([1, v[1]] if v[0] in (1, 2) else [2, v[1], v[2], v[3]])
                grid = []
                for _y in range(rows):
                    row = []
                    for _x in range(cols):
                        cp = snap[pos]
                        at = snap[pos + 3:pos + 12]
                        ncomb = snap[pos + 12]
                        pos += 13 + ncomb
                        fl = at[8]
                        pen = [col(at[0:4]), col(at[4:8]), fl & 1, (fl >> 1) & 1, (fl >> 2) & 1, (fl >> 3) & 1,
                               (fl >> 4) & 1, (fl >> 5) & 1]
                        row.append(canon_cell(cp, pen))
                    grid.append(row)
                return {"grid": grid, "problems": []}
            if k == "clip":
                clips = []
                st = self._stash if self._stash.get("case") == core.canon(case) else None
                nrows = len(st["full"]) if st else 0
                for _ in self.clip_regions(case):
                    rows = []
                    for _ in range(nrows):
                        nxt(), nxt(), nxt(), nxt()
                        rows.append(rle_merge(rle_expand(nrle())))
                    clips.append(rows)
                return {"clips": clips}
            if k == "maps":
                n = nxt()
                views, obs_all = [], []
                nprobe = len(names()) + 1
                for _ in range(n):
                    cid = nxt()
                    if nxt() == 0:
                        mp = None
                    else:
                        cnt = nxt()
                        mp = sorted(([noz(), noz()] for _ in range(cnt)), key=lambda p: (p[0] is not None, p[0] or 0))
                    applied = [noz() for _ in range(nprobe)]
                    views.append([cid, mp])
                    obs_all.append((cid, applied))
                # own attributes actually present in each region come from the case (stash of run_impl)
                st = self._stash if self._stash.get("case") == core.canon(case) else None
                obs = []
                if st is not None:
                    blanks = [a for c, a in obs_all if c == -1]
                    bi = 0
                    # model views are in depth-first order = order of the regions computed by geometry()
                    regs = st["regs"]
                    mi = 0
                    for rid, x, y, w, h in regs:
                        if mi >= len(obs_all):
                            break
                        cid, applied = obs_all[mi]
                        mi += 1
                        present = set()
                        for r in range(h):
                            for c in range(w):
                                try:
                                    present.add(st["own"][rid][r][c] if rid >= 0 else None)
                                except IndexError:
                                    pass
                        pairs = [[o, applied[0] if o is None else applied[o + 1]] for o in present if o != "split"]
                        obs.append([rid, sorted(pairs, key=lambda p: (p[0] is not None, p[0] or 0))])
                return {"views": sorted(views, key=core.canon), "obs": sorted(obs, key=core.canon)}
            if k == "escape":
                n = nxt()
                ps = [nxt() for _ in range(n)]
                return {"ps": ps, "dec": nstate()}
            if k == "decode":
                return {"dec": nstate()}
            if k == "palette":
                n = nxt()
                errs = [nxt() for _ in range(n)]
                esc = []
                for _ in case["queries"]:
                    m = nxt()
                    esc.append([nxt() for _ in range(m)])
                return {"errs": errs, "esc": esc}
        except StopIteration:
            return {"malformed": ints[:40]}
        return {"malformed": ints[:40]}

    # ================================================================= oracle (from the property text)
    # core keeps at most 200 violation records per run and de-duplicates them by signature afterwards;
    # so that one frequent (possibly known) class cannot crowd out another, the main loop reports each
    # signature at most MAX_PER_SIGNATURE times (every further one is still counted); shrinking and replay
    # always see every message.
    MAX_PER_SIGNATURE = 6

    def oracle(self, case, res):
        msgs = self.oracle_all(case, res)
        if self._unlimited or not msgs:
            return msgs
        out = []
        for m in msgs:
            sig = self.signature(case, m)
            n = self._sig_count.get(sig, 0)
            self._sig_count[sig] = n + 1
            if n < self.MAX_PER_SIGNATURE:
                out.append(m)
        return out

    def shrink(self, case, msg):
        self._unlimited = True
        try:
            return super().shrink(case, msg)
        finally:
            self._unlimited = False

    def replay(self, path):
        self._unlimited = True
        return super().replay(path)

    def oracle_all(self, case, res):
        k = case["kind"]
        if "err" in res:
            return []            # the property does not speak about rejected inputs; counted in the distribution
        st = self._stash if self._stash.get("case") == core.canon(case) else None
        if k == "markup":
            return self.oracle_markup(case, res)
        if k in ("text", "layout") and st is not None:
            msgs = self.oracle_rows(case, st)
            if not msgs and k == "text":
                msgs = self.oracle_window(case, st)
            return msgs
        if k == "retag" and st is not None:
            pseudo = {"kind": "text", "m": case["steps"][-1], "w": case["w"], "align": case["align"],
                      "wrap": case["wrap"], "enc": case["enc"]}
            msgs = self.oracle_rows(pseudo, st) or self.oracle_window(pseudo, st)
            return ["after set_text (step %d of the same widget, canvases alive): %s" % (len(case["steps"]) - 1, m_)
                    for m_ in msgs]
        if k == "frame" and st is not None:
            return self.oracle_frame(case, res, st)
        if k == "clip" and st is not None:
            return self.oracle_clip(case, res, st)
        if k == "maps" and st is not None:
            return self.oracle_maps(case, st)
        if k == "escape" and st is not None:
            return self.oracle_escape(case, res, st)
        if k == "palette" and st is not None:
            return self.oracle_palette(case, res, st)
        return []

    def oracle_markup(self, case, res):
        fl = flatten(case["m"])
        if fl is None:
            return []
        units, tags = fl
        isb, text, al = res["ok"]
        msgs = []
        if text != [c for _, c in units]:
            msgs.append("markup: flattened text differs from the concatenation of the strings")
            return msgs
        total = sum(n for _, n in al)
        if any(n < 0 for _, n in al) or total > len(text):
            msgs.append("markup: run lengths %d do not fit the text length %d" % (total, len(text)))
            return msgs
        got = rle_expand(al) + [None] * (len(text) - total)
        for i, (g, t) in enumerate(zip(got, tags)):
            if g != t:
                msgs.append("markup: character %d carries attribute %r, its innermost tag is %r" % (i, g, t))
                break
        if not res.get("text_widget_same", True):
            msgs.append("markup: Text(markup).get_text() differs from decompose_tagmarkup(markup)")
        return msgs

    def char_tags(self, case):
        if case["kind"] == "text":
            fl = flatten(case["m"])
            return None if fl is None else fl[1]
        tags = rle_expand(case["attr"])
        n = len(case["text"])
        return (tags + [None] * n)[:n]

    def oracle_rows(self, case, st):
        """Row by row: the cells come from the layout segments in order; a text segment shows its characters,
        each encoded on its own, every byte carrying the character's innermost tag; alignment padding
        (sc, None) and the fill up to maxcol carry None; inserted text and clipping pads are not judged."""
        from urwid.util import apply_target_encoding
        tags = self.char_tags(case)
        if tags is None:
            return []
        text = st["text"]
        msgs = []
        st["short_rows"] = 0
        with Enc(case["enc"]):
            try:
                ls = trimmed(st["ls"], text, case["w"])
            except Exception:
                return []
            for line in ls:
                for s in line:
                    if len(s) == 3 and isinstance(s[2], int) and not (0 <= s[1] <= s[2] <= len(text)):
                        return []      # not a well-formed layout for this text
                    if s[1] is not None and not (0 <= s[1] <= len(text)):
                        return []
            for y, (line, (attrs, bs)) in enumerate(zip(ls, st["rows"])):
                exp = []           # (expected attribute or "any", description)
                ebytes = b""
                for s in line:
                    if len(s) == 3 and isinstance(s[2], int):
                        lens = [len(apply_target_encoding(text[i:i + 1])[0]) for i in range(s[1], s[2])]
                        zero = " in a segment with a character that encodes to 0 bytes next to a multi-byte one" \
                            if (0 in lens and max(lens) > 1) else ""
                        for i in range(max(0, s[1]), min(len(text), s[2])):
                            b = apply_target_encoding(text[i:i + 1])[0]
                            exp += [(tags[i], "character %d%s" % (i, zero))] * len(b)
                            ebytes += b
                    elif len(s) == 3:
                        b = apply_target_encoding(s[2])[0]
                        exp += [("any", "insert")] * len(b)
                        ebytes += b
                    elif s[1] is None:
                        exp += [(None, "alignment padding")] * max(0, s[0])
                        ebytes += b" " * max(0, s[0])
                    else:
                        # a blank standing for (half of) the character at this offset carries its attribute
                        e_ = tags[s[1]] if 0 <= s[1] < len(tags) else "any"
                        what_ = "blank for the cut character %d" % s[1]
                        exp += [(e_, what_)] * max(0, s[0])
                        ebytes += b" " * max(0, s[0])
                if bs[:len(ebytes)] != ebytes or bs[len(ebytes):].strip(b" "):
                    st["short_rows"] += 1
                    # a zero-length run among the canvas attributes makes content() stop there: the
                    # characters behind it are not displayed at all and the row is narrower than the canvas
                    if len(bs) < len(ebytes) and ebytes.startswith(bs):
                        src = case["attr"] if case["kind"] == "layout" else rle_merge_runs(tags)
                        empty_in = case["kind"] == "text" and has_empty_tagged(case["m"]) or \
                            case["kind"] == "layout" and any(n == 0 for _, n in case["attr"]) or \
                            any(len(s_) == 2 and s_[0] == 0 and not s_[1] for s_ in line)
                        msgs.append("row %d is cut short after %d of %d bytes: the characters behind are not displayed (%s)"
                                    % (y, len(bs), len(ebytes),
                                       "zero-length attribute run of an empty tagged string or zero-width pad" if empty_in
                                       else "no empty run in the input"))
                        break
                    continue       # otherwise the row does not show what the layout says: not judged here
                exp += [(None, "fill")] * (len(bs) - len(ebytes))
                for x, ((e, what), g) in enumerate(zip(exp, attrs)):
                    if e != "any" and e != g:
                        msgs.append("row %d byte %d (%s): carries attribute %r, expected %r" % (y, x, what, g, e))
                        break
                if msgs:
                    break
        return msgs

    def oracle_window(self, case, st):
        """Independent of trim_line: a layout line is a strip of columns - per character of a text segment as many
        columns as it is wide, all with its tag; alignment padding None - of which the canvas shows the window
        that starts after a negative alignment pad; the rest of the row is fill (None).  Each cell of the row
        carries the attribute of the character occupying that column (a half-shown double-width character
        included)."""
        from urwid import str_util
        if case["enc"] != "utf-8":
            return []            # layout columns and displayed columns differ under lossy encodings
        text = st["text"]
        if isinstance(text, bytes):
            return []
        tags = self.char_tags(case)
        if tags is None:
            return []
        w = case["w"]
        with Enc(case["enc"]):
            for y, (line, (attrs, bs)) in enumerate(zip(st["ls"], st["rows"])):
                virt, neg, ok = [], 0, True          # per column: (attribute or "any", character index or None)
                last = None                          # (first column, index) of the last character laid out
                for idx, s_ in enumerate(line):
                    if len(s_) == 2 and s_[1] is None:
                        if s_[0] < 0:
                            if idx:
                                ok = False
                                break
                            neg = -s_[0]
                        else:
                            virt += [(None, None)] * s_[0]
                    elif len(s_) == 2:
                        a_ = tags[s_[1]] if 0 <= s_[1] < len(tags) else "any"
                        virt += [(a_, s_[1])] * s_[0]
                    elif isinstance(s_[2], int):
                        cols = 0
                        for i in range(s_[1], s_[2]):
                            cw = str_util.get_char_width(text[i])
                            if cw == 0:
                                if last is not None and virt and virt[last[0]][0] != tags[i]:
                                    for q in range(last[0], len(virt)):
                                        virt[q] = ("any", virt[q][1])
                                continue
                            last = (len(virt), i)
                            virt += [(tags[i], i)] * cw
                            cols += cw
                        if cols != s_[0]:
                            ok = False
                            break
                    else:
                        virt += [("any", None)] * s_[0]
                if not ok:
                    continue
                vis = virt[neg:neg + w]
                vis += [(None, None)] * (w - len(vis))
                got = self.column_attrs(attrs, bs)
                if got is None or len(got) != w:
                    continue
                for x, ((e, ci), g) in enumerate(zip(vis, got)):
                    if e == "any" or g in ("any", "split") or g == e:
                        continue
                    half = ci is not None and (
                        (x == 0 and neg > 0 and virt[neg - 1][1] == ci) or
                        (x == w - 1 and neg + w < len(virt) and virt[neg + w][1] == ci))
                    return ["window: row %d column %d%s carries attribute %r, the character there has %r"
                            % (y, x, (" (the visible half of the double-width character %d)" % ci) if half else "", g, e)]
        return []

    def frame_pen(self, case, tag):
        """The pen the palette specifies for an attribute name (None / unregistered: default), from the entry's
        strings: documented basic colour names or 'hN', and the settings."""
        ent = None
        for nm, fg, bg in case["pal"]:
            if nm == tag:
                ent = (fg, bg)
        if tag is None or ent is None:
            return list(RESET_PEN)

        def col(desc):
            if desc in ("", "default"):
                return [0]
            if desc in BASIC:
                return [1, BASIC.index(desc)]
            return [1, int(desc[1:])]
        parts = [x.strip() for x in ent[0].split(",")]
        return [col(parts[0]), col(ent[1]), int("bold" in parts), int("italics" in parts), int("underline" in parts),
                int("blink" in parts), int("standout" in parts), int("strikethrough" in parts)]

    def oracle_frame(self, case, res, st):
        """What the raw display wrote, read by a terminal: every cell shows the character of the frame with the
        foreground, background and style of ITS attribute's palette entry.  On a blank cell only what is visible
        on a blank is compared (background, underline, standout, strikethrough)."""
        if res.get("problems"):
            return []                # the terminal model did not understand the output: not judged
        term = st["term"]
        want = self.frame_expect(case)
        labels = ["foreground", "background", "bold", "italics", "underline", "blink", "standout", "strikethrough"]
        for y, (wrow, grow) in enumerate(zip(want, term.grid)):
            for x, ((ch, tag), cell) in enumerate(zip(wrow, grow)):
                gch, gpen, _erased = cell
                if gch != ch:
                    return []        # not the frame's character in that cell: the painting property's business
                wpen = perceived(self.frame_pen(case, tag), case["bib"], False)
                gpen = perceived(gpen, case["bib"], False)
                idxs = (1, 4, 6, 7) if ch == " " else range(8)
                for i in idxs:
                    if gpen[i] != wpen[i]:
                        return ["frame: cell (%d,%d) %r is drawn with %s %r, its attribute %r specifies %r"
                                % (x, y, ch, labels[i], gpen[i], tag, wpen[i])]
        return []

    def oracle_clip(self, case, res, st):
        """Clipping shows the columns [c0, c1) of the row.  Every visible cell carries the attribute of the
        character it shows; where the cut runs through a double-width character the single blank cell that
        replaces its visible half carries the attribute of THAT character, not of a neighbour."""
        msgs = []
        with Enc(case["enc"]):
            for (c0, c1), rows in zip(st["regions"], res["clips"]):
                for y, (clipped, (fa, fb)) in enumerate(zip(rows, st["full"])):
                    want = self.column_attrs(fa, fb)
                    if want is None:
                        continue
                    want = want[c0:c1]
                    got = rle_expand(clipped)
                    # the clipped row: blank pad cells are 1 byte / 1 column; other characters keep their bytes
                    gb, has_zero = self.clipped_bytes(fb, c0, c1)
                    if not has_zero and len(got) < len(gb):
                        msgs.append("clip via %s: row %d is cut short after %d of %d bytes: the characters behind are not displayed"
                                    % (case["via"], y, len(got), len(gb)))
                        return msgs
                    if len(gb) != len(got):
                        continue        # the visible bytes are not what clipping the row gives: not judged here
                    gotc = self.column_attrs(got, gb)
                    if gotc is None or len(gotc) != len(want):
                        continue
                    for x, (g, e) in enumerate(zip(gotc, want)):
                        if e != "any" and g != "split" and g != e:
                            edge = " (the blank replacing half of a double-width character)" if \
                                (x == 0 and c0 > 0 and self.column_is_half(fb, c0)) or \
                                (x == len(want) - 1 and self.column_is_half(fb, c1)) else ""
                            msgs.append("clip via %s: row %d column %d%s carries attribute %r, the character there has %r"
                                        % (case["via"], y, c0 + x, edge, g, e))
                            return msgs
        return msgs

    @staticmethod
    def column_attrs(attrs, bs):
        """Per screen column the attribute of the character occupying it ('any' where a zero-width character with a
        different attribute is attached, None-able); None when the bytes and attributes do not line up."""
        from urwid import str_util
        if len(attrs) != len(bs):
            return None
        out, i, n = [], 0, len(bs)
        while i < n:
            j = max(str_util.move_next_char(bs, i, n), i + 1)
            w = str_util.calc_width(bs, i, j)
            a = attrs[i] if all(x == attrs[i] for x in attrs[i:j]) else "split"
            if w == 0:
                if out and out[-1] != a:
                    k = len(out) - 1
                    base = out[k]
                    while k >= 0 and out[k] == base and k >= len(out) - 2:
                        out[k] = "any"
                        k -= 1
            else:
                out += [a] * w
            i = j
        return out

    @staticmethod
    def column_is_half(bs, col):
        """Does column boundary col fall inside a double-width character of the row?"""
        from urwid import str_util
        c, i, n = 0, 0, len(bs)
        while i < n:
            j = max(str_util.move_next_char(bs, i, n), i + 1)
            w = str_util.calc_width(bs, i, j)
            if c < col < c + w:
                return True
            c += w
            i = j
        return False

    @staticmethod
    def clipped_bytes(bs, c0, c1):
        """The bytes a row shows in columns [c0, c1): whole characters (a zero-width character stays with its
        base character), one blank per half character.  Second value: does the row hold zero-width characters?"""
        from urwid import str_util
        out, c, i, n = b"", 0, 0, len(bs)
        base_kept = c0 == 0
        zero = False
        while i < n:
            j = max(str_util.move_next_char(bs, i, n), i + 1)
            w = str_util.calc_width(bs, i, j)
            if w == 0:
                zero = True
                if base_kept:
                    out += bs[i:j]
            elif c0 <= c and c + w <= c1:
                out += bs[i:j]
                base_kept = True
            else:
                base_kept = False
                if c < c1 and c + w > c0:
                    out += b" " * (min(c + w, c1) - max(c, c0))
            c += w
            i = j
        return out, zero

    def oracle_maps(self, case, st):
        """Reference: a grid of attribute names; a map replaces exactly the names it lists (the focus map when
        the AttrMap was rendered in focus), outer after inner; fill cells start as None."""
        msgs = []
        idx = {"leaf": 0, "map": 0}
        seen = st["focus_seen"]

        def mapping(m):
            if m[0] == "single":
                return {None: m[1]}
            d = {}
            for a, b in m[1]:
                d[a] = b
            return d

        def ref(t, W):
            k = t[0]
            if k == "text":
                g = st["own"][idx["leaf"]]
                idx["leaf"] += 1
                return [list(r) for r in g]
            if k == "amap":
                g = ref(t[3], W)
                f = seen[idx["map"]]
                idx["map"] += 1
                m = mapping(t[2]) if (f and t[2] is not None) else mapping(t[1])
                return [[(m[c] if c in m else c) if c != "split" else c for c in row] for row in g]
            if k == "pile":
                g = []
                for c in t[2]:
                    g += ref(c, W)
                return g
            parts = [(ref(c, wd), wd) for wd, c in t[2]]
            H = max(len(g) for g, _ in parts)
            out = [[] for _ in range(H)]
            for g, wd in parts:
                for r in range(H):
                    out[r] += g[r] if r < len(g) else [None] * wd
            return out
        # build order of maps in build_tree is post-order (child first); replicate it
        order = []

        def post(t):
            if t[0] == "amap":
                post(t[3])
                order.append(t)
            elif t[0] == "pile":
                for c in t[2]:
                    post(c)
            elif t[0] == "cols":
                for _, c in t[2]:
                    post(c)
        post(case["tree"])
        pos = {id(t): i for i, t in enumerate(order)}

        def ref2(t, W):
            if t[0] == "amap":
                g = ref2(t[3], W)
                f = seen[pos[id(t)]]
                if f is None:
                    raise KeyError("map not rendered")
                m = mapping(t[2]) if (f and t[2] is not None) else mapping(t[1])
                return [[(m[c] if c in m else c) if c != "split" else c for c in row] for row in g]
            if t[0] == "text":
                g = st["own"][idx["leaf"]]
                idx["leaf"] += 1
                return [list(r) for r in g]
            if t[0] == "pile":
                g = []
                for c in t[2]:
                    g += ref2(c, W)
                return g
            parts = [(ref2(c, wd), wd) for wd, c in t[2]]
            H = max(len(g) for g, _ in parts)
            out = [[] for _ in range(H)]
            for g, wd in parts:
                for r in range(H):
                    out[r] += g[r] if r < len(g) else [None] * wd
            return out
        try:
            expg = ref2(case["tree"], case["w"])
        except KeyError:
            return []
        got = st["grid"]
        if len(expg) != len(got) or any(len(a) != len(b) for a, b in zip(expg, got)):
            return []          # geometry differs from the simple reference: not this property's business
        for y, (er, gr) in enumerate(zip(expg, got)):
            for x, (e, g) in enumerate(zip(er, gr)):
                if e != g and e != "split":
                    msgs.append("maps: cell (%d,%d) has attribute %r, sequential application of the maps gives %r" % (x, y, g, e))
                    return msgs
        return msgs

    def compare_spec(self, what, ps, a, bib, bbb):
        if ps is None:
            return ["%s: no SGR sequence found" % what]
        if ps[:1] != [0]:
            return ["%s: SGR sequence does not start from a reset pen: %r" % (what, ps)]
        got = perceived(term_decode(ps), bib, bbb)
        want = perceived(spec_expect(a), bib, bbb)
        labels = ["foreground", "background", "bold", "italics", "underline", "blink", "standout", "strikethrough"]
        for lab, g, w in zip(labels, got, want):
            if g != w:
                return ["%s: terminal shows %s %r, the palette specifies %r (SGR %r)" % (what, lab, g, w, ps)]
        return []

    def oracle_escape(self, case, res, st):
        return self.compare_spec("escape", res["ps"], st["spec"], case["bib"], case["bbb"])

    @staticmethod
    def doc_large_h(desc):
        """register_palette_entry's documentation: 'hX' where X > 15 are different in 88/256 colour mode."""
        for part in (desc or "").split(","):
            m = re.fullmatch(r"h(\d+)", part.strip())
            if m and int(m.group(1)) > 15:
                return True
        return False

    def palette_expectation(self, case, res):
        """From the registration STRINGS and the documented rules alone (never from screen._palette): which
        (foreground, background, colours) describes each name at the colour depth active in the end.
        16 colours: foreground/background; monochrome: mono/default; 88, 256 and 2**24 colours:
        foreground_high/background_high (falling back on foreground/background), except that at 88 colours an
        entry using 'hN' with N > 15 falls back on the 16-colour pair; an alias is a copy of its target as it
        was when the alias was made."""
        env = {None: ("default", "default", None, None, None)}
        depth = 16
        for op, err in zip(case["ops"], res["errs"]):
            if err:
                continue
            if op[0] == "reg":
                env[op[1]] = tuple(op[2:7])
            elif op[0] == "alias":
                if op[2] in env:
                    env[op[1]] = env[op[2]]
            elif op[0] == "props":
                depth = op[1]
        out = {}
        for nm, (fg, bg, mono, fgh, bgh) in env.items():
            fgh2 = fg if fgh is None else fgh
            bgh2 = bg if bgh is None else bgh
            if depth == 16:
                out[nm] = (fg, bg, 16)
            elif depth == 1:
                out[nm] = ("default" if mono is None else mono, "default", 1)
            elif depth == 88 and (self.doc_large_h(fgh2) or self.doc_large_h(bgh2)):
                out[nm] = (fg, bg, 16)
            else:
                out[nm] = (fgh2, bgh2, depth)
        return out, depth

    def oracle_palette(self, case, res, st):
        import urwid
        s = st["screen"]
        msgs = []
        expect, depth = self.palette_expectation(case, res)
        if depth != s.colors:
            return ["palette: the screen runs at %r colours, set_terminal_properties asked for %r" % (s.colors, depth)]
        for q, ps in zip(case["queries"], res["esc"]):
            last = None
            if isinstance(q, list):
                a = urwid.AttrSpec(*q[1:])
                what = "palette: AttrSpec attribute"
            else:
                for op, err in zip(case["ops"], res["errs"]):
                    if op[0] in ("reg", "alias") and op[1] == q and not err:
                        last = op
                if q in expect:
                    try:
                        a = urwid.AttrSpec(*expect[q])      # colour parsing itself belongs to the colour property
                    except Exception:
                        continue
                    what = ("palette: alias name" if (last is not None and last[0] == "alias") else "palette: registered name") \
                        + " at %d colours (entry %r/%r)" % (depth, expect[q][0], expect[q][1])
                else:
                    a = urwid.AttrSpec("default", "default")
                    what = "palette: undefined name"
            msgs += self.compare_spec(what, ps, a, s.fg_bright_is_bold, s.bg_bright_is_blink)
            # end to end for the documented basic colour names at 16 colours
            if not isinstance(q, list) and s.colors == 16 and ps is not None and not msgs:
                if last is not None and last[0] == "reg":
                    parts = [x.strip() for x in last[2].split(",")]
                    if parts[0] in BASIC and last[3] in BASIC:
                        bib, bbb = s.fg_bright_is_bold, s.bg_bright_is_blink
                        want = perceived([[1, BASIC.index(parts[0])], [1, BASIC.index(last[3])], int("bold" in parts), 0, 0,
                                          int("blink" in parts), 0, 0], bib, bbb)
                        got = perceived(term_decode(ps), bib, bbb)
                        if got[0] != want[0] or got[1] != want[1]:
                            msgs.append("palette: basic colours %r/%r shown as %r/%r" % (parts[0], last[3], got[0], got[1]))
            if msgs:
                break
        return msgs

    # ================================================================= bookkeeping
    def nontrivial(self, case, res):
        k = case["kind"]
        if "err" in res:
            return False
        if k == "markup":
            return any(a is not None for a, _ in res["ok"][2])
        if k in ("text", "layout"):
            return any(a is not None for row in res["rows"] for a, _ in row)
        if k == "retag":
            return any(a is not None for row in res["rows"] for a, _ in row)
        if k == "frame":
            return any(c[1] != [0] or c[2] != [0] or any(c[3:9]) for row in res["grid"] for c in row)
        if k == "clip":
            return any(a is not None for rows in res["clips"] for r in rows for a, _ in r)
        if k == "maps":
            return any(mp for _, mp in res["views"])
        if k == "escape":
            return res["ps"] != [0, 39, 49]
        if k == "palette":
            return any(e != [0, 39, 49] for e in res["esc"])
        return True

    def signature(self, case, msg):
        return case["kind"] + ":" + re.sub(r"\d+", "N", msg)[:60]

    def distribution(self, case, res, dist):
        def inc(k):
            dist[k] = dist.get(k, 0) + 1
        inc("kind:" + case["kind"])
        if "err" in res:
            inc("err:" + case["kind"] + ":" + str(res["err"]))
        if case["kind"] == "frame" and "grid" in res:
            if res["problems"]:
                inc("frame:terminal-model-gave-up")
            last = case["lines"][-1]
            fl = flatten(last)
            if fl and len(fl[1]) >= 2 and fl[1][-1] != fl[1][-2]:
                inc("frame:attribute-boundary-before-the-corner-cell")
        if case["kind"] == "retag":
            inc("retag:wrapped=%d" % case["wrapped"])
        if case["kind"] == "clip":
            inc("clip-via:" + case["via"])
            st = self._stash
            if "clips" in res and st.get("full"):
                with Enc(case["enc"]):
                    for c0, c1 in st.get("regions", []):
                        for _fa, fb in st["full"]:
                            if c0 > 0 and self.column_is_half(fb, c0):
                                inc("clip:left-cut-through-wide-char")
                            if self.column_is_half(fb, c1):
                                inc("clip:right-cut-through-wide-char")
        if case["kind"] in ("text", "layout"):
            inc("enc:" + case["enc"])
            if case["kind"] == "text":
                inc("wrap:" + case["wrap"])
                inc("align:" + case["align"])
        if case["kind"] in ("text", "layout") and "rows" in res:
            r_ = getattr(self, "_reads", False)
            inc("e2e-premise canvas_row_reads:" + ("holds" if r_ else "FAILS" if r_ is False else
                                                   "n/a (bytes text tagged inside a multi-byte character)"))
        if case["kind"] in ("text", "layout") and "rows" in res and getattr(self, "_short", 0):
            inc("obs:content_row_narrower_than_canvas(zero-length attribute run)")
        for sig, n in self._sig_count.items():
            dist["oracle-messages:" + sig] = n
        if case["kind"] == "escape":
            inc("depth:%d" % case["spec"][2])
        if case["kind"] == "palette":
            for op in case["ops"]:
                inc("palop:" + op[0])

    # ================================================================= generators
    CH = {
        "utf-8": [97, 98, 99, 100, 32, 32, 10, 0xE9, 0x4E16, 0x754C, 0x301, 0x1F600, 0x2500, 0x3C0],
        "iso8859-1": [97, 98, 99, 32, 32, 10, 0xE9, 0x2500, 0x3C0, 0xB0],
        "ascii": [97, 98, 99, 32, 10, 0xE9, 0x2500],
        "euc-jp": [97, 98, 99, 32, 10, 0x4E16, 0x754C, 0x2500],
    }
    BCH = {
        "utf-8": [[97], [98], [32], [10], [0xC3, 0xA9], [0xE4, 0xB8, 0x96], [0xCC, 0x81]],
        "iso8859-1": [[97], [98], [32], [10], [0xE9], [0xB0]],
        "ascii": [[97], [98], [32], [10]],
        "euc-jp": [[97], [98], [32], [10], [0xC0, 0xA4]],
    }

    def rand_attr(self, rng, none_p=0.25):
        return None if rng.random() < none_p else rng.randrange(len(names()))

    def rand_str(self, rng, enc, isb, so):
        n = rng.choice([0, 0, 1, 1, 2, 3, 4, 6, 9])
        out = []
        for _ in range(n):
            if so and rng.random() < 0.15:
                out.append(rng.choice([14, 15]))
            elif isb:
                out += rng.choice(self.BCH[enc])
            else:
                out.append(rng.choice(self.CH[enc]))
        return ["s", bool(isb), out]

    def rand_markup(self, rng, enc, isb, so, depth=0, bad_p=0.0):
        r = rng.random()
        if bad_p and r < bad_p:
            return ["bad", rng.randrange(3)]
        if depth >= 3 or r < 0.35:
            return self.rand_str(rng, enc, isb, so)
        if r < 0.65:
            return ["t", self.rand_attr(rng), self.rand_markup(rng, enc, isb, so, depth + 1, bad_p)]
        n = rng.choice([0, 1, 2, 2, 3, 4]) if bad_p else rng.choice([1, 2, 2, 3, 4])
        return ["l", [self.rand_markup(rng, enc, isb, so, depth + 1, bad_p) for _ in range(n)]]

    def gen_markup(self, rng, malformed):
        enc = "utf-8"
        isb = rng.random() < 0.3
        m = self.rand_markup(rng, enc, isb, rng.random() < 0.1, 0, 0.06 if malformed else 0.0)
        if malformed and rng.random() < 0.3:
            m = ["l", [m, self.rand_str(rng, enc, not isb, False)]]
        return {"kind": "markup", "m": m}

    def gen_text(self, rng, so_p=0.12):
        enc = rng.choice(ENCODINGS + ["utf-8", "utf-8"])
        isb = rng.random() < 0.2
        so = rng.random() < so_p
        m = self.rand_markup(rng, enc, isb, so)
        if rng.random() < 0.5:
            m = ["l", [m, self.rand_markup(rng, enc, isb, so)]]
        return {"kind": "text", "m": m, "w": rng.choice([1, 2, 3, 3, 4, 5, 6, 8, 12, 20]),
                "align": rng.choice(["left", "center", "right"]),
                "wrap": rng.choice(["any", "space", "clip", "ellipsis"]), "enc": enc}

    def gen_layout(self, rng, malformed):
        """apply_text_layout with a layout given as data: segments in any order, repeated, with inserts."""
        from urwid import str_util
        enc = rng.choice(ENCODINGS)
        isb = rng.random() < 0.2
        with Enc(enc):
            s = ["s", isb, []]
            while len(s[2]) < 3:
                s = self.rand_str(rng, enc, isb, rng.random() < 0.15)
            codes = [c for c in s[2] if c != 10]
            text = bytes(codes) if isb else "".join(chr(c) for c in codes)
            n = len(codes)
            # attribute runs: usually covering, sometimes short, sometimes with empty runs
            attr, left = [], n
            while left > 0 and rng.random() < 0.9:
                r = rng.choice([0, 1, 1, 2, 3, left])
                r = min(r, left)
                attr.append([self.rand_attr(rng), r])
                left -= r
            w = rng.choice([3, 4, 6, 10])
            # character boundaries for bytes text
            bounds = [0]
            i = 0
            while i < n:
                j = str_util.move_next_char(text, i, n) if isb else i + 1
                j = max(j, i + 1)
                bounds.append(j)
                i = j
            ls = []
            for _ in range(rng.choice([1, 2, 3])):
                line, used = [], 0
                overlong = rng.random() < 0.35          # a line that apply_text_layout has to trim itself
                if overlong and rng.random() < 0.7:
                    line.append([-rng.choice([1, 1, 2, 3, 5]), None])
                for _ in range(rng.choice([0, 1, 2, 3])):
                    kind = rng.random()
                    if kind < 0.55 and len(bounds) > 1:
                        a = rng.randrange(len(bounds) - 1)
                        b = rng.randrange(a + 1, len(bounds))
                        o, e = bounds[a], bounds[b]
                        sc = str_util.calc_width(text, o, e)
                        if sc <= 0 or (used + sc > w and not overlong):
                            continue
                        line.append([sc, o, e])
                        used += sc
                    elif kind < 0.7:
                        ins = rng.choice([[46], [46, 46], [46, 46, 46], [0xE2, 0x80, 0xA6] if enc == "utf-8" else [46],
                                          [0xE4, 0xB8, 0x96, 46] if enc == "utf-8" else [46, 46]])
                        sc = str_util.calc_width(bytes(ins), 0, len(ins))
                        if used + sc > w and not overlong:
                            continue
                        line.append([sc, rng.randrange(0, n + 1), ins])
                        used += sc
                    else:
                        sc = rng.choice([0, 1, 2])
                        if used + sc > w:
                            continue
                        offs = rng.choice([None, None, 0, rng.randrange(0, n + 1)])
                        if sc == 0 and not offs:
                            offs = rng.randrange(1, n + 2)      # a (0, None) pad is never produced by a layout
                        line.append([sc, offs])
                        used += sc
                ls.append(line)
            if malformed:
                r = rng.random()
                if r < 0.3 and ls[0]:
                    ls[0][0][0] = rng.choice([0, -1])
                elif r < 0.6:
                    ls[0].append([1, rng.choice(bounds), n + rng.choice([0, 1, 3])])
                else:
                    attr.append([self.rand_attr(rng), rng.choice([1, 5])])
        return {"kind": "layout", "text": codes, "isb": isb, "attr": attr, "ls": ls, "w": w, "enc": enc}

    def retag_markup(self, rng, codes):
        """Markup over exactly these characters with a fresh random tag structure."""
        pieces, i = [], 0
        while i < len(codes):
            n = rng.choice([1, 1, 2, 3, len(codes)])
            chunk = ["s", False, codes[i:i + n]]
            i += n
            r = rng.random()
            if r < 0.25:
                pieces.append(chunk)
            elif r < 0.8:
                pieces.append(["t", self.rand_attr(rng, 0.1), chunk])
            else:
                pieces.append(["t", self.rand_attr(rng, 0.1), ["t", self.rand_attr(rng, 0.3), chunk]])
        m = ["l", pieces]
        if rng.random() < 0.3:
            m = ["t", self.rand_attr(rng, 0.1), m]
        return m

    def gen_retag(self, rng):
        alpha = [97, 98, 99, 32, 32, 0x4E16, 0xE9, 10]
        codes = [rng.choice(alpha) for _ in range(rng.choice([1, 2, 3, 5, 8]))]
        steps = []
        for _ in range(rng.choice([2, 2, 3, 4])):
            if steps and rng.random() < 0.15:       # sometimes the characters change too
                codes = codes[:-1] + [rng.choice(alpha)]
            steps.append(self.retag_markup(rng, list(codes)))
        return {"kind": "retag", "steps": steps, "w": rng.choice([2, 3, 5, 8]), "align": rng.choice(["left", "center", "right"]),
                "wrap": rng.choice(["any", "space", "clip", "ellipsis"]), "enc": "utf-8", "wrapped": rng.choice([0, 0, 1, 2])}

    def gen_frame(self, rng):
        """A whole screen of attribute-tagged rows through draw_screen: rows filled to the right edge (the bottom
        right cell trick), rows ending in blanks (erase to end of line), attribute changes at every position."""
        cols = rng.choice([2, 3, 4, 5, 6, 8])
        nrows = rng.choice([1, 1, 2, 3])
        depth = rng.choice([16, 16, 256])
        pal = []
        for nm in range(self.FRAME_NAMES - 1):       # the last name stays unregistered
            if depth == 16:
                fg, bg = rng.choice(BASIC), rng.choice(BASIC[:8] + ["default"])
            else:
                fg, bg = "h%d" % rng.randrange(16, 256), rng.choice(["h%d" % rng.randrange(16, 256), "default"])
            fg = ",".join([fg] + [st_ for st_ in SETTINGS if rng.random() < 0.15])
            pal.append([nm, fg, bg])
        alpha = [97, 98, 99, 120, 0x4E16, 0x754C, 0xE9]
        lines = []
        for _ in range(nrows):
            fill = cols if rng.random() < 0.7 else rng.randrange(0, cols + 1)
            pieces, used = [], 0
            while used < fill:
                tag = rng.choice([None] + list(range(self.FRAME_NAMES)))
                codes = []
                for _ in range(rng.choice([1, 1, 2, 3])):
                    c = rng.choice(alpha + ([32] if used + 1 < fill else []))
                    w = FrameTerm.width(chr(c))
                    if used + w > fill:
                        c, w = 97, 1
                        if used + w > fill:
                            break
                    codes.append(c)
                    used += w
                if codes:
                    pieces.append(["t", tag, ["s", False, codes]])
            lines.append(["l", pieces] if pieces else ["s", False, []])
        return {"kind": "frame", "cols": cols, "lines": lines, "pal": pal, "depth": depth,
                "bib": rng.random() < 0.3, "bce": rng.random() < 0.7}

    def gen_clip(self, rng):
        """Text rich in double-width characters with an attribute boundary at (almost) every character,
        clipped on the left / right / both sides at every kind of column."""
        enc = rng.choice(["utf-8", "utf-8", "utf-8", "euc-jp", "iso8859-1"])
        alpha = {"utf-8": [0x4E16, 0x754C, 0x4E16, 97, 98, 32, 0x1F600, 0xE9, 0x301],
                 "euc-jp": [0x4E16, 0x754C, 97, 98, 32], "iso8859-1": [97, 98, 0xE9, 32, 0x2500]}[enc]
        pieces = []
        for _ in range(rng.choice([2, 3, 4, 5, 7])):
            n = rng.choice([1, 1, 1, 2, 3])
            pieces.append(["t", self.rand_attr(rng, 0.15), ["s", False, [rng.choice(alpha) for _ in range(n)]]])
        w = rng.choice([3, 4, 5, 6, 8, 11])
        via = rng.choice(["content", "padtrim", "overlay"])
        if via == "overlay":
            left = rng.randrange(0, w)
            cols = rng.randrange(1, w - left + 1)
            if left == 0 and cols == w:
                cols = w - 1
        else:
            left = rng.randrange(0, w)
            cols = rng.randrange(1, w - left + 1)
        return {"kind": "clip", "m": ["l", pieces], "w": w, "align": rng.choice(["left", "left", "center", "right"]),
                "wrap": rng.choice(["any", "clip", "space", "ellipsis"]), "enc": enc, "via": via, "left": left, "cols": cols}

    def small_clips(self):
        """Exhaustive small scope: every string of 3 characters over {a, wide}, a different attribute on each,
        every clip window, the three clip paths."""
        import itertools
        for chars in itertools.product([97, 0x4E16], repeat=3):
            m = ["l", [["t", i, ["s", False, [c]]] for i, c in enumerate(chars)]]
            w = sum(2 if c > 255 else 1 for c in chars)
            for left in range(0, w):
                for cols in range(1, w - left + 1):
                    for via in ("content", "padtrim", "overlay"):
                        if via == "overlay" and left == 0 and cols == w:
                            continue
                        yield {"kind": "clip", "m": m, "w": w, "align": "left", "wrap": "clip", "enc": "utf-8",
                               "via": via, "left": left, "cols": cols}

    def rand_map(self, rng, none_p=0.15):
        if rng.random() < 0.3:
            return ["single", self.rand_attr(rng, none_p)]
        n = rng.choice([0, 1, 1, 2, 3])
        pairs, seen = [], set()
        small = [None, 0, 1, 2, 3, 4]
        for _ in range(n):
            a = rng.choice(small)
            if a in seen:
                continue
            seen.add(a)
            pairs.append([a, rng.choice(small + [5, 6])])
        return ["dict", pairs]

    def rand_leaf(self, rng):
        def piece():
            return ["t", rng.choice([None, 0, 1, 2, 3, 4]), ["s", False, [rng.choice([97, 98, 99, 0x4E16, 32]) for _ in range(rng.choice([1, 2, 3]))]]]
        return ["text", ["l", [piece() for _ in range(rng.choice([1, 2, 3]))]], rng.choice(["left", "center", "right"]),
                rng.choice(["any", "space", "clip"])]

    def rand_tree(self, rng, W, depth=0):
        r = rng.random()
        if depth >= 4 or r < 0.2:
            return self.rand_leaf(rng)
        if r < 0.65:
            if rng.random() < 0.15:
                am = ["single", self.rand_attr(rng, 0.1)]
                fm = None if rng.random() < 0.5 else ["single", self.rand_attr(rng, 0.0)]
                return ["amap", am, fm, self.rand_tree(rng, W, depth + 1), "AttrWrap"]
            fm = None if rng.random() < 0.4 else self.rand_map(rng, 0.0)
            return ["amap", self.rand_map(rng), fm, self.rand_tree(rng, W, depth + 1), "AttrMap"]
        if r < 0.82 or W < 4:
            n = rng.choice([1, 2, 2, 3])
            return ["pile", rng.randrange(n), [self.rand_tree(rng, W, depth + 1) for _ in range(n)]]
        n = rng.choice([2, 2, 3]) if W >= 6 else 2
        cuts = sorted(rng.sample(range(2, W - 1), n - 1)) if W - 3 >= n - 1 else None
        if not cuts:
            return self.rand_leaf(rng)
        ws = [b - a for a, b in zip([0] + cuts, cuts + [W])]
        if any(x < 2 for x in ws):
            return self.rand_leaf(rng)
        return ["cols", rng.randrange(n), [[wd, self.rand_tree(rng, wd, depth + 1)] for wd in ws]]

    def gen_maps(self, rng):
        W = rng.choice([4, 6, 9, 12])
        return {"kind": "maps", "tree": self.rand_tree(rng, W), "focus": rng.random() < 0.6, "w": W}

    HIGH = ["#000", "#fff", "#f00", "#08f", "#6a6", "g0", "g7", "g50", "g100", "g#80", "h0", "h8", "h15", "h16", "h87", "h88",
            "h231", "h255", "#123456", "#ffffff", "#00ff7f"]

    def colour_for(self, rng, depth, bg=False):
        if depth == 1:
            return "default"
        r = rng.random()
        if depth == 16 or r < 0.35:
            return rng.choice(["default"] + BASIC)
        c = rng.choice(self.HIGH)
        if depth == 88 and c.startswith("h") and int(c[1:]) > 87:
            c = "h80"
        return c

    def settings(self, rng):
        return [s for s in SETTINGS if rng.random() < 0.25]

    def gen_escape(self, rng):
        import urwid
        while True:
            depth = rng.choice(DEPTHS)
            fg = ",".join([self.colour_for(rng, depth)] + self.settings(rng))
            bg = self.colour_for(rng, depth, True)
            try:
                urwid.AttrSpec(fg, bg, depth)
            except Exception:
                continue
            return {"kind": "escape", "spec": [fg, bg, depth], "bib": rng.random() < 0.5, "bbb": rng.random() < 0.3}

    def sweep_escape(self, tier):
        for bib in (False, True):
            for bbb in (False, True):
                for fg in ["default"] + BASIC:
                    for bg in ["default"] + BASIC:
                        yield {"kind": "escape", "spec": [fg, bg, 16], "bib": bib, "bbb": bbb}
        for st in range(64):
            ss = [s for i, s in enumerate(SETTINGS) if st >> i & 1]
            for fg in ("default", "light red", "dark blue"):
                for bib in (False, True):
                    yield {"kind": "escape", "spec": [",".join([fg] + ss), "yellow", 16], "bib": bib, "bbb": bool(st & 1)}
            yield {"kind": "escape", "spec": [",".join(["default"] + ss), "default", 1], "bib": True, "bbb": False}
        step = 1 if tier == "thorough" else 7
        for n in range(0, 256, step):
            yield {"kind": "escape", "spec": ["h%d" % n, "h%d" % (255 - n), 256], "bib": n % 2 == 0, "bbb": False}
            yield {"kind": "escape", "spec": ["h%d" % n, "#%02x%02x%02x" % (n, 255 - n, (n * 7) % 256), 2 ** 24], "bib": False, "bbb": False}
        for n in range(0, 88, 1 if tier == "thorough" else 5):
            yield {"kind": "escape", "spec": ["h%d" % n, "h%d" % (87 - n), 88], "bib": True, "bbb": True}

    def gen_palette(self, rng):
        ops = []
        pool = [0, 1, 2, 3, 4]
        for _ in range(rng.choice([1, 2, 3, 4, 6])):
            r = rng.random()
            if r < 0.6:
                nm = rng.choice(pool + [None])
                fg = ",".join([rng.choice(["default"] + BASIC)] + self.settings(rng))
                bg = rng.choice(["default"] + BASIC)
                mono = rng.choice([None, None, "bold", "underline,standout", "default"])
                hi = rng.random() < 0.5
                fgh = ",".join([self.colour_for(rng, 256)] + self.settings(rng)) if hi else None
                bgh = self.colour_for(rng, 256, True) if hi else None
                if hi and rng.random() < 0.35:       # the boundary of "hN is the same colour at 88 and 256 colours"
                    edge = ["h14", "h15", "h16", "h17", "h86", "h87", "h88"]
                    if rng.random() < 0.5:
                        fgh = ",".join([rng.choice(edge)] + self.settings(rng))
                    else:
                        bgh = rng.choice(edge)
                ops.append(["reg", nm, fg, bg, mono, fgh, bgh])
            elif r < 0.8:
                ops.append(["alias", rng.choice(pool), rng.choice(pool + [None, 7])])
            else:
                ops.append(["props", rng.choice(DEPTHS + [88]), rng.random() < 0.5, rng.random() < 0.8])
        queries = [rng.choice(pool + [None, 7, 8]) for _ in range(rng.choice([1, 2, 3]))]
        if rng.random() < 0.3:
            depth = 16
            for op in ops:
                if op[0] == "props":
                    depth = op[1]
            queries.append(["spec", ",".join([self.colour_for(rng, depth)] + self.settings(rng)), self.colour_for(rng, depth, True), depth])
        return {"kind": "palette", "bib": rng.random() < 0.5, "bbb": rng.random() < 0.2, "ops": ops, "queries": queries}

    def small_markups(self):
        """Exhaustive small scope: every nesting of <= 2 tags over 2 short strings."""
        strs = [["s", False, []], ["s", False, [97]], ["s", False, [98, 0xE9]]]
        tags = [None, 0, 1]
        for s1 in strs:
            yield s1
            for t1 in tags:
                yield ["t", t1, s1]
                for t2 in tags:
                    yield ["t", t1, ["t", t2, s1]]
                    for s2 in strs:
                        yield ["l", [["t", t1, s1], ["t", t2, s2]]]
                        yield ["t", t1, ["l", [s1, ["t", t2, s2]]]]
                        yield ["l", [["l", [["t", t1, s1]]], ["l", []], ["t", t2, s2]]] if False else ["l", [["l", [["t", t1, s1]]], ["t", t2, s2]]]
        yield ["l", []]
        yield ["l", [["l", []], ["s", False, [97]]]]
        yield ["l", [["s", False, [97]], ["l", []]]]

    def cases(self, rng, tier):
        big = tier != "quick"
        for m in self.small_markups():
            yield {"kind": "markup", "m": m}
            for wrap in ("any", "clip", "ellipsis"):
                yield {"kind": "text", "m": m, "w": 2, "align": "right", "wrap": wrap, "enc": "utf-8"}
        for _ in range(15000 if big else 2500):
            yield self.gen_markup(rng, False)
        for _ in range(4000 if big else 600):
            yield self.gen_markup(rng, True)
        for _ in range(120000 if big else 9000):
            yield self.gen_text(rng)
        for _ in range(40000 if big else 3500):
            yield self.gen_layout(rng, False)
        for _ in range(8000 if big else 700):
            yield self.gen_layout(rng, True)
        for _ in range(15000 if big else 1500):
            yield self.gen_retag(rng)
        for _ in range(25000 if big else 2500):
            yield self.gen_frame(rng)
        yield from self.small_clips()
        for _ in range(40000 if big else 3000):
            yield self.gen_clip(rng)
        for _ in range(40000 if big else 3500):
            yield self.gen_maps(rng)
        yield from self.sweep_escape(tier)
        for _ in range(30000 if big else 3000):
            yield self.gen_escape(rng)
        for _ in range(25000 if big else 2500):
            yield self.gen_palette(rng)
        for _ in range(8000 if big else 1000):
            ps = [rng.choice([0, 1, 2, 3, 4, 5, 7, 9, 22, 24, 27, 30, 31, 37, 38, 39, 40, 47, 48, 49, 90, 97, 100, 107, 255, 300])
                  for _ in range(rng.choice([1, 2, 3, 5, 8]))]
            yield {"kind": "decode", "ps": ps}

    def search_cases(self, rng, tier):
        while True:
            r = rng.random()
            if r < 0.05:
                yield self.gen_retag(rng)
            elif r < 0.1:
                yield self.gen_frame(rng)
            elif r < 0.15:
                yield self.gen_clip(rng)
            elif r < 0.3:
                yield self.gen_text(rng)
            elif r < 0.45:
                yield self.gen_layout(rng, False)
            elif r < 0.6:
                yield self.gen_maps(rng)
            elif r < 0.75:
                yield self.gen_escape(rng)
            elif r < 0.9:
                yield self.gen_palette(rng)
            else:
                yield self.gen_markup(rng, False)

    # ================================================================= shrinking
    def shrink_candidates(self, case):
        k = case["kind"]
        if k in ("text", "markup", "clip"):
            for m in self.shrink_markup(case["m"]):
                c = dict(case)
                c["m"] = m
                yield c
            if k == "text":
                for w in (case["w"] - 1, case["w"] // 2):
                    if 1 <= w < case["w"]:
                        c = dict(case)
                        c["w"] = w
                        yield c
                if case["align"] != "left":
                    c = dict(case)
                    c["align"] = "left"
                    yield c
        elif k == "retag":
            if len(case["steps"]) > 2:
                for i in range(len(case["steps"]) - 1):
                    c = dict(case)
                    c["steps"] = case["steps"][:i] + case["steps"][i + 1:]
                    yield c
            if case["wrapped"]:
                c = dict(case)
                c["wrapped"] = 0
                yield c
        elif k == "frame":
            for i in range(len(case["lines"]) - 1):
                c = dict(case)
                c["lines"] = case["lines"][:i] + case["lines"][i + 1:]
                yield c
            for i, m in enumerate(case["lines"]):
                for m2 in self.shrink_markup(m):
                    fl = flatten(m2)
                    if fl is None:
                        continue
                    c = dict(case)
                    c["lines"] = case["lines"][:i] + [m2] + case["lines"][i + 1:]
                    yield c
            if case["bib"]:
                c = dict(case)
                c["bib"] = False
                yield c
        elif k == "palette":
            for i in range(len(case["ops"])):
                c = dict(case)
                c["ops"] = case["ops"][:i] + case["ops"][i + 1:]
                yield c
            for i in range(len(case["queries"])):
                if len(case["queries"]) > 1:
                    c = dict(case)
                    c["queries"] = case["queries"][:i] + case["queries"][i + 1:]
                    yield c
        elif k == "maps":
            for t in self.shrink_tree(case["tree"]):
                c = dict(case)
                c["tree"] = t
                yield c
        elif k == "layout":
            for i in range(len(case["ls"])):
                if len(case["ls"]) > 1:
                    c = dict(case)
                    c["ls"] = case["ls"][:i] + case["ls"][i + 1:]
                    yield c
            for i, line in enumerate(case["ls"]):
                for j in range(len(line)):
                    c = dict(case)
                    c["ls"] = [l if ii != i else l[:j] + l[j + 1:] for ii, l in enumerate(case["ls"])]
                    yield c

    def shrink_markup(self, m):
        k = m[0]
        if k == "t":
            yield m[2]
            for x in self.shrink_markup(m[2]):
                yield ["t", m[1], x]
        elif k == "l":
            for i in range(len(m[1])):
                yield ["l", m[1][:i] + m[1][i + 1:]]
            if len(m[1]) == 1:
                yield m[1][0]
            for i, x in enumerate(m[1]):
                for y in self.shrink_markup(x):
                    yield ["l", m[1][:i] + [y] + m[1][i + 1:]]
        elif k == "s":
            for i in range(len(m[2])):
                yield ["s", m[1], m[2][:i] + m[2][i + 1:]]

    def shrink_tree(self, t):
        k = t[0]
        if k == "amap":
            yield t[3]
            if t[2] is not None:
                yield ["amap", t[1], None, t[3], t[4]]
            for x in self.shrink_tree(t[3]):
                yield ["amap", t[1], t[2], x, t[4]]
        elif k == "pile":
            for c in t[2]:
                yield c
            for i, c in enumerate(t[2]):
                for x in self.shrink_tree(c):
                    yield ["pile", t[1], t[2][:i] + [x] + t[2][i + 1:]]
        elif k == "cols":
            for i, (wd, c) in enumerate(t[2]):
                for x in self.shrink_tree(c):
                    yield ["cols", t[1], t[2][:i] + [[wd, x]] + t[2][i + 1:]]


CHECK = C17
