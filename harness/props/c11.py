"""C11 - screen-width arithmetic is consistent for text in every encoding.

Case kinds (JSON):
  {"k":"text","mode":"str","s":[cp..],"cols":C}                 queries on the str
  {"k":"text","mode":"bytes","enc":E,"s":[cp..],"cols":C}       queries on s.encode(E,"replace")
  {"k":"text","mode":"db","enc":E,"chars":[[b]|[lead,trail]..]} queries on a well-formed double-byte text given as characters
  {"k":"text","mode":"raw","enc":E,"b":[byte..],"cols":C}       queries on arbitrary bytes (no boundaries known)
  {"k":"widths","lo":a,"hi":b}                                  get_char_width of every code point in [a,b)
  {"k":"ate","enc":E,"s":[cp..]} / {"k":"ate","enc":E,"b":[..]}  apply_target_encoding
  {"k":"rle","op":...}                                          rle_subseg/get_at/len/product/append/prepend/join
  {"k":"enc8","s":[cp..]}                                       str.encode('utf-8') and boundary offsets (model's encoder)
  {"k":"trimattr","enc":E,"s":[cp..],"attr":[[a,n]..],"cs":[[a,n]..],"sc":..,"ec":..}
The query list of a text case is a function of the case (queries()); the implementation, the extracted model
and the oracle walk the same list.
"""
import itertools
import os
import re
import warnings

from harness import core

warnings.simplefilter("ignore")

ERRC = {"IndexError": 1, "ValueError": 2, "TypeError": 3}
MODES = {"utf-8": 1, "euc-jp": 2, "iso8859-1": 3, "ascii": 3, "big5": 2, "gbk": 2, "euc-kr": 2}   # harness's own reading of set_encoding
ALPHA = [ord("a"), ord(" "), ord("\n"), 0x4E16, 0x0301, 0x2500, 0x1F600, 0xE9]
ENCS = ["utf-8", "euc-jp", "iso8859-1"]
# code points that width libraries treat contextually inside grapheme sequences (the per-character width of the
# property must not depend on the neighbours): emoji + ZWJ, VS16 / VS15 after a narrow or wide base, regional
# indicators, skin-tone modifier, keycap
GRAPHEME = [0x1F468, 0x200D, 0xFE0F, 0x2764, 0x1F1E6, 0x1F1FA, 0x1F3FB, 0xFE0E, 0x20E3, ord("1")]
NONE = -1


def errcode(e):
    return ERRC.get(type(e).__name__, 10)


def chars_bytes(case):
    """(list of per-character byte strings) of a bytes-mode text case."""
    enc = case["enc"]
    return [chr(c).encode(enc, "replace") for c in case["s"]]


def text_of(case):
    """(text object, boundary offsets, mode int)"""
    if case["mode"] == "str":
        s = "".join(chr(c) for c in case["s"])
        return s, list(range(len(s) + 1)), 0
    if case["mode"] == "bytes":
        parts = chars_bytes(case)
        b = b"".join(parts)
        offs = [0]
        for p in parts:
            offs.append(offs[-1] + len(p))
        return b, offs, MODES[case["enc"]]
    if case["mode"] == "db":
        offs = [0]
        for c in case["chars"]:
            offs.append(offs[-1] + len(c))
        return bytes(x for c in case["chars"] for x in c), offs, MODES[case["enc"]]
    b = bytes(case["b"])
    return b, [0, len(b)], MODES[case["enc"]]


def queries(case, text, B, mode):
    n = len(text)
    C = case.get("cols", 9)
    q = []
    Bs = sorted(set(B))
    raw = case["mode"] == "raw"
    if not raw:
        for i in Bs:
            for j in Bs:
                if i > j:
                    continue
                q.append([1, i, j, 0, 0])
                for col in range(C + 1):
                    q.append([2, i, j, col, 0])
                if i < j:
                    q.append([3, i, j, 0, 0])
                    q.append([4, i, j, 0, 0])
                for sc in range(C):
                    for ec in range(sc + 1, C + 1):
                        q.append([7, i, j, sc, ec])
        for i in Bs:
            if i < n:
                q.append([5, i, 0, 0, 0])
    if mode != 0:
        for p in range(n):
            q.append([8, p, 0, 0, 0])
        if mode == 2 or raw:
            starts = Bs if not raw else range(n)
            for ls in starts:
                for p in range(ls, n):
                    q.append([6, ls, p, 0, 0])
        inb = set(Bs)
        if n <= 20:
            for i in range(n + 1):
                for j in range(i, n + 1):
                    if not raw and i in inb and j in inb:
                        continue
                    q.append([1, i, j, 0, 0])
                    for col in ((0, 1, 2, 3, 5) if not raw else range(0, 7)):
                        q.append([2, i, j, col, 0])
                    if i < j:
                        q.append([3, i, j, 0, 0])
                        q.append([4, i, j, 0, 0])
                    if raw and (j - i) <= 6:
                        for sc, ec in ((0, 1), (0, 2), (1, 2), (1, 3), (2, 4), (0, 5), (3, 4)):
                            q.append([7, i, j, sc, ec])
            for p in range(n):
                if raw or p not in inb:
                    q.append([5, p, 0, 0, 0])
    # outside the domain of the property: correspondence only
    q += [[1, 1, 0, 0, 0], [2, 1, 0, 1, 0], [3, 1, 1, 0, 0], [4, 0, 0, 0, 0], [3, 2, 1, 0, 0], [4, 2, 1, 0, 0],
          [1, 0, n + 1, 0, 0], [2, 0, n + 1, 9, 0], [2, 0, n, -1, 0], [2, 0, n, -3, 0], [1, -1, n, 0, 0],
          [2, -1, n, 2, 0], [1, -2, -1, 0, 0], [5, n, 0, 0, 0], [5, -1, 0, 0, 0], [3, n, n + 1, 0, 0],
          [4, -1, 0, 0, 0], [4, n, n + 1, 0, 0],
          [7, 0, n + 1, 0, 3], [7, 1, 0, 0, 1], [7, 0, n, 0, 0], [7, 0, n, 2, 1], [7, 0, n, -1, 1], [7, 0, n, 2, 2],
          [7, 0, n, 1, 30], [7, 0, n, 0, 30]]
    if mode != 0:
        q += [[8, n, 0, 0, 0], [8, -1, 0, 0, 0], [6, 0, n, 0, 0], [6, 0, -1, 0, 0], [6, 1, 0, 0, 0], [6, -2, 0, 0, 0]]
    return q


def call(text, q):
    from urwid import str_util, util
    f, a, b, c, d = q
    try:
        if f == 1:
            return [0, int(str_util.calc_width(text, a, b)), 0, 0, 0]
        if f == 2:
            p, sc = str_util.calc_text_pos(text, a, b, c)
            return [0, int(p), int(sc), 0, 0]
        if f == 3:
            return [0, int(str_util.move_next_char(text, a, b)), 0, 0, 0]
        if f == 4:
            return [0, int(str_util.move_prev_char(text, a, b)), 0, 0, 0]
        if f == 5:
            return [0, 1 if str_util.is_wide_char(text, a) else 0, 0, 0, 0]
        if f == 6:
            return [0, int(str_util.within_double_byte(text, a, b)), 0, 0, 0]
        if f == 7:
            sp, ep, pl, pr = util.calc_trim_text(text, a, b, c, d)
            return [0, int(sp), int(ep), int(pl), int(pr)]
        if f == 8:
            o, nx = str_util.decode_one(text, a)
            return [0, int(o), int(nx), 0, 0]
    except Exception as e:  # noqa: BLE001
        return [errcode(e), 0, 0, 0, 0]
    raise core.MachineryError("unknown query %r" % (q,))


def enc_rle(r):
    out = [len(r)]
    for a, n in r:
        out += [NONE if a is None else a, n]
    return out


def to_rle(r):
    return [(None if a == NONE else a, n) for a, n in r]


def from_rle(r):
    return [[NONE if a is None else (ord(a) if isinstance(a, str) else a), int(n)] for a, n in r]


def expand(r):
    out = []
    for a, n in r:
        out += [a] * max(n, 0)
    return out


def take_list(it):
    n = next(it)
    return [next(it) for _ in range(n)]


def take_rle(it, width=2):
    n = next(it)
    return [[next(it) for _ in range(width)] for _ in range(n)]


class C11(core.Check):
    pid = "C11"
    gen_modules = ["str_util", "str_loops", "wcwidth_table"]
    model_targets = ["theories/Model/Width.vo"]
    prop_file = "theories/Properties/C11.v"
    extract_v = "Extract/C11X.v"
    allowed_axioms = set()
    design_ref = "DESIGN.md section 5, C11"
    technique = ("Coq theorems (induction over the text, for every width function bounded by 2) about a model whose "
                 "get_char_width, decode_one arithmetic, calc_trim_text and DEC tables are re-translated from the source and "
                 "whose width table is dumped from the installed wcwidth on every run; extracted-model correspondence; "
                 "naive per-character oracle")
    level_text = ""      # filled below
    level_note = ""
    rule = ("text cases = (string over an 8-class alphabet: ASCII letter, space, newline, wide CJK, combining, DEC line-drawing, "
            "4-byte emoji, Latin-1 letter) as a str and as bytes under utf-8 / euc-jp / iso8859-1, plus strings over a grapheme-sequence "
            "alphabet (emoji, ZWJ, VS16/VS15, regional indicators, skin-tone modifier, keycap) as str and utf-8, each with the full query table "
            "(all boundary offset ranges x columns 0..9 for calc_width/calc_text_pos/move_next/move_prev/is_wide_char/"
            "calc_trim_text, plus mid-character byte offsets and out-of-domain arguments for the correspondence); exhaustive up "
            "to length 3 (quick) / 4 (thorough) plus random longer strings and random raw byte strings; every code point's "
            "width; apply_target_encoding, rle and trim_text_attr_cs cases; non-trivial = the text is non-empty (or the "
            "operation returned a non-empty result); distinct by hash of (case, outcome)")
    trusted_base = [
        "Coq 8.16.1 kernel (coqc; vm_compute used for closed finite facts: byte masks over all 256 bytes, the dumped width table, the DEC tables)",
        "tools/py2v translator incl. the subclasses in tools/py2v/mods/str_util.py and mods/str_loops.py (get_char_width, decode_one arithmetic, calc_trim_text, DEC tables, "
        "and the loops within_double_byte / calc_text_pos / calc_string_text_pos / move_next_char / move_prev_char / is_wide_char / calc_width fallback / rle_get_at / rle_len / rle_subseg, regenerated every run; "
        "loop fuel expressions are supplied by the module, out-of-fuel is an error value proved unreachable where stated)",
        "tools/py2v/mods/wcwidth_table.py dump of the installed wcwidth (compared with get_char_width over all 0x110000 code points every run)",
        "extraction: ExtrOcamlBasic only; Z/positive stay Coq datatypes; OCaml 4.13.1; tools/driver/driver.ml",
        "hand-written parts of Model/Width.v (loops of str_util.py, rle functions, apply_target_encoding splitting) and Base/Utf8.v "
        "(validated by this correspondence against the implementation and CPython's codec, not proved against Python)",
        "Python oracle in harness/props/c11.py; the wcwidth package as the Unicode width table",
    ]
    assumptions = [
        "offsets are within the text and on character boundaries (0 <= start <= end <= len); columns are non-negative",
        "theorems about bytes speak about the UTF-8 encoding of a list of scalar values (no surrogates) and about arbitrary bytes for the double-byte mode; "
        "Python's codecs for EUC/Big5/GBK are not modelled (only urwid's own byte-range logic)",
        "calc_trim_text: start_col < end_col <= width of the line",
        "the UnicodeWarning of calc_width's fallback is not modelled (its value is)",
        "on invalid UTF-8 the oracle demands totality (in-range width queries never raise) and that decode_one consumes a lead byte plus continuation bytes only; which '?' replacement widths result is correspondence-only",
        "wide (double-byte) mode counts one column per byte: characters whose euc-jp encoding has 3 bytes are outside the oracle; "
        "double-byte texts are also generated byte by byte (single < 0x80; lead 0x81-0xFE, trail 0x40-0x7E or 0x80-0xFE) to reach every range boundary",
    ]

    # ------------------------------------------------------------------ implementation
    def run_impl(self, case):
        import urwid
        from urwid import util
        k = case["k"]
        try:
            if k == "text":
                urwid.set_encoding(case.get("enc", "utf-8"))
                text, B, mode = text_of(case)
                return {"r": [call(text, q) for q in queries(case, text, B, mode)]}
            if k == "widths":
                from urwid import str_util
                return {"w": [int(str_util.get_char_width(chr(c))) for c in range(case["lo"], case["hi"])]}
            if k == "ate":
                urwid.set_encoding(case["enc"])
                arg = bytes(case["b"]) if "b" in case else "".join(chr(c) for c in case["s"])
                try:
                    out, cs = util.apply_target_encoding(arg)
                except Exception as e:  # noqa: BLE001
                    return {"err": type(e).__name__}
                return {"out": list(out), "cs": from_rle(cs)}
            if k == "rle":
                return self.run_rle(case)
            if k == "enc8":
                s = "".join(chr(c) for c in case["s"])
                try:
                    b = s.encode("utf-8")
                except UnicodeEncodeError:
                    return {"err": 10}
                offs = [0]
                for ch in s:
                    offs.append(offs[-1] + len(ch.encode("utf-8")))
                return {"b": list(b), "offs": offs}
            if k == "trimattr":
                urwid.set_encoding(case["enc"])
                text = "".join(chr(c) for c in case["s"]).encode(case["enc"], "replace")
                try:
                    t, a, c = util.trim_text_attr_cs(text, to_rle(case["attr"]), to_rle(case["cs"]), case["sc"], case["ec"])
                except Exception as e:  # noqa: BLE001
                    return {"err": errcode(e)}
                return {"t": list(t), "a": from_rle(a), "c": from_rle(c)}
        finally:
            urwid.set_encoding("utf-8")
        raise core.MachineryError("unknown case kind " + str(k))

    def run_rle(self, case):
        from urwid import util
        op = case["op"]
        r = to_rle(case["rle"])
        try:
            if op == "subseg":
                return {"rle": from_rle(util.rle_subseg(r, case["start"], case["end"]))}
            if op == "get_at":
                v = util.rle_get_at(r, case["pos"])
                return {"v": NONE if v is None else v}
            if op == "len":
                return {"v": util.rle_len(r)}
            if op == "product":
                p = util.rle_product(r, to_rle(case["rle2"]))
                return {"rle": [[NONE if a is None else a, NONE if b is None else b, n] for (a, b), n in p]}
            if op == "append":
                util.rle_append_modify(r, (None if case["a"] == NONE else case["a"], case["n"]))
                return {"rle": from_rle(r)}
            if op == "prepend":
                util.rle_prepend_modify(r, (None if case["a"] == NONE else case["a"], case["n"]))
                return {"rle": from_rle(r)}
            if op == "join":
                util.rle_join_modify(r, to_rle(case["rle2"]))
                return {"rle": from_rle(r)}
        except Exception as e:  # noqa: BLE001
            return {"err": errcode(e)}
        raise core.MachineryError("unknown rle op " + op)

    # ------------------------------------------------------------------ wire
    def encode(self, case):
        k = case["k"]
        if k == "text":
            text, B, mode = text_of(case)
            tl = [ord(c) for c in text] if mode == 0 else list(text)
            out = [1, mode, len(tl)] + tl
            for q in queries(case, text, B, mode):
                out += q
            return out
        if k == "widths":
            return [2, case["lo"], case["hi"]]
        if k == "ate":
            ud = 0 if MODES[case["enc"]] == 1 else 1
            if "b" in case:
                return [3, ud, 1, len(case["b"])] + list(case["b"])
            from urwid.display import escape        # constants only, for the codec table's key set
            import codecs
            try:
                codecs.lookup(case["enc"])
                target = case["enc"]
            except LookupError:
                target = "ascii"
            keys = sorted(set(case["s"]) | {14, 15} | set(range(0x5F, 0x7F)))
            out = [3, ud, 0, len(case["s"])] + list(case["s"])
            for c in keys:
                bs = chr(c).encode(target, "replace")
                out += [c, len(bs)] + list(bs)
            return out
        if k == "rle":
            op = case["op"]
            code = {"subseg": 1, "get_at": 2, "len": 3, "product": 4, "append": 5, "prepend": 6, "join": 7}[op]
            out = [4, code] + enc_rle(case["rle"])
            if op == "subseg":
                out += [case["start"], case["end"]]
            elif op == "get_at":
                out += [case["pos"]]
            elif op in ("product", "join"):
                out += enc_rle(case["rle2"])
            elif op in ("append", "prepend"):
                out += [case["a"], case["n"]]
            return out
        if k == "enc8":
            return [5] + list(case["s"])
        if k == "trimattr":
            text = "".join(chr(c) for c in case["s"]).encode(case["enc"], "replace")
            return [6, MODES[case["enc"]], case["sc"], case["ec"], len(text)] + list(text) + enc_rle(case["attr"]) + enc_rle(case["cs"])
        raise core.MachineryError("unknown case kind")

    def decode(self, case, ints):
        k = case["k"]
        it = iter(ints)
        try:
            if k == "text":
                if len(ints) % 5:
                    return {"malformed": ints[:40]}
                return {"r": [ints[i:i + 5] for i in range(0, len(ints), 5)]}
            if k == "widths":
                return {"w": list(ints)}
            if k == "ate":
                out = take_list(it)
                return {"out": out, "cs": take_rle(it)}
            if k == "rle":
                op = case["op"]
                if op in ("get_at", "len"):
                    return {"v": next(it)}
                if op == "product":
                    st = next(it)
                    if st != 0:
                        return {"err": st}
                    return {"rle": take_rle(it, 3)}
                return {"rle": take_rle(it)}
            if k == "enc8":
                st = next(it)
                if st != 0:
                    return {"err": st}
                b = take_list(it)
                return {"b": b, "offs": take_list(it)}
            if k == "trimattr":
                st = next(it)
                if st != 0:
                    return {"err": st}
                t = take_list(it)
                a = take_rle(it)
                return {"t": t, "a": a, "c": take_rle(it)}
        except StopIteration:
            return {"malformed": ints[:40]}
        raise core.MachineryError("unknown case kind")

    # ------------------------------------------------------------------ oracle (from the property statement)
    @staticmethod
    def ref_width(ch):
        """the Unicode width table: the wcwidth package, non-printing -> 0"""
        import wcwidth
        w = wcwidth.wcwidth(ch)
        return w if w >= 0 else 0

    def oracle(self, case, res):
        k = case["k"]
        if k == "text":
            return self.oracle_text(case, res)
        if k == "widths":
            msgs = []
            for c, w in zip(range(case["lo"], case["hi"]), res["w"]):
                r = self.ref_width(chr(c))
                if w != r or w not in (0, 1, 2):
                    msgs.append(f"get_char_width(U+{c:04X}) = {w}, the width table says {r}")
                    if len(msgs) > 3:
                        break
            return msgs
        if k == "ate":
            return self.oracle_ate(case, res)
        if k == "rle":
            return self.oracle_rle(case, res)
        if k == "trimattr":
            return self.oracle_trimattr(case, res)
        return []

    def char_widths(self, case):
        """reference width of every character of a text case, or None when the case is outside the property"""
        if case["mode"] == "str":
            return [self.ref_width(chr(c)) for c in case["s"]]
        if case["mode"] == "db":
            # a double-byte text as the encodings define it: single bytes < 0x80; lead 0x81..0xFE, trail 0x40..0x7E / 0x80..0xFE
            if MODES[case["enc"]] != 2:
                return None
            for c in case["chars"]:
                if not ((len(c) == 1 and 0 <= c[0] < 0x80) or
                        (len(c) == 2 and 0x81 <= c[0] <= 0xFE and (0x40 <= c[1] <= 0x7E or 0x80 <= c[1] <= 0xFE))):
                    return None
            return [len(c) for c in case["chars"]]
        if case["mode"] != "bytes":
            return None
        mode = MODES[case["enc"]]
        if mode == 1:
            if any(0xD800 <= c < 0xE000 for c in case["s"]):
                return None
            return [self.ref_width(chr(c)) for c in case["s"]]
        parts = chars_bytes(case)
        if mode == 2:
            # double-byte: one column per byte; only 1- and 2-byte characters are in scope
            for p in parts:
                if len(p) > 2 or (len(p) == 2 and (p[0] < 0x81 or p[1] < 0x40 or p[1] == 0x7F)) or (len(p) == 1 and p[0] >= 0x80):
                    return None
            return [len(p) for p in parts]
        if any(len(p) != 1 for p in parts):
            return None
        return [1] * len(parts)

    def oracle_never_raises(self, case, res):
        """UTF-8 bytes, valid or not: a width query with in-range offsets returns a value."""
        if case["mode"] == "str" or MODES[case["enc"]] != 1:
            return []
        text, B, mode = text_of(case)
        L = len(text)
        # calc_trim_text is not included: with an end offset inside a character the scan legitimately
        # overshoots it and the second search raises ValueError (start > end); outside the property
        names = {1: "calc_width", 2: "calc_text_pos", 5: "is_wide_char", 8: "decode_one"}
        for q, r in zip(queries(case, text, B, mode), res["r"]):
            f, a, b, c, d = q
            if not r[0]:
                continue
            if (f in (1, 2) and 0 <= a <= b <= L) or (f in (5, 8) and 0 <= a < L):
                return [f"{names[f]}{tuple(q[1:])} on the bytes {list(text)} raised error {r[0]}"]
        # a multi-byte character is a lead byte followed by continuation bytes: whatever decode_one consumes beyond the
        # first byte must be continuation bytes (it must not swallow an ASCII byte or the lead byte of the next character),
        # and a sequence longer than one byte starts with a lead byte
        for q, r in zip(queries(case, text, B, mode), res["r"]):
            f, a = q[0], q[1]
            if f != 8 or r[0] or not (0 <= a < L):
                continue
            n = r[2]
            if not (a + 1 <= n <= min(L, a + 4)):
                return [f"decode_one({a}) on the bytes {list(text)} returned next position {n}"]
            if n > a + 1 and text[a] < 0xC0:
                return [f"decode_one({a}) on the bytes {list(text)} consumed {n - a} bytes starting at a non-lead byte"]
            for t in range(a + 1, n):
                if not (0x80 <= text[t] < 0xC0):
                    return [f"decode_one({a}) on the bytes {list(text)} consumed byte {t} (0x{text[t]:02x}), which is not a continuation byte"]
        return []

    def oracle_text(self, case, res):
        nr = self.oracle_never_raises(case, res)
        if nr:
            return nr
        W = self.char_widths(case)
        if W is None:
            return []
        text, B, mode = text_of(case)
        qs = queries(case, text, B, mode)
        n = len(W)
        idx = {}
        for kk, o in enumerate(B):
            idx.setdefault(o, kk)          # zero-length characters cannot occur (every char encodes to >= 1 byte)
        if len(idx) != len(B):
            return []
        pre = [0]
        for w in W:
            pre.append(pre[-1] + w)
        L = len(text)
        msgs = []
        nxt = {}
        for q, r in zip(qs, res["r"]):
            f, a, b, c, d = q
            if f in (1, 2, 3, 4, 7):
                if not (a in idx and b in idx and 0 <= a <= b <= L):
                    continue
                i, j = idx[a], idx[b]
            st = r[0]
            if f == 1:
                if st:
                    msgs.append(f"calc_width({a},{b}) raised error {st}")
                elif r[1] != pre[j] - pre[i]:
                    msgs.append(f"calc_width({a},{b}) = {r[1]}, the characters are {pre[j] - pre[i]} columns wide")
            elif f == 2:
                if c < 0:
                    continue
                if st:
                    msgs.append(f"calc_text_pos({a},{b},{c}) raised error {st}")
                    continue
                p, sc = r[1], r[2]
                if p not in idx or not (a <= p <= b):
                    msgs.append(f"calc_text_pos({a},{b},{c}) = ({p},{sc}): offset {p} is not a character boundary in [{a},{b}]")
                    continue
                kp = idx[p]
                if sc != pre[kp] - pre[i]:
                    msgs.append(f"calc_text_pos({a},{b},{c}) = ({p},{sc}): the text before the offset is {pre[kp] - pre[i]} columns wide")
                elif sc > c:
                    msgs.append(f"calc_text_pos({a},{b},{c}) = ({p},{sc}): beyond the requested column")
                elif kp < j and sc + W[kp] <= c:
                    msgs.append(f"calc_text_pos({a},{b},{c}) = ({p},{sc}): the next character (width {W[kp]}) still fits")
            elif f == 3:
                if i == j:
                    continue
                if st:
                    msgs.append(f"move_next_char({a},{b}) raised error {st}")
                elif r[1] != B[i + 1]:
                    msgs.append(f"move_next_char({a},{b}) = {r[1]}, the next character starts at {B[i + 1]}")
                else:
                    nxt[(a, b)] = r[1]
            elif f == 4:
                if i == j:
                    continue
                if st:
                    msgs.append(f"move_prev_char({a},{b}) raised error {st}")
                elif r[1] != B[j - 1]:
                    msgs.append(f"move_prev_char({a},{b}) = {r[1]}, the previous character starts at {B[j - 1]}")
            elif f == 5:
                if a not in idx or not (0 <= a < L):
                    continue
                if st:
                    msgs.append(f"is_wide_char({a}) raised error {st}")
                elif bool(r[1]) != (W[idx[a]] == 2):
                    msgs.append(f"is_wide_char({a}) = {bool(r[1])}, the character is {W[idx[a]]} columns wide")
            elif f == 6:
                if mode != 2 or a not in idx or not (0 <= a <= b < L):
                    continue
                # which half of which character is byte b
                kb = max(kk for kk, o in enumerate(B) if o <= b)
                exp = 0 if W[kb] == 1 else (1 if b == B[kb] else 2)
                if st:
                    msgs.append(f"within_double_byte({a},{b}) raised error {st}")
                elif r[1] != exp:
                    msgs.append(f"within_double_byte({a},{b}) = {r[1]}, byte {b} is half {exp} of its character")
            elif f == 7:
                if not (0 <= c < d and d <= pre[j] - pre[i]):
                    continue
                if st:
                    msgs.append(f"calc_trim_text({a},{b},{c},{d}) raised error {st}")
                    continue
                sp, ep, pl, pr = r[1:5]
                tag = f"calc_trim_text({a},{b},{c},{d}) = ({sp},{ep},{pl},{pr})"
                if sp not in idx or ep not in idx or not (a <= sp <= ep <= b) or pl not in (0, 1) or pr not in (0, 1):
                    msgs.append(tag + ": not a slice on character boundaries with 0/1 padding flags")
                    continue
                ks, ke = idx[sp], idx[ep]
                total = pl + (pre[ke] - pre[ks]) + pr
                if total != d - c:
                    msgs.append(tag + f": total width {total}, requested {d - c}")
                    continue
                strad_l = any(pre[t] - pre[i] < c < pre[t + 1] - pre[i] for t in range(i, j))
                strad_r = any(pre[t] - pre[i] < d < pre[t + 1] - pre[i] for t in range(i, j))
                if bool(pl) != strad_l:
                    msgs.append(tag + f": pad_left={pl} but a double-width character {'straddles' if strad_l else 'does not straddle'} column {c}")
                elif bool(pr) != strad_r:
                    msgs.append(tag + f": pad_right={pr} but a double-width character {'straddles' if strad_r else 'does not straddle'} column {d}")
                elif pre[ks] - pre[i] != c + pl:
                    msgs.append(tag + f": the slice starts at column {pre[ks] - pre[i]}, expected {c + pl}")
            if len(msgs) >= 5:
                break
        # next then back returns to the start
        if not msgs:
            byq = {tuple(q): r for q, r in zip(qs, res["r"])}
            for (a, b), p in nxt.items():
                back = byq.get((4, a, p, 0, 0))
                if back is not None and (back[0] or back[1] != a):
                    msgs.append(f"move_prev_char({a},{p}) after move_next_char({a},{b}) = {p} gives {back[1]}, not {a}")
                    break
        return msgs

    def oracle_ate(self, case, res):
        if "err" in res:
            return []
        msgs = []
        total = sum(n for _a, n in res["cs"])
        if total != len(res["out"]):
            msgs.append(f"apply_target_encoding: run lengths sum to {total}, encoded length is {len(res['out'])}")
            return msgs
        if "b" in case or 14 in case["s"] or 15 in case["s"]:
            return msgs
        if any(n <= 0 for _a, n in res["cs"]):
            msgs.append(f"apply_target_encoding: charset run list {res['cs']} has an empty run")
            return msgs
        # each DEC character -> its alternate byte under a "0" run (not in utf-8 mode, where nothing is translated)
        dec = "▮◆▒␉␌␍␊°±␤␋┘┐┌└┼⎺⎻─⎼⎽├┤┴┬│≤≥π≠£·"
        alt = "_`abcdefghijklmnopqrstuvwxyz{|}~"
        use = MODES[case["enc"]] != 1
        exp_out, exp_cs = [], []
        for c in case["s"]:
            ch = chr(c)
            if use and ch in dec:
                exp_out.append(ord(alt[dec.index(ch)]))
                exp_cs.append(ord("0"))
            else:
                bs = ch.encode(case["enc"], "replace")
                exp_out += list(bs)
                exp_cs += [NONE] * len(bs)
        if res["out"] != exp_out:
            msgs.append(f"apply_target_encoding: bytes {res['out']}, expected {exp_out}")
        elif expand(res["cs"]) != exp_cs:
            msgs.append(f"apply_target_encoding: charset runs {res['cs']} do not mark exactly the DEC characters")
        return msgs

    def oracle_rle(self, case, res):
        if "err" in res:
            return ["rle %s raised error %s" % (case["op"], res["err"])] if self.rle_regular(case) else []
        if not self.rle_regular(case):
            return []
        op = case["op"]
        ex = expand(case["rle"])
        msgs = []
        if op == "subseg":
            s, e = case["start"], case["end"]
            if 0 <= s <= e <= len(ex) and expand(res["rle"]) != ex[s:e]:
                msgs.append(f"rle_subseg({case['rle']},{s},{e}) = {res['rle']} does not cover positions {s}..{e}")
        elif op == "len":
            if res["v"] != len(ex):
                msgs.append(f"rle_len = {res['v']}, the runs cover {len(ex)}")
        elif op == "get_at":
            p = case["pos"]
            exp = ex[p] if 0 <= p < len(ex) else NONE
            if res["v"] != exp:
                msgs.append(f"rle_get_at({p}) = {res['v']}, position holds {exp}")
        elif op == "product":
            ex2 = expand(case["rle2"])
            if len(ex) == len(ex2):
                got = []
                for a, b, n in res["rle"]:
                    got += [(a, b)] * n
                if got != list(zip(ex, ex2)):
                    msgs.append(f"rle_product({case['rle']},{case['rle2']}) = {res['rle']}")
        elif op in ("append", "prepend"):
            new = [case["a"]] * case["n"]
            exp = ex + new if op == "append" else new + ex
            if case["n"] > 0 and expand(res["rle"]) != exp:
                msgs.append(f"rle_{op}_modify: result {res['rle']} does not cover the joined runs")
        elif op == "join":
            if expand(res["rle"]) != ex + expand(case["rle2"]):
                msgs.append(f"rle_join_modify: result {res['rle']} does not cover the joined runs")
        return msgs

    @staticmethod
    def rle_regular(case):
        return all(n > 0 for _a, n in case["rle"]) and all(n > 0 for _a, n in case.get("rle2", []))

    def oracle_trimattr(self, case, res):
        if "err" in res:
            return []
        msgs = []
        la = sum(n for _a, n in res["a"])
        lc = sum(n for _a, n in res["c"])
        full = sum(n for _a, n in case["attr"])
        text = "".join(chr(c) for c in case["s"]).encode(case["enc"], "replace")
        if full == len(text) and sum(n for _a, n in case["cs"]) == len(text) and 0 <= case["sc"] < case["ec"]:
            if not (len(res["t"]) == la == lc):
                msgs.append(f"trim_text_attr_cs: text {len(res['t'])} bytes, attr runs {la}, cs runs {lc}")
        return msgs

    # ------------------------------------------------------------------ bookkeeping
    def nontrivial(self, case, res):
        k = case["k"]
        if k == "text":
            return bool(case.get("s") or case.get("b") or case.get("chars"))
        if k == "widths":
            return True
        if k == "ate":
            return bool(res.get("out"))
        if k == "rle":
            return bool(case["rle"])
        return bool(case.get("s"))

    def signature(self, case, msg):
        return case["k"] + ":" + case.get("mode", "") + ":" + re.sub(r"-?\d+", "N", msg)[:60]

    def distribution(self, case, res, dist):
        def inc(key, n=1):
            dist[key] = dist.get(key, 0) + n
        k = case["k"]
        inc("kind:" + k + (":" + case["mode"] if k == "text" else ""))
        if k == "text":
            inc("queries", len(res["r"]))
            inc("enc:" + case.get("enc", "str"))
            inc("len:%d" % min(len(case.get("s", case.get("b", case.get("chars", [])))), 9))
            inc("query_errors", sum(1 for r in res["r"] if r[0]))
            if case["mode"] != "str" and self.char_widths(case) is None:
                inc("text_cases_outside_oracle_domain")
            if case["mode"] == "raw" and MODES[case["enc"]] == 1:
                # observation: chr() ValueError for decode_one results above U+10FFFF
                text, B, mode = text_of(case)
                qs = queries(case, text, B, mode)
                inc("obs:ValueError_on_in_range_query_of_invalid_utf8",
                    sum(1 for q, r in zip(qs, res["r"]) if r[0] == 2 and q[0] in (1, 2, 5) and 0 <= q[1] and
                        (q[0] == 5 and q[1] < len(text) or q[0] != 5 and q[1] <= q[2] <= len(text))))
        elif k == "widths":
            inc("code_points", len(res["w"]))

    def shrink_candidates(self, case):
        for key in ("s", "b", "chars"):
            if key in case and case["k"] in ("text", "ate", "trimattr", "enc8"):
                l = case[key]
                for i in range(len(l)):
                    c = dict(case)
                    c[key] = l[:i] + l[i + 1:]
                    yield c
        if case["k"] == "text" and case.get("cols", 9) > 3:
            c = dict(case)
            c["cols"] = case.get("cols", 9) - 2
            yield c
        if case["k"] == "rle":
            l = case["rle"]
            for i in range(len(l)):
                c = dict(case)
                c["rle"] = l[:i] + l[i + 1:]
                yield c
        if case["k"] == "widths" and case["hi"] - case["lo"] > 1:
            mid = (case["lo"] + case["hi"]) // 2
            yield {"k": "widths", "lo": case["lo"], "hi": mid}
            yield {"k": "widths", "lo": mid, "hi": case["hi"]}

    # ------------------------------------------------------------------ generators
    POOL = ALPHA + GRAPHEME + [ord("z"), 0x3000, 0xFF21, 0x200B, 0x0300, 0x20DD, 0xAC00, 0x1F1E6, 0x7F, 0x09, 0xA9, 0x3042, 0x30A2,
                    0xFF71, 0x2502, 0x00B0, 0x00B1, 0x00A3, 0x00B7, 0x03C0, 0x2264, 0x25AE, 0x10000, 0x10FFFF, 0xFFFD, 0x0E01,
                    0x0E31, 0x05D0, 0x0627, 0x1100, 0x115F, 0x2028, 0xAD, 0x80, 0x7FF, 0x800, 0xFFFF]

    def text_cases(self, s, cols=9):
        yield {"k": "text", "mode": "str", "s": list(s), "cols": cols}
        for e in ENCS:
            yield {"k": "text", "mode": "bytes", "enc": e, "s": list(s), "cols": cols}

    def rand_rle(self, rng, regular=True):
        n = rng.choice([0, 1, 1, 2, 3, 4, 6])
        runs = [1, 1, 2, 3, 5] if regular else [0, 0, 1, 2, -1, 3]
        return [[rng.choice([NONE, 1, 2, 3]), rng.choice(runs)] for _ in range(n)]

    def rle_cases(self, rng, count):
        for t in range(count):
            regular = t % 5 != 4
            r = self.rand_rle(rng, regular)
            total = sum(max(n, 0) for _a, n in r)
            op = ["subseg", "subseg", "get_at", "len", "product", "append", "prepend", "join"][t % 8]
            c = {"k": "rle", "op": op, "rle": r}
            if op == "subseg":
                s = rng.randint(0, total + 1)
                c["start"], c["end"] = s, rng.randint(s, total + 2) if rng.random() < 0.9 else rng.randint(-1, total)
            elif op == "get_at":
                c["pos"] = rng.randint(-2, total + 2)
            elif op == "product":
                # same total, different cut points (the documented precondition), sometimes not
                r2 = []
                left = total if rng.random() < 0.85 else rng.randint(0, total + 3)
                while left > 0:
                    n = rng.randint(1, max(1, min(4, left)))
                    r2.append([rng.choice([NONE, 7, 8]), n])
                    left -= n
                c["rle2"] = r2
            elif op == "join":
                c["rle2"] = self.rand_rle(rng, regular)
            elif op in ("append", "prepend"):
                c["a"], c["n"] = rng.choice([NONE, 1, 2, 3]), rng.choice([1, 1, 2, 4, 0])
            yield c

    def ate_cases(self, rng, tier):
        dec = [ord(c) for c in "▮◆▒␉␌␍␊°±␤␋┘┐┌└┼⎺⎻─⎼⎽├┤┴┬│≤≥π≠£·"]
        encs = ["ascii", "utf-8", "euc-jp", "iso8859-1"]
        for e in encs:
            for d in dec:
                for s in ([d], [120, d, 121], [d, d], [d, 97, d], [0x4E16, d], [d, 0xE9, d, d]):
                    yield {"k": "ate", "enc": e, "s": s}
            for s in ([], [97], [14], [15], [14, 15], [15, 14], [14, 97, 15, 98], [97, 14], [14, 14, 97], [15, 97, 15],
                      [14, 97, 15, 15, 98, 14, 99], [0x2500, 15, 14, 0x2500], [15, 14], [14, 0x2500, 15]):
                yield {"k": "ate", "enc": e, "s": s}
                yield {"k": "ate", "enc": e, "b": [c for c in s if c < 256]}
        pool = dec + [97, 98, 32, 0x4E16, 0xE9, 0x0301, 0x1F600, 14, 15]
        for _ in range(300 if tier == "quick" else 3000):
            e = rng.choice(encs)
            n = rng.choice([1, 2, 3, 5, 8, 12])
            s = [rng.choice(pool) if rng.random() < 0.9 else rng.choice(dec) for _ in range(n)]
            yield {"k": "ate", "enc": e, "s": s}
            if rng.random() < 0.3:
                yield {"k": "ate", "enc": e, "b": [rng.choice([14, 15, 14, 15, 97, 98, 0xA4, 0x80]) for _ in range(n)]}

    def random_text(self, rng, n):
        return [rng.choice(self.POOL) if rng.random() < 0.85 else rng.choice(ALPHA) for _ in range(n)]

    def raw_cases(self, rng, count):
        # invalid / truncated UTF-8, EUC/Big5/GBK lead and trail bytes
        frag = [[0x61], [0x20], [0xE4, 0xB8, 0x96], [0xE4, 0xB8], [0xE4], [0x80], [0xBF], [0xC3, 0xA9], [0xC0, 0x80], [0xC1, 0xBF],
                [0xED, 0xA0, 0x80], [0xF0, 0x9F, 0x98, 0x80], [0xF0, 0x9F, 0x98], [0xF4, 0x90, 0x80, 0x80], [0xF7, 0xBF, 0xBF, 0xBF],
                [0xF8, 0x88, 0x80, 0x80], [0xFF], [0xE0, 0x80, 0x80], [0xF0, 0x80, 0x80, 0x80], [0xCC, 0x81],
                [0xA4, 0xA2], [0x81, 0x40], [0x81, 0x7E], [0x81, 0x7F], [0xA1], [0x40], [0x7E], [0x8E, 0xB1], [0x8F, 0xAB, 0xB1],
                [0xFE, 0xFE], [0x81, 0x81], [0x41]]
        for t in range(count):
            e = ["utf-8", "utf-8", "euc-jp", "big5", "iso8859-1"][t % 5]
            b = []
            for _ in range(rng.choice([1, 1, 2, 2, 3, 4])):
                b += rng.choice(frag)
            if rng.random() < 0.2:
                b = [rng.randrange(256) for _ in range(rng.choice([1, 2, 3, 5, 7]))]
            yield {"k": "text", "mode": "raw", "enc": e, "b": b[:10], "cols": 6}

    def trimattr_cases(self, rng, count):
        for _ in range(count):
            e = rng.choice(ENCS)
            s = [rng.choice(ALPHA) for _ in range(rng.choice([0, 1, 2, 3, 4, 6]))]
            L = len("".join(chr(c) for c in s).encode(e, "replace"))

            def cover(vals):
                out, left = [], L
                while left > 0:
                    n = rng.randint(1, min(3, left))
                    out.append([rng.choice(vals), n])
                    left -= n
                return out
            sc = rng.randint(0, 4)
            yield {"k": "trimattr", "enc": e, "s": s, "attr": cover([NONE, 1, 2]), "cs": cover([NONE, 48]),
                   "sc": sc, "ec": sc + rng.randint(0, 5)}

    def cases(self, rng, tier):
        quick = tier == "quick"
        # exhaustive strings over the 8-class alphabet
        nmax = 3 if quick else 4
        for n in range(0, nmax + 1):
            for tup in itertools.product(ALPHA, repeat=n):
                yield from self.text_cases(tup)
        # grapheme sequences (ZWJ, variation selectors, regional-indicator pairs, modifiers, keycap): as a str and
        # as utf-8 bytes, every string up to length 3 (quick: all pairs + every triple around a joiner/selector)
        for n in range(1, 4):
            for tup in itertools.product(GRAPHEME, repeat=n):
                if quick and n == 3 and tup[1] not in (0x200D, 0xFE0F, 0x1F3FB, 0x1F1FA):
                    continue
                yield {"k": "text", "mode": "str", "s": list(tup), "cols": 7}
                yield {"k": "text", "mode": "bytes", "enc": "utf-8", "s": list(tup), "cols": 7}
        # random longer strings (fewer columns of trimming to keep the tables small)
        for _ in range(60 if quick else 600):
            n = rng.choice([5, 6, 8, 12, 20] if quick else [5, 6, 8, 12, 20, 30])
            s = self.random_text(rng, n)
            cols = rng.choice([4, 6])
            if n > 8:
                # long text: only one random variant each
                yield rng.choice(list(self.text_cases(s, cols)))
            else:
                yield from self.text_cases(s, cols)
        # extra double-byte encodings on the alphabet (trail bytes below 0x80 exist in big5/gbk)
        for e in ("big5", "gbk", "euc-kr"):
            for n in range(0, 3):
                for tup in itertools.product([ord("a"), ord("@"), 0x4E16, 0x4E00, 0x2500, 0x3042, 0x4E02], repeat=n):   # U+4E02 = GBK 81 40
                    yield {"k": "text", "mode": "bytes", "enc": e, "s": list(tup), "cols": 5}
        # every code point individually
        step = 8192
        for lo in range(0, 0x110000, step):
            yield {"k": "widths", "lo": lo, "hi": lo + step}
        # well-formed double-byte texts given byte by byte: every boundary of the lead / trail ranges
        DB = [[0x41], [0x40], [0x7E], [0x81, 0x40], [0x81, 0x7E], [0x81, 0x80], [0xFE, 0xFE], [0xA4, 0xA2], [0xFE, 0x40], [0xFE, 0x7E]]
        for n in range(1, 3 if quick else 4):
            for tup in itertools.product(DB, repeat=n):
                yield {"k": "text", "mode": "db", "enc": "gbk", "chars": [list(c) for c in tup], "cols": 5}
        # malformed UTF-8 next to well-formed characters: every ordered pair (thorough: triple) of fragments
        FR = [[0x61], [0xE4, 0xB8, 0x96], [0xE4, 0xB8], [0xE4], [0x80], [0xC3, 0xA9], [0xC3], [0xF0, 0x9F, 0x98, 0x80],
              [0xF0, 0x9F, 0x98], [0xF0, 0x9F], [0xF0], [0xED, 0xA0, 0x80], [0xC0, 0x80], [0xFF]]
        for n in (2,) if quick else (2, 3):
            for tup in itertools.product(FR, repeat=n):
                b = [x for fr in tup for x in fr]
                if len(b) <= 9:
                    yield {"k": "text", "mode": "raw", "enc": "utf-8", "b": b, "cols": 4}
        yield from self.raw_cases(rng, 400 if quick else 4000)
        yield from self.ate_cases(rng, tier)
        yield from self.rle_cases(rng, 1500 if quick else 15000)
        yield from self.trimattr_cases(rng, 300 if quick else 3000)
        for _ in range(200 if quick else 2000):
            yield {"k": "enc8", "s": [rng.choice(self.POOL + [0xD800, 0xDFFF, 0x110000 - 1]) for _ in range(rng.choice([0, 1, 2, 3, 6]))]}
        for c in list(range(0, 0x110000, 997 if quick else 97)) + [0x7F, 0x80, 0x7FF, 0x800, 0xFFFF, 0x10000, 0x10FFFF, 0xD7FF, 0xE000]:
            if not (0xD800 <= c < 0xE000):
                yield {"k": "enc8", "s": [c]}

    def search_cases(self, rng, tier):
        for n in range(0, 5):
            for tup in itertools.product(ALPHA, repeat=n):
                yield from self.text_cases(tup)
        while True:
            yield from self.text_cases(self.random_text(rng, rng.choice([3, 5, 7])), 6)
            yield from self.raw_cases(rng, 5)

    # ------------------------------------------------------------------ whole-table checks
    def extra_checks(self, tier, rng, ev):
        """The generated files the proofs are about, against the running implementation."""
        out = []
        gen = os.path.join(core.TH, "Gen", "wcwidth_table_gen.v")
        try:
            text = open(gen).read()
        except OSError:
            return [({"k": "table"}, "Gen/wcwidth_table_gen.v is missing")]
        iv = [(int(a), int(b), int(w.strip("()"))) for a, b, w in re.findall(r"\((\d+), (\d+), (\(?-?\d+\)?)\)", text)]
        from urwid import str_util
        from urwid.display import escape
        pos = 0
        bad = 0
        for lo, hi, w in iv:
            if lo != pos:
                out.append(({"k": "table", "at": pos}, f"generated width table is not contiguous at {pos}"))
                break
            for c in range(lo, hi + 1):
                if str_util.get_char_width(chr(c)) != max(w, 0):
                    bad += 1
                    if bad <= 2:
                        out.append(({"k": "widths", "lo": c, "hi": c + 1},
                                    f"generated width table says {w} for U+{c:04X}, get_char_width says {str_util.get_char_width(chr(c))}"))
            pos = hi + 1
        if pos != 0x110000 and not out:
            out.append(({"k": "table", "at": pos}, "generated width table does not cover all code points"))
        ev["dist"]["table_intervals"] = len(iv)
        ev["dist"]["table_code_points_compared"] = pos
        # DEC tables of the generated file against the module's runtime values
        g = open(os.path.join(core.TH, "Gen", "str_util_gen.v")).read()

        def zl(name):
            m = re.search(r"Definition %s : list Z := \[([^\]]*)\]" % name, g)
            return [int(x) for x in m.group(1).split(";")] if m and m.group(1).strip() else []
        if zl("dec_special_chars") != [ord(c) for c in escape.DEC_SPECIAL_CHARS] or \
                zl("alt_dec_special_chars") != [ord(c) for c in escape.ALT_DEC_SPECIAL_CHARS]:
            out.append(({"k": "dec-table"}, "generated DEC tables differ from escape.DEC_SPECIAL_CHARS / ALT_DEC_SPECIAL_CHARS"))
        for c, alt in zip(escape.DEC_SPECIAL_CHARS, escape.ALT_DEC_SPECIAL_CHARS):
            if escape.DEC_SPECIAL_CHARMAP.get(ord(c)) != escape.SO + alt + escape.SI:
                out.append(({"k": "dec-table", "c": ord(c)}, f"DEC_SPECIAL_CHARMAP[{c!r}] is not SO + {alt!r} + SI"))
        return out


C11.level_text = (
    "Proved in Coq, for every text, offset range and column with no size bound, and for EVERY width function with "
    "wcwidth(c) <= 2 (the dumped table of the installed wcwidth is proved to satisfy this): "
    "str: calc_width additive and within 0..2 per character; calc_text_pos result is inside the range, its column is the width of "
    "the text before it, is not beyond the requested column, and is the FIRST position whose character does not fit; "
    "move_next/move_prev inverse; is_wide_char; calc_trim_text (translated from util.py every run): total width exactly the "
    "requested range, slice starts at the requested column, each pad flag <=> a character straddles that edge.  "
    "UTF-8 bytes: the translated decode_one arithmetic inverts the encoder for every code point in any context (symbolic proof), "
    "CPython's strict decoder accepts encoded text, and calc_width / calc_text_pos / calc_trim_text / is_wide_char / move_next / "
    "move_prev on the encoded text return the images of the str results under the boundary map (so results are character "
    "boundaries); trim_text_attr_cs returns text/attr/charset runs of one length.  "
    "Double-byte: for ARBITRARY bytes calc_text_pos never returns a second half and is at most one column short (then on a "
    "first half); on well-formed double-byte text (single bytes < 0x80, pairs lead 0x81-0xFF / trail 0x40-0x7E or 0x80-0xFF) "
    "within_double_byte is exact, move_next/move_prev are inverse, is_wide_char is exact and calc_trim_text returns exactly the "
    "requested width with each pad flag <=> that edge falls on a second half.  Single-byte: calc_text_pos and calc_trim_text "
    "closed forms.  rle_subseg / rle_len / append / prepend / join / rle_product length laws.  apply_target_encoding: charset "
    "run lengths sum to the encoded length for every input and codec; for every string without raw SO/SI and every codec that "
    "leaves ASCII alone, each DEC character maps to its alternate byte (translated tables) and exactly the DEC positions carry "
    "the '0' charset.  "
    "trim_text_attr_cs: for ARBITRARY text in every mode the trimmed text, attribute runs and charset runs have one length.  "
    "Arbitrary (invalid / truncated) input: decode_one yields a chr()-acceptable value for ANY bytes, so UTF-8 calc_width / "
    "calc_text_pos / is_wide_char never raise on in-range offsets; move_next_char (utf8) always terminates, advances and stays "
    "in range; move_prev_char (utf8) never loops, and stays in range when start_offs is on a boundary; the double-byte "
    "move_prev_char stays in range, move_next_char advances by 1 or 2.  REFUTED for malformed input (witnesses proved on the "
    "model and replayed on the implementation from corpus/C11): move_prev_char(b'\\x80a',0,1) = -1, "
    "move_prev_char(b'\\x80\\x80',0,2) raises IndexError (start not on a boundary), move_next_char(b'\\xa4',0,1) = 2 in "
    "double-byte mode (lone lead byte) - outside the property, which speaks of strings and their encoded forms.  "
    "By character index (Proofs/WidthInterface.v, the interface sibling properties import; stable names wi_<mode>_<fact>): on "
    "well-formed double-byte text within_double_byte is exactly 0/1/2 per the lead/trail structure from any earlier boundary, "
    "move_next_char/move_prev_char land on the neighbouring boundaries, calc_width is additive, calc_text_pos returns a "
    "boundary with width <= the requested column and maximal; the same for UTF-8 (boff) and closed forms for single-byte.  "
    "decode_one on ANY bytes consumes a lead byte plus continuation bytes only.  The dumped width table is sorted, disjoint, "
    "covers 0..0x10FFFF, and the model's width of every code point is the width of the one interval containing it.  "
    "TIE: get_char_width, decode_one's arithmetic, calc_trim_text, the DEC tables AND within_double_byte, "
    "calc_string_text_pos, calc_text_pos, move_next_char, move_prev_char, is_wide_char, the fallback loop of calc_width, "
    "rle_get_at, rle_len, rle_subseg are re-translated from the source on every run (py2v); the extracted model runs the "
    "translated functions and Coq proves them equal to the hand-written specifications for all inputs (GenEq.v).  Hand-written "
    "and tied by correspondence only: decode_one's byte fetch, calc_width's dispatch and CPython's strict decoder, "
    "rle_append/prepend/join_modify and rle_product (in-place list mutation), apply_target_encoding (str methods), "
    "trim_text_attr_cs's wiring.  Nothing is proved about Python's own CJK codecs."
)
C11.level_note = (
    "Trusted: Coq kernel, py2v (+ the subclasses in mods/str_util.py), the wcwidth dump, extraction + OCaml driver, the hand-written "
    "loops of Model/Width.v and Base/Utf8.v (validated by the exact extracted-model correspondence on every query, incl. "
    "mid-character and out-of-range offsets and invalid UTF-8), the Python oracle, the wcwidth package as 'the Unicode width table'.  "
    "Python's CJK codecs are not modelled."
)

CHECK = C11
