"""C16 - focus-tracking lists (MonitoredFocusList)."""
import itertools
import warnings

from harness import core

warnings.simplefilter("ignore")

OPC = {"delitem": 1, "setitem": 2, "delslice": 3, "setslice": 4, "insert": 5, "append": 6, "extend": 7,
       "pop": 8, "remove": 9, "reverse": 10, "sort": 11, "iadd": 12, "imul": 13, "clear": 14, "setfocus": 15}
ERR = {None: 0, "IndexError": 1, "ValueError": 2, "TypeError": 3}
ERRN = {v: k for k, v in ERR.items()}


class Obj:
    __slots__ = ("n",)

    def __init__(self, n):
        self.n = n

    def __lt__(self, o):
        return self.n < o.n

    def __repr__(self):
        return f"o{self.n}"


class Item(tuple):
    """(widget, options) tuple of a container's contents list, carrying its identity number."""
    n = -1


CONTAINERS = ("pile", "columns", "gridflow")


def make_container(kind):
    import urwid
    if kind == "pile":
        return urwid.Pile([])
    if kind == "columns":
        return urwid.Columns([])
    return urwid.GridFlow([], 4, 1, 0, "left")


def container_item(c, n):
    import urwid
    it = Item((urwid.Text(str(n)), c.options()))
    it.n = n
    return it


class objs_proxy(dict):
    """dict for apply_op that creates container items on demand."""

    def __init__(self, objs, make):
        super().__init__(objs)
        self._objs, self._make = objs, make

    def __contains__(self, k):
        return True

    def __getitem__(self, k):
        return self._make(k)


def oz(v):
    return [0] if v is None else [1, v]


def apply_op(l, op, objs):
    """Apply op to list-like l.  objs maps id -> Obj (shared between reference and subject)."""
    def ob(i):
        if i not in objs:
            objs[i] = Obj(i)
        return objs[i]
    k = op[0]
    if k == "delitem":
        del l[op[1]]
    elif k == "setitem":
        l[op[1]] = ob(op[2])
    elif k == "delslice":
        del l[slice(op[1], op[2], op[3])]
    elif k == "setslice":
        l[slice(op[1], op[2], op[3])] = [ob(i) for i in op[4]]
    elif k == "insert":
        l.insert(op[1], ob(op[2]))
    elif k == "append":
        l.append(ob(op[1]))
    elif k == "extend":
        l.extend([ob(i) for i in op[1]])
    elif k == "pop":
        l.pop(op[1])
    elif k == "remove":
        l.remove(ob(op[1]))
    elif k == "reverse":
        l.reverse()
    elif k == "sort":
        l.sort(reverse=bool(op[1]))
    elif k == "iadd":
        l += [ob(i) for i in op[1]]
    elif k == "imul":
        l *= op[1]
    elif k == "clear":
        l.clear()
    elif k == "setfocus":
        l.focus = op[1]
    else:
        raise core.MachineryError("unknown op " + k)
    return l


class C16(core.Check):
    pid = "C16"
    gen_modules = ["monitored_list"]
    model_targets = ["theories/Model/MonitoredList.vo"]
    prop_file = "theories/Properties/C16.v"
    extract_v = "Extract/C16X.v"
    allowed_axioms = set()
    design_ref = "DESIGN.md section 5, C16"
    technique = ("Coq theorems (induction over operation histories, lia/nia arithmetic) about a model whose focus "
                 "arithmetic is re-translated from monitored_list.py on every run; extracted-model correspondence; "
                 "built-in-list oracle")
    level_text = ("Proved in Coq for every operation, index, slice, step and history, with no size bound: contents and error "
                  "kinds equal those of a Python list model and a failed call changes nothing and fires no callback; the focus is "
                  "None iff empty and otherwise in range after any operation sequence; after ANY operation sequence the contents equal "
                  "those of a built-in-list model driven by the same calls and the i-th reported error is that list's i-th error "
                  "(whole-history refinement), with modified fired at most once per call; the modified / focus-changed callback "
                  "clauses; the focus follows its item (positional form: the item at the old focus is at the new focus, the same "
                  "position when replaced in place, else the next kept item, else the last) for every successful operation: "
                  "contiguous ones (index and step-1 slice assignment/deletion, insert, append, extend, pop, remove, +=, *=, "
                  "clear), deletions with any other step, extended-slice assignment, reverse and sort, with a theorem that these "
                  "families are exhaustive.  The focus arithmetic the theorems speak about is regenerated from the source each "
                  "run (py2v); the wiring of each method around it is a hand model tied by an exact extracted-model "
                  "correspondence (127k cases per quick run: the bare list, SimpleFocusListWalker, and the contents lists of "
                  "Pile, Columns and GridFlow including their property-setter forms; MonitoredList as the same list without "
                  "a focus) and an independent built-in-list oracle; SimpleListWalker is judged by the oracle only.")
    level_note = ("Trusted: Coq kernel, py2v translator, ExtrOcamlBasic extraction + OCaml driver, the hand-written method wiring "
                  "and PyList.v list semantics (validated against the implementation and the built-in list, not proved against "
                  "CPython), the Python oracle.  Assumes a valid initial state, identity-compared items, no key= callables.")
    rule = ("cases = (initial ids, focus, op list) over every public mutator of MonitoredFocusList; exhaustive single "
            "operations on lists <= N with every index/slice/step and every focus, plus random sequences; "
            "non-trivial = the call sequence changed the list or raised; distinct by hash of (case, outcome)")
    trusted_base = [
        "Coq 8.16.1 kernel (coqc; vm_compute used only for closed examples)",
        "tools/py2v translator (adjust_focus_gen regenerated from monitored_list.py every run)",
        "extraction: ExtrOcamlBasic only (bool, option, list, prod, unit, sumbool); Z/positive stay Coq datatypes; OCaml 4.13.1",
        "tools/driver/driver.ml (int <-> Z conversion, line I/O)",
        "hand-written wiring of each overridden method in Model/MonitoredList.v (validated by this correspondence, not proved against Python)",
        "Base/PyList.v list semantics (validated against the built-in list through the implementation)",
        "Python oracle in harness/props/c16.py",
    ]
    assumptions = [
        "initial state is valid (MonitoredFocusList(items, focus) with focus in range, or empty with the default focus 0)",
        "items are compared by identity; sort keys are distinct unless the same object occurs twice",
        "sort(key=...) with arbitrary callables and the validate_contents_modified hook are not modelled",
        "a None<->index focus transition is not counted as a focus-index change for the callback clause",
    ]

    # ---------- implementation ----------
    def run_impl(self, case):
        import urwid
        from urwid.widget.monitored_list import MonitoredFocusList, MonitoredList
        kind = case.get("kind", "mfl")
        objs = {}
        base = []
        for i in case["items"]:
            objs.setdefault(i, Obj(i))
            base.append(objs[i])
        events = []
        if kind == "mfl":
            ml = MonitoredFocusList(list(base), focus=case["focus"])
            ml.set_modified_callback(lambda: events.append([0]))
            ml.set_focus_changed_callback(lambda n: events.append([1, n]))
        elif kind == "sflw":
            ml = urwid.SimpleFocusListWalker(list(base))
            if base:
                ml.focus = case["focus"]
            urwid.connect_signal(ml, "modified", lambda: events.append([0]))
            ml.set_focus_changed_callback(lambda n: events.append([1, n]))
        elif kind == "ml":
            ml = MonitoredList(list(base))
            ml.set_modified_callback(lambda: events.append([0]))
        elif kind == "slw":
            ml = urwid.SimpleListWalker(list(base))
            if base:
                ml.set_focus(case["focus"])
            urwid.connect_signal(ml, "modified", lambda: events.append([0]))
        elif kind in CONTAINERS:
            return self.run_container(case, kind)
        else:
            raise core.MachineryError("unknown subject kind " + kind)
        outs = []

        def fo():
            if kind in ("mfl", "sflw"):
                return ml.focus
            if kind == "slw":       # a plain int attribute, clamped by the walker: report it when the list is not empty
                return ml.focus if len(ml) else None
            return None
        for op in case["ops"]:
            del events[:]
            err = None
            try:
                ml = apply_op(ml, op, objs)
            except (IndexError, ValueError, TypeError) as e:
                err = type(e).__name__
            outs.append([err, [list(e) for e in events], fo()])
        return {"outs": outs, "items": [o.n for o in ml], "focus": fo()}

    def run_container(self, case, kind):
        """Pile / Columns / GridFlow: the same operations on .contents, plus the property-setter forms."""
        c = make_container(kind)
        objs = {}

        def ob(i):
            if i not in objs:
                objs[i] = container_item(c, i)
            return objs[i]
        c.contents[:] = [ob(i) for i in case["items"]]
        if case["items"]:
            c.focus_position = case["focus"]

        def fo():
            try:
                return c.focus_position
            except IndexError:
                return None
        outs = []
        for op in case["ops"]:
            err = None
            try:
                k = op[0]
                if k == "assign":
                    c.contents = [ob(i) for i in op[1]]
                elif k == "iadd_prop":
                    c.contents += [ob(i) for i in op[1]]
                elif k == "imul_prop":
                    c.contents *= op[1]
                elif k == "setfocus":
                    c.focus_position = op[1]
                else:
                    apply_op(c.contents, op, objs_proxy(objs, ob))
            except (IndexError, ValueError, TypeError) as e:
                err = type(e).__name__
            except Exception as e:            # PileError, ColumnsError, GridFlowError ...
                err = "Other:" + type(e).__name__
            outs.append([err, [], fo()])
        return {"outs": outs, "items": [getattr(o, "n", -1) for o in c.contents], "focus": fo()}

    # ---------- model wire format ----------
    @staticmethod
    def container_model_ops(case):
        """A container case as MonitoredFocusList operations on the item ids: the contents list of Pile / Columns /
        GridFlow *is* a MonitoredFocusList, and the property-setter forms (c.contents = x, c.contents += x,
        c.contents *= k) are the list operation followed by a slice assignment of the whole list.  Returns
        (model ops, how many model ops each case op became), or None when the case uses behaviour of the container
        itself rather than of its list (focus_position on an empty container, sort of widget tuples)."""
        cur = list(case["items"])
        ids = objs_proxy({}, lambda i: i)
        ops, spans = [], []
        for op in case["ops"]:
            k = op[0]
            if k == "sort" or (k == "setfocus" and not cur):
                return None
            if k == "assign":
                new = [["setslice", None, None, None, list(op[1])]]
            elif k == "iadd_prop":
                new = [["iadd", list(op[1])], ["setslice", None, None, None, cur + list(op[1])]]
            elif k == "imul_prop":
                new = [["imul", op[1]], ["setslice", None, None, None, cur * op[1]]]
            else:
                new = [op]
            for o in new:
                if o[0] == "setfocus":
                    continue
                before = list(cur)
                try:
                    cur = apply_op(cur, o, ids)
                except (IndexError, ValueError, TypeError):
                    cur = before
            ops += new
            spans.append(len(new))
        return ops, spans

    def encode(self, case):
        kind = case.get("kind", "mfl")
        ops = case["ops"]
        if kind in CONTAINERS:
            m = self.container_model_ops(case)
            if m is None:
                return None
            ops = m[0]
        elif kind == "slw":
            return None          # SimpleListWalker keeps a plain clamped index: judged by the oracle only
        elif kind == "ml":
            # MonitoredList = the modelled list without its focus; the one place where MonitoredFocusList's own wiring
            # differs observably is sort() of an empty list (early return, no modified callback): not comparable
            cur = list(case["items"])
            ids = objs_proxy({}, lambda i: i)
            for o in ops:
                if o[0] == "setfocus" or (o[0] == "sort" and not cur):
                    return None
                before = list(cur)
                try:
                    cur = apply_op(cur, o, ids)
                except (IndexError, ValueError, TypeError):
                    cur = before
        l = [len(case["items"])] + list(case["items"]) + [case["focus"]]
        for op in ops:
            k = op[0]
            l.append(OPC[k])
            if k in ("delitem", "pop", "imul", "setfocus", "append", "remove"):
                l.append(op[1])
            elif k in ("setitem", "insert"):
                l += [op[1], op[2]]
            elif k == "delslice":
                l += oz(op[1]) + oz(op[2]) + oz(op[3])
            elif k == "setslice":
                l += oz(op[1]) + oz(op[2]) + oz(op[3]) + [len(op[4])] + list(op[4])
            elif k in ("extend", "iadd"):
                l += [len(op[1])] + list(op[1])
            elif k == "sort":
                l.append(1 if op[1] else 0)
        return l

    def decode(self, case, ints):
        it = iter(ints)
        outs = []
        cont = case.get("kind", "mfl") in CONTAINERS
        plain = case.get("kind", "mfl") == "ml"
        spans = self.container_model_ops(case)[1] if cont else [1] * len(case["ops"])
        try:
            for span in spans:
                sub = []
                for _ in range(span):
                    err = ERRN.get(next(it), "?")
                    nev = next(it)
                    evs = []
                    for _ in range(nev):
                        t = next(it)
                        evs.append([0] if t == 0 else [1, next(it)])
                    f = next(it)
                    sub.append([err, evs, None if f == 0 else next(it)])
                if cont:     # callbacks of a container's list are its own business: only outcome and focus are compared
                    outs.append([next((o[0] for o in sub if o[0]), None), [], sub[-1][2]])
                elif plain:  # MonitoredList = the same list without a focus: outcome and modified callbacks are compared
                    outs.append([sub[0][0], [e for e in sub[0][1] if e[0] == 0], None])
                else:
                    outs.append(sub[0])
            n = next(it)
            items = [next(it) for _ in range(n)]
            f = next(it)
            focus = None if f == 0 or plain else next(it)
        except StopIteration:
            return {"malformed": ints[:50]}
        return {"outs": outs, "items": items, "focus": focus}

    # ---------- oracle: a built-in list plus an identity-tracked focus ----------
    def oracle(self, case, res):
        msgs = []
        objs = {}
        ref = []
        for i in case["items"]:
            objs.setdefault(i, Obj(i))
            ref.append(objs[i])
        n0 = len(ref)
        kind = case.get("kind", "mfl")
        plain = kind in ("ml", "slw")
        cont = kind in CONTAINERS
        focus = case["focus"] if n0 else None      # expected observable focus index
        for k, op in enumerate(case["ops"]):
            before = list(ref)
            err = None
            if op[0] in ("assign", "iadd_prop", "imul_prop"):
                op = {"assign": ["setslice", None, None, None, op[1]], "iadd_prop": ["iadd", op[1]], "imul_prop": ["imul", op[1]]}[op[0]]
            if op[0] == "setfocus":
                if (ref or cont) and not (0 <= op[1] < len(ref)):
                    err = "IndexError"       # containers reject any position when empty; the bare list ignores it
            else:
                try:
                    ref = apply_op(ref, op, objs)
                except (IndexError, ValueError, TypeError) as e:
                    err = type(e).__name__
                    ref = before
            got_err, evs, got_focus = res["outs"][k]
            tag = f"op#{k} {op[0]}"
            if got_err != err:
                msgs.append(f"{tag}: raised {got_err}, a built-in list raises {err}")
                # resynchronise on what the subject now holds is impossible without it; stop here
                return msgs
            nmod = sum(1 for e in evs if e[0] == 0)
            fch = [e[1] for e in evs if e[0] == 1]
            if err is not None:
                if nmod:
                    msgs.append(f"{tag}: modified callback fired for a failed call")
                if fch:
                    msgs.append(f"{tag}: focus-changed callback fired for a failed call")
                continue
            changed = [o.n for o in before] != [o.n for o in ref] and not cont
            if nmod > 1:
                msgs.append(f"{tag}: modified callback fired {nmod} times")
            if changed and nmod != 1:
                msgs.append(f"{tag}: contents changed but modified callback fired {nmod} times")
            if cont and (nmod or fch):
                pass
            if plain:
                if kind == "slw" and ref and not (got_focus is not None and 0 <= got_focus < len(ref)):
                    msgs.append(f"{tag}: list walker focus {got_focus} out of range for length {len(ref)}")
                    return msgs
                continue
            # expected focus
            old_focus = focus
            exp = self.expected_focus(op, before, ref, old_focus)
            if exp == "skip":
                return msgs    # ambiguous (duplicated objects): stop judging focus for this case
            if (got_focus is None) != (len(ref) == 0):
                msgs.append(f"{tag}: focus is {got_focus} on a list of length {len(ref)}")
                return msgs
            if ref and not (0 <= got_focus < len(ref)):
                msgs.append(f"{tag}: focus {got_focus} out of range for length {len(ref)}")
                return msgs
            if exp == "any":
                exp = got_focus
            elif exp != got_focus:
                msgs.append(f"{tag}: focus is {got_focus}, expected {exp} (item tracking)")
                return msgs
            focus = exp
            if old_focus is not None and focus is not None and not cont:
                if old_focus != focus and fch != [focus]:
                    msgs.append(f"{tag}: focus index changed {old_focus}->{focus} but focus-changed events were {fch}")
                if old_focus == focus and fch:
                    msgs.append(f"{tag}: focus index unchanged ({focus}) but focus-changed fired {fch}")
        if [o.n for o in ref] != res["items"]:
            msgs.append(f"final contents {res['items']} differ from a built-in list {[o.n for o in ref]}")
        if plain:
            return msgs
        if (res["focus"] is None) != (len(ref) == 0):
            msgs.append(f"focus is {res['focus']} on a list of length {len(ref)}")
        elif ref and not (0 <= res["focus"] < len(ref)):
            msgs.append(f"focus {res['focus']} out of range for length {len(ref)}")
        return msgs

    @staticmethod
    def expected_focus(op, before, after, old_focus):
        """Focus index the property demands after a successful op (None = empty)."""
        if not after:
            return None
        k = op[0]
        if k == "setfocus":
            return op[1]
        if old_focus is None:        # list was empty: nothing to track, any valid index will do
            return "any"
        ids_b = [id(o) for o in before]
        ids_a = [id(o) for o in after]
        if len(set(ids_b)) != len(ids_b) or len(set(ids_a)) != len(ids_a):
            return "skip"
        item = before[old_focus]
        n = len(before)
        removed = set()
        inplace = set()
        if k in ("delitem", "pop"):
            removed = {op[1] % n} if n else set()
        elif k == "remove":
            removed = {next(i for i, o in enumerate(before) if o.n == op[1])}
        elif k == "delslice":
            removed = set(range(*slice(op[1], op[2], op[3]).indices(n)))
        elif k == "setitem":
            inplace = {op[1] % n}
        elif k == "setslice":
            s, e, t = slice(op[1], op[2], op[3]).indices(n)
            if t == 1:
                e = max(s, e)
                m = len(op[4])
                inplace = set(range(s, min(e, s + m)))
                removed = set(range(s + m, e))
            else:
                inplace = set(range(s, e, t))
        elif k == "imul" and op[1] <= 0:
            removed = set(range(n))
        elif k == "clear":
            removed = set(range(n))
        if old_focus in inplace:
            return old_focus
        if old_focus in removed:
            j = old_focus + 1
            while j < n and j in removed:
                j += 1
            if j < n and id(before[j]) in ids_a:
                return ids_a.index(id(before[j]))
            return len(after) - 1
        if id(item) in ids_a:
            return ids_a.index(id(item))
        return "skip"

    def nontrivial(self, case, res):
        return res["items"] != case["items"] or any(o[0] for o in res["outs"])

    def signature(self, case, msg):
        import re
        return re.sub(r"\d+", "N", msg)

    def distribution(self, case, res, dist):
        for op, (err, _, _) in zip(case["ops"], res["outs"]):
            dist["op:" + op[0]] = dist.get("op:" + op[0], 0) + 1
            dist["err:" + str(err)] = dist.get("err:" + str(err), 0) + 1
        dist["kind:" + case.get("kind", "mfl")] = dist.get("kind:" + case.get("kind", "mfl"), 0) + 1
        k = "len:%d" % min(len(case["items"]), 9)
        dist[k] = dist.get(k, 0) + 1

    # ---------- generators ----------
    IDX = [None, -7, -3, -2, -1, 0, 1, 2, 3, 4, 7]
    STEPS = [None, 1, 2, 3, -1, -2, -3, 0]

    def single_ops(self, n, fresh):
        ops = []
        for i in range(-n - 2, n + 3):
            ops += [["delitem", i], ["setitem", i, fresh], ["insert", i, fresh], ["pop", i], ["setfocus", i]]
        for a in self.IDX:
            for b in self.IDX:
                for st in self.STEPS:
                    ops.append(["delslice", a, b, st])
                    for k in (0, 1, 2):
                        ops.append(["setslice", a, b, st, [fresh + j for j in range(k)]])
        ops += [["append", fresh], ["extend", [fresh, fresh + 1]], ["extend", []], ["reverse"], ["sort", 0], ["sort", 1],
                ["clear"], ["iadd", [fresh, fresh + 1]], ["iadd", []], ["imul", 0], ["imul", 1], ["imul", 2], ["imul", -1],
                ["remove", 0], ["remove", n - 1], ["remove", 99]]
        return ops

    def cases(self, rng, tier):
        nmax = 4 if tier == "quick" else 5
        # scrambled ids so that sort moves things
        for n in range(0, nmax + 1):
            ids = list(range(n))
            perm = ids[::2][::-1] + ids[1::2] if n > 2 else ids
            for f in (range(n) if n else [0]):
                for op in self.single_ops(n, 100):
                    if op[0] in ("sort", "remove", "reverse"):
                        yield {"items": perm, "focus": f, "ops": [op]}
                    else:
                        yield {"items": ids, "focus": f, "ops": [op]}
        nrand = 4000 if tier == "quick" else 40000
        for _ in range(nrand):
            yield self.random_case(rng, rng.choice([2, 3, 5, 8, 15, 30]))
        # container contents (Pile / Columns / GridFlow): list operations and the property-setter forms
        for kind in CONTAINERS:
            for n in (0, 1, 3):
                for f in (range(n) if n else [0]):
                    for op in self.single_ops(n, 100):
                        if op[0] == "sort":
                            continue
                        yield {"kind": kind, "items": list(range(n)), "focus": f, "ops": [op]}
                    for op in (["assign", [100, 101]], ["assign", []], ["assign", list(range(n))], ["iadd_prop", [100]],
                               ["iadd_prop", []], ["imul_prop", 2], ["imul_prop", 0], ["imul_prop", 1]):
                        yield {"kind": kind, "items": list(range(n)), "focus": f, "ops": [op]}
            for _ in range(nrand // 16):
                c = self.random_case(rng, rng.choice([2, 4, 8]))
                c["kind"] = kind
                c["ops"] = [o for o in c["ops"] if o[0] != "sort"]
                for i, o in enumerate(c["ops"]):
                    if o[0] == "extend" and rng.random() < 0.5:
                        c["ops"][i] = ["iadd_prop", o[1]]
                    elif o[0] == "imul" and rng.random() < 0.5:
                        c["ops"][i] = ["imul_prop", o[1]]
                    elif o[0] == "clear" and rng.random() < 0.5:
                        c["ops"][i] = ["assign", [2000 + i, 2001 + i]]
                yield c
        # the same operations through the list walkers and the plain monitored list
        for kind in ("sflw", "ml", "slw"):
            for n in (0, 1, 3):
                for f in (range(n) if n else [0]):
                    for op in self.single_ops(n, 100):
                        if kind in ("ml", "slw") and op[0] == "setfocus":
                            continue
                        yield {"kind": kind, "items": list(range(n)), "focus": f, "ops": [op]}
                    if kind == "ml":
                        break
            for _ in range(nrand // 8):
                c = self.random_case(rng, rng.choice([2, 4, 8]))
                c["kind"] = kind
                if kind in ("ml", "slw"):
                    c["ops"] = [o for o in c["ops"] if o[0] != "setfocus"]
                yield c
        if tier == "thorough":
            # every pair of operations on lists of 3 with a reduced index alphabet
            saved = (self.IDX, self.STEPS)
            self.IDX, self.STEPS = [None, -2, 0, 1, 3], [None, 2, -1]
            try:
                ops3 = self.single_ops(3, 100)
                for f in range(3):
                    for o1 in ops3:
                        for o2 in self.single_ops(3, 200):
                            yield {"items": [0, 1, 2], "focus": f, "ops": [o1, o2]}
            finally:
                self.IDX, self.STEPS = saved

    def random_case(self, rng, nops):
        n = rng.choice([0, 1, 2, 3, 4, 6, 9])
        items = list(range(n))
        rng.shuffle(items)
        fresh = [1000]

        def fr():
            fresh[0] += 1
            return fresh[0]

        def idx():
            return rng.choice([None, None, -9, -3, -2, -1, 0, 0, 1, 1, 2, 3, 4, 5, 6, 9, 12])

        def iidx():
            return rng.choice([-9, -3, -2, -1, 0, 0, 1, 1, 2, 3, 4, 5, 6, 9])
        ops = []
        for _ in range(nops):
            k = rng.choice(["delitem", "setitem", "delslice", "delslice", "setslice", "setslice", "setslice", "insert", "append",
                            "extend", "pop", "remove", "reverse", "sort", "iadd", "imul", "clear", "setfocus", "insert", "append"])
            if k in ("delitem", "pop", "setfocus"):
                ops.append([k, iidx()])
            elif k in ("setitem", "insert"):
                ops.append([k, iidx(), fr()])
            elif k == "delslice":
                ops.append([k, idx(), idx(), rng.choice([None, None, 1, 2, 3, -1, -2, 0])])
            elif k == "setslice":
                st = rng.choice([None, None, None, 1, 2, -1, -2, 3])
                ops.append([k, idx(), idx(), st, [fr() for _ in range(rng.choice([0, 1, 1, 2, 3]))]])
            elif k == "append":
                ops.append([k, fr()])
            elif k in ("extend", "iadd"):
                ops.append([k, [fr() for _ in range(rng.choice([0, 1, 2, 3]))]])
            elif k == "remove":
                ops.append([k, rng.choice(list(range(0, 9)) + list(range(1001, 1006)))])
            elif k == "sort":
                ops.append([k, rng.choice([0, 1])])
            elif k == "imul":
                ops.append([k, rng.choice([-1, 0, 1, 1, 2])])
            else:
                ops.append([k])
        return {"items": items, "focus": rng.randrange(n) if n else 0, "ops": ops}

    def search_cases(self, rng, tier):
        for n in range(0, 7):
            for f in (range(n) if n else [0]):
                for op in self.single_ops(n, 100):
                    yield {"items": list(range(n)), "focus": f, "ops": [op]}
        while True:
            yield self.random_case(rng, rng.choice([2, 3, 4, 6]))

    def shrink_candidates(self, case):
        ops = case["ops"]
        for i in range(len(ops)):
            yield {"kind": case.get("kind", "mfl"), "items": case["items"], "focus": case["focus"], "ops": ops[:i] + ops[i + 1:]}
        n = len(case["items"])
        if n:
            for i in range(n):
                its = case["items"][:i] + case["items"][i + 1:]
                f = min(case["focus"], max(0, len(its) - 1))
                yield {"kind": case.get("kind", "mfl"), "items": its, "focus": f, "ops": ops}


CHECK = C16
