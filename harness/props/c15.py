"""C15 - the terminal emulator (urwid/vterm.py: TermCanvas) survives any output and tracks a VT100.

Cases
  kind "vt"  : {"enc": 0|1|2, "w", "h", "ops": [["feed", [bytes]], ["resize", w, h], ["scroll", up, lines|None],
                ["sreset"], ["focus", 0|1]]}            any byte streams, resizes, view scrolling, focus changes
  kind "ref" : {"w", "h", "cmds": [["ch", 97], ["cup", r, c], ...]}   commands of the VT100 subset of the property
The implementation result and the extracted Coq model (Model/VTerm.v) are compared exactly (whole state).
The oracle is written from the property text: no exception, exact dimensions, cursor / scrolling region
inside, well-formed replies, scroll-back view and order, chunking irrelevance (on the implementation
itself) and equality with a reference VT100 (RefVT below, written from VT100 semantics; the extracted
Model/VT100Ref.v is run on the same commands and must agree with RefVT).
"""
import re
import signal
import warnings

from harness import core

warnings.simplefilter("ignore")

ENCODINGS = {0: "utf8", 1: "utf-8", 2: "ascii"}
LEDS = {"clear": 0, "scroll_lock": 1, "num_lock": 2, "caps_lock": 3}
ERRN = {1: "IndexError", 2: "ValueError", 3: "TypeError", 7: "AttrSpecError", 8: "KeyError", 9: "RuntimeError",
        10: "OtherError"}
CASE_TIMEOUT = 5        # seconds per implementation run (a hosted program's stream must not hang the check)
REPLY_RE = re.compile(r"^\x1b\[(0n|\?6c|[1-9][0-9]*;[1-9][0-9]*R)$")


class CaseTimeout(Exception):
    pass


def _alarm(signum, frame):
    raise CaseTimeout()


class DummyWidget:
    """What TermCanvas needs from the Terminal widget (term_modes, respond, set_title, beep, leds)."""

    def __init__(self, vterm):
        self.term_modes = vterm.TermModes()
        self.events = []

    def set_title(self, title):
        self.events.append(["title", title])

    def respond(self, s):
        self.events.append(["respond", s])

    def beep(self):
        self.events.append(["beep"])

    def leds(self, which):
        self.events.append(["leds", LEDS.get(which, -1)])


# ----------------------------------------------------------------------------------------------
# reference VT100 for the subset of the property (from the VT100 / VT102 user guides and ECMA-48)
# ----------------------------------------------------------------------------------------------
ANY = "any"           # rendition of an erased cell: not specified


class RefVT:
    def __init__(s, w, h):
        s.w, s.h = w, h
        s.attr = (None, None, 0)          # fg, bg, flags: bold 1, underline 2, blink 4, reverse 8
        s.g = [[(32, (None, None, 0, 0))] * w for _ in range(h)]   # (char, ANY or (fg, bg, flags, charset))
        s.cs = [0, -1, 0]                 # G0, G1 (0 ASCII, 1 DEC special graphics, -1 never designated), shift
        s.x = s.y = 0
        s.pending = False                 # last-column flag
        s.cleared_by = None               # command kind that cleared the flag since the last printable
        s.top, s.bot = 0, h - 1
        s.sb, s.sb_known = [], True
        s.replies = []
        s.origin = False                  # DECOM: lines are addressed from the top margin, the cursor stays inside the margins

    def line(s, r):
        """row reached by addressing line r >= 1 (CUP / VPA)"""
        if s.origin:
            return min(s.top + r - 1, s.bot)
        return min(r, s.h) - 1

    def blank_row(s):
        return [(32, ANY)] * s.w

    def scroll_up(s):
        line = s.g.pop(s.top)
        if s.top == 0:
            s.sb.append(line)
        else:
            s.sb_known = False
        s.g.insert(s.bot, s.blank_row())

    def index(s):
        if s.y == s.bot:
            s.scroll_up()
        elif s.y < s.h - 1:
            s.y += 1

    def unpend(s, k):
        if s.pending:
            s.cleared_by = k
        s.pending = False

    @staticmethod
    def one(n):
        return 1 if n <= 0 else n

    def ambiguous(s, c):
        """terminals of the family differ here: the comparison stops before such a command"""
        k = c[0]
        partial = not (s.top == 0 and s.bot == s.h - 1)
        if k in ("lf", "ri", "ht"):
            return s.pending
        if k == "so":
            return s.cs[1] < 0            # power-up G1 differs between terminals
        if k == "cuu":       # in origin mode the cursor is inside the margins and stops at them on every terminal
            return (not s.origin) and partial and s.top <= s.y and s.y - s.one(c[1]) < s.top
        if k == "cud":
            return (not s.origin) and partial and s.y <= s.bot and s.bot < s.y + s.one(c[1])
        return False

    def do(s, c):
        k = c[0]
        one = s.one
        if k == "ch":
            if s.pending:
                s.x = 0
                s.pending = False
                s.index()
            s.g[s.y][s.x] = (c[1], s.attr + (s.cs[0] if s.cs[2] == 0 else s.cs[1],))
            if s.x == s.w - 1:
                s.pending = True
            else:
                s.x += 1
            s.cleared_by = None
        elif k == "cr":
            s.x = 0
            s.unpend(k)
        elif k == "lf":
            s.index()
        elif k == "ri":
            if s.y == s.top:
                s.g.pop(s.bot)
                s.g.insert(s.top, s.blank_row())
            elif s.y > 0:
                s.y -= 1
        elif k == "bs":
            s.unpend(k)
            if s.x > 0:
                s.x -= 1
        elif k == "cup":
            s.y = s.line(one(c[1]))
            s.x = min(one(c[2]), s.w) - 1
            s.unpend(k)
        elif k == "vpa":
            s.y = s.line(one(c[1]))
            s.unpend(k)
        elif k == "decom":
            s.origin = bool(c[1])
            s.x, s.y = 0, (s.top if s.origin else 0)        # to the new home position
            s.unpend(k)
        elif k == "cuu":
            s.y = max(s.top if s.y >= s.top else 0, s.y - one(c[1]))
            s.unpend(k)
        elif k == "cud":
            s.y = min(s.bot if s.y <= s.bot else s.h - 1, s.y + one(c[1]))
            s.unpend(k)
        elif k == "cuf":
            s.x = min(s.w - 1, s.x + one(c[1]))
            s.unpend(k)
        elif k == "cub":
            s.x = max(0, s.x - one(c[1]))
            s.unpend(k)
        elif k == "el":
            m = max(c[1], 0)
            a, b = {0: (s.x, s.w - 1), 1: (0, s.x), 2: (0, s.w - 1)}[m]
            for i in range(a, b + 1):
                s.g[s.y][i] = (32, ANY)
        elif k == "ed":
            m = max(c[1], 0)
            if m == 0:
                for i in range(s.x, s.w):
                    s.g[s.y][i] = (32, ANY)
                for j in range(s.y + 1, s.h):
                    s.g[j] = s.blank_row()
            elif m == 1:
                for j in range(0, s.y):
                    s.g[j] = s.blank_row()
                for i in range(0, s.x + 1):
                    s.g[s.y][i] = (32, ANY)
            else:
                for j in range(s.h):
                    s.g[j] = s.blank_row()
        elif k == "ich":
            n = min(one(c[1]), s.w - s.x)
            r = s.g[s.y]
            s.g[s.y] = r[:s.x] + [(32, ANY)] * n + r[s.x:s.w - n]
        elif k == "dch":
            n = min(one(c[1]), s.w - s.x)
            r = s.g[s.y]
            s.g[s.y] = r[:s.x] + r[s.x + n:] + [(32, ANY)] * n
        elif k in ("il", "dl"):
            if s.top <= s.y <= s.bot:
                n = min(one(c[1]), s.bot - s.y + 1)
                reg = s.g[s.y:s.bot + 1]
                new = [s.blank_row() for _ in range(n)]
                s.g[s.y:s.bot + 1] = (new + reg[:len(reg) - n]) if k == "il" else (reg[n:] + new)
            s.x = 0                       # the command is followed by CR (see enc_cmd)
            s.unpend(k)
        elif k == "stbm":
            t = one(c[1])
            b = s.h if c[2] <= 0 else c[2]
            if t < b <= s.h:
                s.top, s.bot = t - 1, b - 1
                s.x, s.y = 0, (s.top if s.origin else 0)    # home: the origin
                s.unpend(k)
        elif k == "sgr":
            # colours: n < 256 palette index, 256 + rgb direct colour
            fg, bg, fl = s.attr
            ps = list(c[1] or [0])
            i = 0
            while i < len(ps):
                n = ps[i]
                if n in (38, 48):
                    if i + 2 < len(ps) and ps[i + 1] == 5:
                        col = ps[i + 2]
                        i += 2
                    elif i + 4 < len(ps) and ps[i + 1] == 2:
                        col = 256 + ps[i + 2] * 65536 + ps[i + 3] * 256 + ps[i + 4]
                        i += 4
                    else:
                        i += 1
                        continue
                    if n == 38:
                        fg = col
                    else:
                        bg = col
                elif n <= 0:
                    fg, bg, fl = None, None, 0
                elif n == 1:
                    fl |= 1
                elif n == 4:
                    fl |= 2
                elif n == 5:
                    fl |= 4
                elif n == 7:
                    fl |= 8
                elif n == 24:
                    fl &= ~2
                elif n == 25:
                    fl &= ~4
                elif n == 27:
                    fl &= ~8
                elif 30 <= n <= 37:
                    fg = n - 30
                elif n == 39:
                    fg = None
                elif 40 <= n <= 47:
                    bg = n - 40
                elif n == 49:
                    bg = None
                i += 1
            s.attr = (fg, bg, fl)
        elif k == "ht":
            s.x = min(s.w - 1, (s.x // 8 + 1) * 8)
            s.unpend(k)
        elif k == "so":
            s.cs[2] = 1
        elif k == "si":
            s.cs[2] = 0
        elif k == "desig":
            s.cs[0 if c[1] == 0 else 1] = 1 if c[2] == 48 else 0
        elif k == "dsr":
            if c[1] == 5:
                s.replies.append("\x1b[0n")
            elif c[1] == 6:
                s.replies.append("\x1b[%d;%dR" % ((s.y - s.top if s.origin else s.y) + 1, s.x + 1))
        else:
            raise core.MachineryError("unknown reference command " + str(k))


CMD_CODE = {"ch": 1, "cr": 2, "lf": 3, "bs": 4, "ri": 5, "cup": 6, "cuu": 7, "cud": 8, "cuf": 9, "cub": 10, "el": 11,
            "ed": 12, "ich": 13, "dch": 14, "il": 15, "dl": 16, "stbm": 17, "sgr": 18, "dsr": 19, "ht": 20, "so": 21, "si": 22, "desig": 23,
            "vpa": 24, "decom": 25}
CSI_FINAL = {"cup": b"H", "cuu": b"A", "cud": b"B", "cuf": b"C", "cub": b"D", "el": b"K", "ed": b"J", "ich": b"@",
             "dch": b"P", "il": b"L", "dl": b"M", "stbm": b"r", "sgr": b"m", "dsr": b"n", "vpa": b"d"}


def enc_cmd(c):
    """bytes a hosted program sends for a reference command (a negative parameter is omitted)"""
    k = c[0]
    if k == "ch":
        return bytes([c[1]])
    if k in ("cr", "lf", "bs", "ri", "ht", "so", "si"):
        return {"cr": b"\r", "lf": b"\n", "bs": b"\b", "ri": b"\x1bM", "ht": b"\t", "so": b"\x0e", "si": b"\x0f"}[k]
    if k == "desig":
        return b"\x1b" + (b"(" if c[1] == 0 else b")") + bytes([c[2]])
    if k == "decom":
        return b"\x1b[?6h" if c[1] else b"\x1b[?6l"
    ps = c[1] if k == "sgr" else c[1:]
    out = b"\x1b[" + b";".join(b"" if n < 0 else str(n).encode() for n in ps) + CSI_FINAL[k]
    if k in ("il", "dl"):
        out += b"\r"
    return out


def attr_obs(a):
    """An AttrSpec as the numbers vterm.py itself reads back from it."""
    if a is None:
        return None
    fg = None if "default" in a.foreground else a.foreground_number
    bg = None if "default" in a.background else a.background_number
    return [fg, bg, a.colors, int(a.bold), int(a.underline), int(a.blink), int(a.standout)]


def palette_rgb(n):
    """the rgb value urwid itself shows for palette index n (AttrSpec('h<n>').get_rgb_values())"""
    from urwid.display.common import AttrSpec
    r, g, b = AttrSpec("h%d" % n, "default", 256).get_rgb_values()[:3]
    return (r << 16) + (g << 8) + b


def colour_matches(num, colors, bold, ref, is_fg):
    """does the emulator's colour number (at its colour depth) show the reference colour?"""
    if ref is None or num is None:
        return ref is None and num is None
    if colors == 2 ** 24:
        return num == (ref - 256 if ref >= 256 else palette_rgb(ref))
    if ref >= 256:
        return False
    if colors == 16 and is_fg and bold and num >= 8:      # 16-colour bold is shown as the bright colour
        num -= 8
    return num == ref


def attr_matches(a, ra):
    """the emulator's rendition (observed AttrSpec numbers or None) against a reference rendition (fg, bg, flags)"""
    rfg, rbg, rfl = ra[:3]
    if a is None:
        return (rfg, rbg, rfl) == (None, None, 0)
    fg, bg, colors, bold, ul, blink, so = a
    if (bold | (ul << 1) | (blink << 2) | (so << 3)) != rfl:
        return False
    return colour_matches(fg, colors, bold, rfg, True) and colour_matches(bg, colors, bold, rbg, False)


CS = {None: 0, "0": 1, "U": 2}
GNAME = {"default": 0, "vt100": 1, "ibmpc": 2, "user": 3}


def cell_obs(c):
    return [attr_obs(c[0]), CS.get(c[1], -1), list(c[2])]


def rows_obs(rows):
    return [[cell_obs(c) for c in r] for r in rows]


class Reader:
    def __init__(self, ints):
        self.l = ints
        self.i = 0

    def n(self):
        v = self.l[self.i]
        self.i += 1
        return v

    def lst(self):
        k = self.n()
        return [self.n() for _ in range(k)]

    def oz(self):
        return None if self.n() == 0 else self.n()

    def pair(self):
        f, a, b = self.n(), self.n(), self.n()
        return [a, b] if f else None

    def attr(self):
        if self.n() == 0:
            return None
        fg = self.oz()
        bg = self.oz()
        return [fg, bg, self.n(), self.n(), self.n(), self.n(), self.n()]

    def cell(self):
        a = self.attr()
        cs = self.n()
        return [a, cs, self.lst()]

    def rows(self):
        return [[self.cell() for _ in range(self.n())] for _ in range(self.n())]

    def rattr(self):
        if self.n() == 0:
            return ANY
        fg = self.oz()
        bg = self.oz()
        b, u, k, r = self.n(), self.n(), self.n(), self.n()
        return (fg, bg, b | (u << 1) | (k << 2) | (r << 3))

    def rrows(self):
        out = []
        for _ in range(self.n()):
            row = []
            for _ in range(self.n()):
                ch = self.n()
                a = self.rattr()
                row.append((ch, a if a == ANY else a + (self.n(),)))
            out.append(row)
        return out


class C15(core.Check):
    pid = "C15"
    gen_modules = ["vterm_csi"]
    model_targets = ["theories/Model/VTermRefine.vo"]
    prop_file = "theories/Properties/C15.v"
    extract_v = "Extract/C15X.v"
    allowed_axioms = set()
    design_ref = "DESIGN.md section 5, C15"
    search_budget = {"quick": 60, "thorough": 300}
    technique = ("Coq invariant proof (induction over the byte stream and the operation history, one preservation lemma "
                 "per grid operation) about an executable model of TermCanvas whose CSI table, constrain_coords and "
                 "DEC-special map are re-translated from vterm.py on every run; extracted-model correspondence on the "
                 "whole emulator state; independent oracle incl. a reference VT100 (Python + extracted Coq)")
    level_text = ""      # filled in below (after the class) to keep this header readable
    level_note = ""
    rule = ("cases = (encoding, size 1x1..12x6, operation list: feed(bytes) / resize / scroll-back view / focus) with "
            "grammar-generated streams (well-formed CSI/OSC/charset/mode sequences with boundary parameters 0, 1, w, w+1, "
            "9999, missing; SGR incl. 256/true colour forms; UTF-8 valid, truncated, invalid; C0/C1; ESC/CAN interruptions; "
            "raw garbage), random chunk splits; every final byte x parameter set after a fixed prefix; plus command lists of "
            "the VT100 subset; non-trivial = the final state differs from the freshly constructed terminal; distinct by "
            "hash of (case, outcome)")
    trusted_base = [
        "Coq 8.16.1 kernel (coqc; vm_compute only for closed examples and witnesses)",
        "tools/py2v translator + tools/py2v/mods/vterm_csi.py (csi_table, constrain_coords_gen, dec_special_map regenerated every run)",
        "extraction: ExtrOcamlBasic only; Z/positive stay Coq datatypes; OCaml 4.13.1; tools/driver/driver.ml",
        "hand-written Model/VTerm.v (validated by the exact whole-state correspondence, not proved against Python)",
        "Base/PyList.v list semantics (insert/pop/index as CPython)",
        "the AttrSpec abstraction of Model/VTerm.v is proved (attrspec_abstraction_sound, reverse_attrspec_sound) against C18's model of the AttrSpec class, Model/Colours.v - whose own tie to display/common.py is C18's business; the sweep against the real class stays as a cross-check",
        "Python oracle and reference VT100 in harness/props/c15.py; Model/VT100Ref.v must agree with it on every case",
    ]
    assumptions = [
        "terminal sizes >= 1x1; util.get_encoding() is one of 'utf8', 'utf-8', 'ascii'",
        "the widget callbacks (respond, set_title, beep, leds) do not raise and do not re-enter the canvas",
        "CSI parameters of more than 4300 digits are not generated (the model treats them like the code: int() fails -> default); vterm_refines_vt100 assumes parameters below 2^4000",
        "vterm_refines_vt100 stops before the points on which VT100-family terminals differ (LF/RI/HT with the last-column flag set, CUU/CUD across a margin of a partial region while origin mode is off, SO before G1 was designated)",
        "the Terminal widget's pty / process handling and key translation are not covered",
    ]

    def __init__(self):
        super().__init__()
        self._ref_stash = {}
        self._family_count = {}
        self._shrinking = False

    # ---------- implementation ----------
    def _new(self, case):
        from urwid import vterm
        w = DummyWidget(vterm)
        t = vterm.TermCanvas(case["w"], case["h"], w)
        return t, w

    @staticmethod
    def _apply(t, op):
        k = op[0]
        if k == "feed":
            t.addstr(bytes(op[1]))
        elif k == "resize":
            t.resize(op[1], op[2])
        elif k == "scroll":
            t.scroll_buffer(up=bool(op[1]), lines=op[2])
        elif k == "sreset":
            t.scroll_buffer(reset=True)
        elif k == "focus":
            t.has_focus = bool(op[1])
            t.set_term_cursor()
        else:
            raise core.MachineryError("unknown op " + str(k))

    @staticmethod
    def _summary(t):
        rows = [list(r) for r in t.content()]
        lens = [len(r) for r in rows]
        cur = t.cursor
        return [len(rows), min(lens) if lens else 0, max(lens) if lens else 0,
                None if cur is None else [cur[0], cur[1]], list(t.term_cursor),
                [t.scrollregion_start, t.scrollregion_end], [t.width, t.height], len(t.term)]

    @staticmethod
    def _snapshot(t, w):
        sa = t.saved_attrs
        cs = t.charset
        m = t.modes
        evs = []
        for e in w.events:
            evs.append(list(e))
        return {
            "size": [t.width, t.height],
            "term": rows_obs(t.term),
            "cur": list(t.term_cursor),
            "cursor": None if t.cursor is None else [t.cursor[0], t.cursor[1]],
            "focus": int(bool(t.has_focus)),
            "sb": rows_obs(t.scrollback_buffer),
            "sup": t.scrolling_up,
            "u8eat": t.utf8_eat_bytes,
            "u8buf": list(t.utf8_buffer),
            "escbuf": list(t.escbuf),
            "inesc": int(bool(t.within_escape)),
            "pstate": t.parsestate,
            "attrspec": attr_obs(t.attrspec),
            "cset": [GNAME.get(cs._g[0], -1), GNAME.get(cs._g[1], -1), int(bool(cs._sgr_mapping)), cs.active, CS.get(cs.current, -1)],
            "saved_cur": None if t.saved_cursor is None else list(t.saved_cursor),
            "saved_attrs": None if sa is None else [attr_obs(sa[0]), int(bool(sa[1]._sgr_mapping)), sa[1].active, CS.get(sa[1].current, -1)],
            "rotten": int(bool(t.is_rotten_cursor)),
            "region": [t.scrollregion_start, t.scrollregion_end],
            "tabstops": list(t.tabstops),
            "modes": [int(m.display_ctrl), int(m.insert), int(m.lfnl), int(m.keys_decckm), int(m.reverse_video),
                      int(m.constrain_scrolling), int(m.autowrap), int(m.visible_cursor), int(m.bracketed_paste), m.main_charset],
            "events": evs,
            "content": rows_obs(t.content()),
        }

    def _ops(self, case):
        if case.get("kind", "vt") == "ref":
            return [["feed", list(b"".join(enc_cmd(c) for c in case["cmds"]))]]
        return case["ops"]

    def _run_ops(self, case, ops, want_steps=True):
        """-> (steps, final or None, exc or None)"""
        import urwid
        urwid.set_encoding(ENCODINGS[case.get("enc", 1)])
        old = signal.signal(signal.SIGALRM, _alarm)
        signal.setitimer(signal.ITIMER_REAL, CASE_TIMEOUT)
        steps = []
        i = -1
        try:
            t, w = self._new(case)
            for i, op in enumerate(ops):
                self._apply(t, op)
                if want_steps:
                    steps.append(self._summary(t))
            final = self._snapshot(t, w)
            return steps, final, None
        except core.MachineryError:
            raise
        except CaseTimeout:
            return steps, None, ["Timeout", i]
        except Exception as e:          # the property: never raises
            return steps, None, [type(e).__name__, i]
        finally:
            signal.setitimer(signal.ITIMER_REAL, 0)
            signal.signal(signal.SIGALRM, old)
            urwid.set_encoding("utf-8")

    def run_impl(self, case):
        if case.get("kind") == "attrspec":
            return {"attrspec_got": self._attrspec_got(case)}
        ops = self._ops(case)
        steps, final, exc = self._run_ops(case, ops)
        if exc is not None:
            return {"steps": steps, "exc": exc}
        # chunking irrelevance on the implementation itself: consecutive feeds merged into one
        merged = []
        for op in ops:
            if op[0] == "feed" and merged and merged[-1][0] == "feed":
                merged[-1] = ["feed", merged[-1][1] + list(op[1])]
            else:
                merged.append(list(op))
        same = True
        if len(merged) != len(ops):
            _, final2, exc2 = self._run_ops(case, merged, want_steps=False)
            same = exc2 is None and core.canon(final2) == core.canon(final)
        return {"steps": steps, "final": final, "chunk_same": same}

    # ---------- model wire format ----------
    def encode(self, case):
        if case.get("kind", "vt") == "ref":
            l = [1, case.get("enc", 1), case["w"], case["h"]]
            for c in case["cmds"]:
                l.append(CMD_CODE[c[0]])
                if c[0] == "sgr":
                    l += [len(c[1])] + list(c[1])
                else:
                    l += list(c[1:])
            return l
        l = [0, case.get("enc", 1), case["w"], case["h"]]
        for op in case["ops"]:
            k = op[0]
            if k == "feed":
                l += [1, len(op[1])] + list(op[1])
            elif k == "resize":
                l += [2, op[1], op[2]]
            elif k == "scroll":
                l += [3, 1 if op[1] else 0, 0 if op[2] is None else 1, 0 if op[2] is None else op[2]]
            elif k == "sreset":
                l += [4]
            elif k == "focus":
                l += [5, 1 if op[1] else 0]
        return l

    def decode(self, case, ints):
        rd = Reader(ints)
        steps = []
        try:
            while True:
                tag = rd.n()
                if tag == 0:
                    nrows, mn, mx = rd.n(), rd.n(), rd.n()
                    cursor = rd.pair()
                    cur = [rd.n(), rd.n()]
                    reg = [rd.n(), rd.n()]
                    size = [rd.n(), rd.n()]
                    steps.append([nrows, mn, mx, cursor, cur, reg, size, rd.n()])
                elif tag == -1:
                    break
                elif tag == -2:
                    return {"malformed": ints[:30]}
                else:
                    return {"steps": steps, "exc": [ERRN.get(tag, "?%d" % tag), rd.n()]}
            f = {}
            f["size"] = [rd.n(), rd.n()]
            f["term"] = rd.rows()
            f["cur"] = [rd.n(), rd.n()]
            f["cursor"] = rd.pair()
            f["focus"] = rd.n()
            f["sb"] = rd.rows()
            f["sup"] = rd.n()
            f["u8eat"] = rd.oz()
            f["u8buf"] = rd.lst()
            f["escbuf"] = rd.lst()
            f["inesc"] = rd.n()
            f["pstate"] = rd.n()
            f["attrspec"] = rd.attr()
            f["cset"] = [rd.n() for _ in range(5)]
            f["saved_cur"] = rd.pair()
            if rd.n() == 0:
                f["saved_attrs"] = None
            else:
                a = rd.attr()
                f["saved_attrs"] = [a, rd.n(), rd.n(), rd.n()]
            f["rotten"] = rd.n()
            f["region"] = [rd.n(), rd.n()]
            f["tabstops"] = rd.lst()
            f["modes"] = [rd.n() for _ in range(10)]
            evs = []
            for _ in range(rd.n()):
                k = rd.n()
                if k == 1:
                    evs.append(["respond", "".join(chr(c) for c in rd.lst())])
                elif k == 2:
                    evs.append(["title", bytes(rd.lst()).decode(errors="replace")])
                elif k == 3:
                    evs.append(["beep"])
                else:
                    evs.append(["leds", rd.n()])
            f["events"] = evs
            f["content"] = rd.rows()
            if case.get("kind", "vt") == "ref":
                if rd.n() != -7:
                    return {"malformed": "no reference part"}
                n = rd.n()
                w, h = rd.n(), rd.n()
                g = rd.rrows()
                x, y, pend, top, bot = rd.n(), rd.n(), rd.n(), rd.n(), rd.n()
                attr = rd.rattr()
                sb = rd.rrows()
                known = rd.n()
                replies = []
                for _ in range(rd.n()):
                    kd, ra_, rb_ = rd.n(), rd.n(), rd.n()
                    replies.append("\x1b[0n" if kd == 5 else "\x1b[%d;%dR" % (ra_, rb_))
                csst = [rd.n(), rd.n(), rd.n()]
                origin = rd.n()
                self._ref_stash = {"key": core.h(case), "n": n, "g": g, "x": x, "y": y, "pend": pend, "top": top, "bot": bot,
                                   "attr": attr, "sb": sb, "known": known, "replies": replies, "cs": csst, "origin": origin}
            return {"steps": steps, "final": f, "chunk_same": True}
        except IndexError:
            return {"malformed": ints[:30]}

    # ---------- oracle (from the property text) ----------
    def _limited(self, msgs):
        """Report each violation family at most a few times per run (core keeps only the first 200 messages:
        a frequent already-classified family must not crowd out a new one).  Never applied while shrinking."""
        if self._shrinking:
            return msgs
        out = []
        for m in msgs:
            fam = self.signature(None, m)
            k = self._family_count.get(fam, 0)
            self._family_count[fam] = k + 1
            if k < 4:
                out.append(m)
        return out

    def oracle(self, case, res):
        return self._limited(self._oracle(case, res))

    def _oracle(self, case, res):
        msgs = []
        if case.get("kind") == "attrspec":
            m = self._attrspec_msg(case, res.get("attrspec_got"))
            return [m] if m else []
        if "malformed" in res:
            return ["malformed result " + str(res)]
        ops = self._ops(case)
        # sizes over time
        w, h = case["w"], case["h"]
        sizes = []
        for op in ops:
            if op[0] == "resize":
                w, h = op[1], op[2]
            sizes.append((w, h))
        for i, st in enumerate(res["steps"]):
            w, h = sizes[i]
            nrows, mn, mx, cursor, cur, reg, size, nterm = st
            tag = f"after op#{i} {ops[i][0]}"
            if size != [w, h]:
                msgs.append(f"{tag}: the terminal reports size {size}, it was given {[w, h]}")
            if nterm != h:
                msgs.append(f"{tag}: the grid has {nterm} rows, height is {h}")
            if nrows != h or mn != w or mx != w:
                scrolled = "scrolled back, " if self._scrolled_at(ops, i) else ""
                msgs.append(f"{tag}: {scrolled}content() has {nrows} rows of {mn}..{mx} cells on a {w}x{h} terminal")
            if not (0 <= cur[0] < w and 0 <= cur[1] < h):
                msgs.append(f"{tag}: term_cursor {cur} outside the {w}x{h} grid")
            if cursor is not None and not (0 <= cursor[0] < w and 0 <= cursor[1] < h):
                msgs.append(f"{tag}: canvas cursor {cursor} outside the {w}x{h} grid")
            if not (0 <= reg[0] <= reg[1] < h):
                msgs.append(f"{tag}: scrolling region {reg} not inside 0..{h - 1}")
            if msgs:
                return msgs
        if "exc" in res:
            name, i = res["exc"]
            what = "did not finish within %d s" % CASE_TIMEOUT if name == "Timeout" else "raised " + name
            return [f"op#{i} {ops[i][0] if 0 <= i < len(ops) else 'constructor'}: the terminal {what}"]
        f = res["final"]
        w, h = f["size"]
        for row in f["term"]:
            if len(row) != w:
                msgs.append(f"final grid row has {len(row)} cells, width is {w}")
                break
        for e in f["events"]:
            if e[0] == "respond" and not REPLY_RE.match(e[1]):
                msgs.append(f"malformed reply {e[1]!r}")
        # the scrolled-back view shows the kept lines: rows len-h-k .. len-k of scrollback + screen
        k = f["sup"]
        buf = f["sb"] + f["term"]
        if k == 0:
            if f["content"] != f["term"]:
                msgs.append("content() differs from the grid although the view is not scrolled back")
        elif 0 < k <= len(f["sb"]):
            # (kept lines have the width of the terminal when they left: shown padded with blanks / cut to the width)
            want = [([c[2] for c in r] + [[32]] * (w - len(r)))[:w] for r in buf[len(buf) - h - k:len(buf) - k]]
            if [[c[2] for c in r] for r in f["content"]] != want:
                msgs.append(f"scrolled back by {k}: content() does not show lines {len(buf) - h - k}..{len(buf) - k} of scrollback + screen")
        else:
            msgs.append(f"view scrolled back by {k} lines with {len(f['sb'])} lines of scrollback")
        if not res.get("chunk_same", True):
            msgs.append("chunking: feeding the stream in pieces and feeding it whole end in different states")
        if case.get("kind", "vt") == "ref" and not msgs:
            msgs += self._oracle_ref(case, res)
        return msgs

    @staticmethod
    def _scrolled_at(ops, i):
        """is the view possibly scrolled back after op i (a scroll op since the last reset)?"""
        s = False
        for op in ops[:i + 1]:
            if op[0] == "scroll" and op[1]:
                s = True
            elif op[0] == "sreset":
                s = False
        return s

    @staticmethod
    def _ref_diff(final, r):
        for y in range(r.h):
            for x in range(r.w):
                a, cs, ch = final["term"][y][x]
                rc, ra = r.g[y][x]
                if ch != [rc]:
                    return f"cell ({x},{y}) holds {bytes(ch)!r}, the reference has {chr(rc)!r}"
                if ra != ANY and not attr_matches(a, ra):
                    return f"cell ({x},{y}) rendition {a}, the reference has {ra}"
                if ra != ANY and cs != ra[3]:
                    return f"cell ({x},{y}) character set {cs}, the reference has {ra[3]}"
        if final["cur"] != [r.x, r.y]:
            return f"cursor at {final['cur']}, the reference has {[r.x, r.y]}"
        if final["region"] != [r.top, r.bot]:
            return f"scrolling region {final['region']}, the reference has {[r.top, r.bot]}"
        if bool(final["modes"][5]) != r.origin:
            return f"origin mode {bool(final['modes'][5])}, the reference has {r.origin}"
        return None

    def _oracle_ref(self, case, res):
        cmds = case["cmds"]
        w, h = case["w"], case["h"]
        r = RefVT(w, h)
        n = 0
        for c in cmds:
            if r.ambiguous(c):
                break
            r.do(c)
            n += 1
        msgs = []
        # the extracted Coq reference must tell the same story as this one
        st = self._ref_stash
        if st and st.get("key") == core.h(case):
            mine = [n, r.g, r.x, r.y, int(r.pending), r.top, r.bot, r.sb, int(r.sb_known), r.replies, r.cs, int(r.origin)]
            coq = [st["n"], st["g"], st["x"], st["y"], st["pend"], st["top"], st["bot"], st["sb"], st["known"], st["replies"], st["cs"],
                   st["origin"]]
            if core.canon(mine) != core.canon(coq):
                msgs.append("reference models disagree: Model/VT100Ref.v (extracted) and the Python reference VT100")
            self._ref_stash = {}
        if n < len(cmds):
            # judge only the unambiguous prefix
            sub = {"kind": "ref", "w": w, "h": h, "cmds": cmds[:n]}
            _, final, exc = self._run_ops(sub, self._ops(sub), want_steps=False)
            if exc is not None:
                return msgs
        else:
            final = res["final"]
        d = self._ref_full_diff(final, r)
        if d is not None:
            msgs.append(self._localise(case, n, d))
        return msgs

    def _ref_full_diff(self, final, r):
        """screen, cursor, region; replies to status / cursor-position queries; the lines that left the top"""
        d = self._ref_diff(final, r)
        if d is not None:
            return d
        got = [e[1] for e in final["events"] if e[0] == "respond"]
        if got != r.replies:
            return f"replies {got!r}, a VT100 answers {r.replies!r}"
        if r.sb_known:
            got_sb = [[c[2] for c in row] for row in final["sb"]]
            want_sb = [[[ch] for ch, _ in row] for row in r.sb]
            if got_sb != want_sb:
                return (f"the scrollback holds {len(got_sb)} lines that are not the {len(want_sb)} lines scrolled off "
                        "the top, in order")
        return None

    def _localise(self, case, n, final_diff):
        """first command after which the emulator and the reference differ; classify the situation"""
        w, h = case["w"], case["h"]
        cmds = case["cmds"][:n]
        r = RefVT(w, h)
        import urwid
        urwid.set_encoding(ENCODINGS[case.get("enc", 1)])
        try:
            t, wd = self._new(case)
            sgr_zero = False
            for i, c in enumerate(cmds):
                if c[0] == "sgr" and len(c[1]) >= 3 and c[1][-1] == 0 and (38 in c[1] or 48 in c[1]):
                    sgr_zero = True
                before = (r.pending, r.x, r.y, r.top, r.bot, r.cleared_by, r.origin)
                r.do(c)
                t.addstr(enc_cmd(c))
                d = self._ref_full_diff({"term": rows_obs(t.term), "cur": list(t.term_cursor),
                                         "region": [t.scrollregion_start, t.scrollregion_end],
                                         "modes": [0, 0, 0, 0, 0, int(t.modes.constrain_scrolling)],
                                         "events": wd.events, "sb": rows_obs(t.scrollback_buffer)}, r)
                if d is not None:
                    pend, x, y, top, bot, cleared, origin = before
                    aspect = ("scrollback" if "scrollback" in d else "replies" if d.startswith("replies") else
                              "cursor" if d.startswith("cursor") else "region" if d.startswith("scrolling") else
                              "origin" if d.startswith("origin") else "screen")
                    k = c[0] + (str(max(c[1], 0)) if c[0] in ("ed", "el") else "")
                    ctx = []
                    if pend:
                        ctx.append("pending wrap")
                    if c[0] == "ch" and cleared:
                        ctx.append("pending wrap cleared by " + cleared)
                    if not top <= y <= bot:
                        ctx.append("cursor outside the scrolling region")
                    if origin:
                        ctx.append("origin mode")
                    if sgr_zero and "rendition" in d:
                        ctx.append("after an SGR colour sequence whose last component is 0")
                    return f"vt100[{k}/{aspect}]: after command #{i} {c}" + (" (" + ", ".join(ctx) + ")" if ctx else "") + " " + d
        finally:
            urwid.set_encoding("utf-8")
        return "vt100[?]: " + final_diff + " (no single command shows the difference)"

    # ---------- the AttrSpec abstraction of the model, swept against the real AttrSpec ----------
    ATTR_NAMES = ["bold", "underline", "blink", "standout"]

    def _attrspec_got(self, case, t=None):
        """what vterm.py reads back from the AttrSpec its sgi_to_attrspec builds for (fg, bg, flags, colors)"""
        if t is None:
            import urwid
            from urwid import vterm
            urwid.set_encoding("utf-8")
            t = vterm.TermCanvas(2, 1, DummyWidget(vterm))
        attrs = {self.ATTR_NAMES[i] for i in range(4) if case["flags"] >> i & 1}
        try:
            return attr_obs(t.sgi_to_attrspec([], case["fg"], case["bg"], set(attrs), case["colors"]))
        except Exception as e:          # noqa: BLE001
            return type(e).__name__

    def _attrspec_msg(self, case, got):
        fg, bg, colors, flags = case["fg"], case["bg"], case["colors"], case["flags"]
        attrs = sorted(self.ATTR_NAMES[i] for i in range(4) if flags >> i & 1)
        f2 = fg + 8 if (fg is not None and flags & 1 and colors == 16 and fg < 8) else fg
        if f2 is None and bg is None and not flags:
            want = None
        else:
            want = [f2, bg, 1 if (f2 is None and bg is None) else colors] + [flags >> i & 1 for i in range(4)]
        if got != want:
            return (f"AttrSpec abstraction: sgi_to_attrspec([], {fg}, {bg}, {attrs}, {colors}) reads back {got}, "
                    f"the model says {want}")
        return None

    def extra_checks(self, tier, rng, ev):
        """Model/VTerm.v: mk_attrspec claims that vterm.py reads back from the AttrSpec it builds exactly the colour
        numbers it put in (derived .colors: 1 when both colours are default), for every colour number that fits the
        depth.  Checked here on the real sgi_to_attrspec/AttrSpec: complete for depths 1, 16 and 256 (thorough; the
        quick tier takes all values of one side against a few of the other), boundary + random values at 2**24."""
        import urwid
        from urwid import vterm
        urwid.set_encoding("utf-8")
        t = vterm.TermCanvas(2, 1, DummyWidget(vterm))
        out = []
        n = 0

        def one(fg, bg, colors, flags):
            nonlocal n
            n += 1
            case = {"kind": "attrspec", "fg": fg, "bg": bg, "colors": colors, "flags": flags}
            msg = self._attrspec_msg(case, self._attrspec_got(case, t))
            if msg and len(out) < 5:
                out.append((case, msg))
        for flags in range(16):
            one(None, None, 1, flags)
            for fg in [None] + list(range(16)):
                for bg in [None] + list(range(16)):
                    if not (flags & 1 and fg is not None and fg >= 8):      # bold never meets an unbrightened fg >= 8 at 16 colours
                        one(fg, bg, 16, flags)
        few = [None, 0, 7, 8, 15, 16, 231, 232, 255]
        all256 = [None] + list(range(256))
        for flags in (0, 15):
            for fg in all256:
                for bg in (all256 if tier == "thorough" else few):
                    one(fg, bg, 256, flags)
            if tier != "thorough":
                for bg in all256:
                    for fg in few:
                        one(fg, bg, 256, flags)
        vals = [None, 0, 1, 255, 256, 65535, 65536, 2 ** 24 - 1] + [rng.randrange(2 ** 24) for _ in range(300)]
        for fg in vals:
            for bg in (None, 0, 1, 2 ** 24 - 1, rng.randrange(2 ** 24)):
                one(fg, bg, 2 ** 24, rng.choice([0, 1, 5, 15]))
                one(bg, fg, 2 ** 24, 0)
        ev["dist"]["attrspec_abstraction_checked"] = n
        return out

    def nontrivial(self, case, res):
        if "final" not in res:
            return True
        f = res["final"]
        blank = all(c == [None, 0, [32]] for row in f["term"] for c in row)
        return not (blank and f["cur"] == [0, 0] and not f["events"] and not f["sb"] and f["attrspec"] is None)

    def signature(self, case, msg):
        m = re.match(r"^(vt100\[[^\]]*\])", msg)
        if m:
            return m.group(1)
        msg = re.sub(r"^(after )?op#\d+ \w+: ", "", msg)
        return re.sub(r"\d+", "N", msg)[:80]

    def shrink(self, case, msg):
        self._shrinking = True
        try:
            return super().shrink(case, msg)
        finally:
            self._shrinking = False

    def replay(self, path):
        self._shrinking = True
        return super().replay(path)

    def distribution(self, case, res, dist):
        def inc(k, n=1):
            dist[k] = dist.get(k, 0) + n
        kind = case.get("kind", "vt")
        inc("kind:" + kind)
        inc("size:%dx%d" % (min(case["w"], 12), min(case["h"], 6)))
        if kind == "ref":
            for c in case["cmds"]:
                inc("cmd:" + c[0])
        else:
            inc("enc:" + ENCODINGS[case.get("enc", 1)])
            for op in case["ops"]:
                inc("op:" + op[0])
                if op[0] == "feed":
                    inc("bytes", len(op[1]))
        if "exc" in res:
            inc("exc:" + res["exc"][0])
        elif "final" in res:
            f = res["final"]
            inc("replies", sum(1 for e in f["events"] if e[0] == "respond"))
            inc("titles", sum(1 for e in f["events"] if e[0] == "title"))
            if f["sb"]:
                inc("with_scrollback")
            if f["sup"]:
                inc("scrolled_back_at_end")
            if any(len(c[2]) > 1 for row in f["term"] for c in row):
                inc("multibyte_cells")
            if any(c[0] is not None for row in f["term"] for c in row):
                inc("coloured_cells")
            if f["region"] != [0, f["size"][1] - 1]:
                inc("partial_region_at_end")
                if f["modes"][5]:
                    inc("origin_mode_in_partial_region_at_end")

    # ---------- generators ----------
    FINALS = list(b"@ABCDEFGHJKLMPXacdefghlmnqrsu`")

    def _param(self, rng, w, h):
        return rng.choice(["", "", "0", "1", "1", "2", "3", str(w - 1), str(w), str(w + 1), str(h - 1), str(h), str(h + 1),
                           "9999", "65536", "007", "99999999"])

    def _sgr(self, rng):
        forms = ["0", "1", "4", "5", "7", "24", "25", "27", "39", "49", "10", "11", "12", "22", "3", "9",
                 str(rng.randint(30, 37)), str(rng.randint(40, 47)), str(rng.randint(90, 97)), str(rng.randint(100, 107)),
                 "38;5;%d" % rng.choice([0, 1, 7, 8, 15, 16, 100, 231, 232, 255, 256, 999]),
                 "48;5;%d" % rng.choice([0, 3, 9, 200, 255, 300]),
                 "38;2;%d;%d;%d" % tuple(rng.choice([0, 1, 128, 255, 256, 999]) for _ in range(3)),
                 "48;2;%d;%d;%d" % tuple(rng.choice([0, 17, 255, 700]) for _ in range(3)),
                 "38;5", "38;2;1;2", "38", "48;5;", "38;7;1", ""]
        return ";".join(rng.choice(forms) for _ in range(rng.choice([1, 1, 1, 2, 2, 3, 5]))).encode()

    def _piece(self, rng, w, h):
        k = rng.randrange(24)
        if k < 5:
            return bytes(rng.choice(b"abcdefXYZ 0123~") for _ in range(rng.randint(1, 2 * w + 2)))
        if k < 7:
            return bytes(rng.choice(b"\r\n\n\t\b\x0b\x0c\x07\x00\x7f") for _ in range(rng.randint(1, 3)))
        if k < 11:
            n = rng.choice([0, 1, 1, 1, 2, 2, 3, 5])
            ps = ";".join(self._param(rng, w, h) for _ in range(n))
            q = rng.choice(["", "", "", "?"])
            intro = rng.choice([b"\x1b[", b"\x1b[", b"\x1b[", b"\x9b"])
            return intro + q.encode() + ps.encode() + bytes([rng.choice(self.FINALS)])
        if k == 11:
            return b"\x1b[" + self._sgr(rng) + b"m"
        if k == 12:
            q = rng.choice(["?", "?", ""])
            modes = ";".join(rng.choice(["1", "3", "4", "5", "6", "7", "20", "25", "2004", "0", "99"]) for _ in range(rng.choice([1, 1, 2, 3])))
            return b"\x1b[" + q.encode() + modes.encode() + rng.choice([b"h", b"l"])
        if k == 13:
            return rng.choice([b"\x1bM", b"\x1bD", b"\x1bE", b"\x1b7", b"\x1b8", b"\x1bc", b"\x1bH", b"\x1b#8", b"\x1bZ", b"\x1b=",
                               b"\x1b>", b"\x1b#3", b"\x1bN", b"\x1b\\", b"\x1b[g", b"\x1b[3g", b"\x1b[5n", b"\x1b[6n", b"\x1b[c",
                               b"\x1b[?c", b"\x1b[0q", b"\x1b[3q", b"\x1b[s", b"\x1b[u"])
        if k == 14:
            return rng.choice([b"\x1b(0", b"\x1b(B", b"\x1b)0", b"\x1b)U", b"\x1b(U", b"\x1b(K", b"\x1b)B", b"\x0e", b"\x0f",
                               b"\x1b%G", b"\x1b%@", b"\x1b%8", b"\x1b%X", b"\x1b[11m", b"\x1b[10m", b"\x1b[3h", b"\x1b[3l"])
        if k == 15:
            body = rng.choice([b"0;title", b"2;t\xc3\xa9", b";x", b"1;no", b"00;zero", b"0;\xff\xfe", b"0;a;b", b"P1234567", b"R",
                               b"", b"0", b"0;\xe4\xb8", b"4;1;rgb:0/0/0", b"02;two"])
            return b"\x1b]" + body + rng.choice([b"\x07", b"\x1b\\", b"", b"\x18"])
        if k == 16:
            return rng.choice([b"\xe4\xb8\x96", b"\xc3\xa9", b"\xf0\x9f\x98\x80", b"\xc3", b"\xff", b"\x80\x80", b"\xc0\x80",
                               b"\xe0\x80\x80", b"\xed\xa0\x80", b"\xf4\x90\x80\x80", b"\xf8\x88\x80\x80\x80", b"\xe2\x82",
                               b"\xd9\xbf", b"\xc3\xb4", b"\xc2\xb3", b"\xfe\x80\x80\x80\x80\x80\x80", b"\xc3\x1b[m",
                               b"\xb3", b"\xc4", b"\xda\xc4\xbf", b"\x9b1m", b"\x84", b"\x8d"])
        if k == 17:
            return bytes(rng.randrange(256) for _ in range(rng.randint(1, 6)))
        if k == 18:
            # an interrupted sequence
            seq = rng.choice([b"\x1b[12;3", b"\x1b[?2", b"\x1b]0;ti", b"\x1b(", b"\x1b%", b"\x1b", b"\x1b[1;", b"\x9b5"])
            return seq + rng.choice([b"\x1b", b"\x18", b"\x1a", b"\x1b[", b"\r", b"\n", b"\x00", b"\x7f", b"\x07", b"H", b"m", b"\xc3"])
        if k == 19:
            return b"\x1b[%d;%dr" % (rng.choice([0, 1, 2, h - 1, h]), rng.choice([0, 1, 2, h - 1, h, h + 1]))
        if k == 20:
            return b"\x1b[%d;%dH" % (rng.choice([0, 1, h, h + 1, 9999]), rng.choice([0, 1, w, w + 1, 9999]))
        if k == 21:
            return bytes(rng.choice(b"abcdefgh") for _ in range(w)) + rng.choice([b"", b"\r\n", b"\n"])
        if k == 22:
            return rng.choice([b"\x1b[4h", b"\x1b[4l", b"\x1b[?7l", b"\x1b[?7h", b"\x1b[?6h", b"\x1b[?6l", b"\x1b[?5h", b"\x1b[?5l",
                               b"\x1b[20h", b"\x1b[20l", b"\x1b[?25l", b"\x1b[?25h", b"\x1b[?3h"])
        return bytes(rng.choice(b"xyz") for _ in range(rng.randint(1, 3)))

    def random_case(self, rng, nops=None):
        w, h = rng.randint(1, 12), rng.randint(1, 6)
        if rng.random() < 0.25:
            w, h = rng.choice([1, 1, 2, 3]), rng.choice([1, 1, 2])
        case = {"kind": "vt", "enc": rng.choice([0, 0, 1, 1, 2]), "w": w, "h": h, "ops": []}
        if rng.random() < 0.5:
            case["ops"].append(["focus", 1])
        for _ in range(nops or rng.choice([1, 2, 3, 5, 8, 12])):
            r = rng.random()
            if r < 0.08:
                w, h = rng.randint(1, 12), rng.randint(1, 6)
                case["ops"].append(["resize", w, h])
            elif r < 0.13:
                case["ops"].append(["scroll", int(rng.random() < 0.7), rng.choice([None, None, 1, 2, 7])])
            elif r < 0.15:
                case["ops"].append(["sreset"])
            elif r < 0.18:
                case["ops"].append(["focus", rng.choice([0, 1])])
            else:
                data = b"".join(self._piece(rng, w, h) for _ in range(rng.choice([1, 1, 2, 3, 4])))
                # random chunk splits of the stream
                while data:
                    n = len(data) if rng.random() < 0.5 else rng.randint(1, len(data))
                    case["ops"].append(["feed", list(data[:n])])
                    data = data[n:]
        return case

    REF_SGR = [-1, 0, 1, 4, 5, 7, 24, 25, 27, 30, 31, 32, 34, 37, 39, 40, 41, 44, 47, 49]

    def random_ref_case(self, rng, n=None):
        w, h = rng.randint(1, 12), rng.randint(1, 6)
        if rng.random() < 0.2:
            w, h = rng.choice([1, 2, 3]), rng.choice([1, 2, 3])
        r = RefVT(w, h)
        cmds = []

        def P():
            return rng.choice([-1, 0, 1, 1, 2, 3, w - 1, w, w + 1, h, h + 1, 9999])
        if h >= 2 and rng.random() < 0.25:
            # a session of a full-screen program that confines itself to a window: margins + origin mode
            t_ = rng.randint(1, h - 1)
            for c in (["stbm", t_, rng.randint(t_ + 1, h)], ["decom", 1]):
                r.do(c)
                cmds.append(c)
        for _ in range(n or rng.randint(1, 30)):
            k = rng.randrange(19)
            if k == 17:
                c = ["decom", rng.choice([1, 1, 0])]
            elif k == 18:
                c = ["vpa", P()]
            elif k < 5:
                c = ["ch", rng.choice(b"abcXYZ~ ")]
            elif k == 5:
                c = [rng.choice(["cr", "lf", "lf", "bs", "ri"])]
            elif k == 6:
                c = ["cup", P(), P()]
            elif k == 7:
                c = [rng.choice(["cuu", "cud", "cuf", "cub"]), P()]
            elif k == 8:
                c = ["el", rng.choice([-1, 0, 1, 2])]
            elif k == 9:
                c = ["ed", rng.choice([-1, 0, 1, 2])]
            elif k == 10:
                c = [rng.choice(["ich", "dch"]), P()]
            elif k == 11:
                c = [rng.choice(["il", "dl"]), P()]
            elif k == 12:
                c = ["stbm", rng.choice([-1, 0, 1, 2, h - 1, h]), rng.choice([-1, 0, 1, 2, h - 1, h, h + 1])]
            elif k == 13:
                ps = []
                for _ in range(rng.randint(0, 3)):
                    r_ = rng.random()
                    if r_ < 0.7:
                        ps.append(rng.choice(self.REF_SGR))
                    elif r_ < 0.85:
                        ps += [rng.choice([38, 48]), 5, rng.choice([0, 1, 7, 8, 9, 15, 16, 100, 196, 231, 232, 255])]
                    else:
                        ps += [rng.choice([38, 48]), 2] + [rng.choice([0, 1, 2, 3, 128, 255]) for _ in range(3)]
                c = ["sgr", ps]
            elif k == 14:
                c = rng.choice([["dsr", 5], ["dsr", 6], ["ht"], ["ht"], ["so"], ["si"], ["desig", rng.choice([0, 1]), rng.choice([48, 66])],
                                ["desig", 1, 48]])
            else:
                c = ["ch", rng.choice(b"abc")]
            if r.ambiguous(c):
                continue
            r.do(c)
            cmds.append(c)
        return {"kind": "ref", "w": w, "h": h, "cmds": cmds}

    def table_cases(self):
        """every final byte (all 256) with a small parameter set, after a prefix that fills a 5x3 screen"""
        prefix = list(b"abcde\r\nfghij\r\nklm\x1b[2;3H")
        for fb in range(256):
            for ps in (b"", b"0", b"2", b"9999", b"1;2", b"?5", b"2;3;4"):
                for intro in (b"\x1b[", b"\x1b", b"\x1b]", b"\x1b("):
                    if intro != b"\x1b[" and ps not in (b"", b"2"):
                        continue
                    yield {"kind": "vt", "enc": 1, "w": 5, "h": 3,
                           "ops": [["feed", prefix + list(intro + ps + bytes([fb])) + list(b"Z\x1b[6n")]]}

    def utf8_cases(self):
        """every start byte with continuation bytes, under the three encodings and ESC % G"""
        for enc in (0, 1, 2):
            for pre in (b"", b"\x1b%G"):
                for lead in range(0x80, 0x100):
                    for cont in (b"\x80\x80\x80\x80\x80\x80\x80", b"\xbf\xbf\xbf", b"\xa0\x80\x80", b"\x90\x80\x80", b"\x9f\xbf", b"\x8f\xbf\xbf", b"a"):
                        yield {"kind": "vt", "enc": enc, "w": 6, "h": 2, "ops": [["feed", list(pre + bytes([lead]) + cont + b"z")]]}

    def cases(self, rng, tier):
        yield from self.table_cases()
        if tier == "thorough":
            yield from self.utf8_cases()
        else:
            for i, c in enumerate(self.utf8_cases()):
                if i % 5 == rng.randrange(5):
                    yield c
        nrand = 2500 if tier == "quick" else 40000
        for _ in range(nrand):
            yield self.random_case(rng)
        nref = 2500 if tier == "quick" else 40000
        for _ in range(nref):
            yield self.random_ref_case(rng)

    def search_cases(self, rng, tier):
        while True:
            yield self.random_case(rng)
            yield self.random_ref_case(rng)

    def shrink_candidates(self, case):
        if case.get("kind") == "attrspec":
            return
        if case.get("kind", "vt") == "ref":
            cmds = case["cmds"]
            for i in range(len(cmds) - 1, -1, -1):
                yield dict(case, cmds=cmds[:i] + cmds[i + 1:])
            if case["w"] > 1:
                yield dict(case, w=case["w"] - 1)
            if case["h"] > 1:
                yield dict(case, h=case["h"] - 1)
            return
        ops = case["ops"]
        for i in range(len(ops) - 1, -1, -1):
            yield dict(case, ops=ops[:i] + ops[i + 1:])
        for i, op in enumerate(ops):
            if op[0] == "feed" and len(op[1]) > 1:
                d = op[1]
                half = len(d) // 2
                for nd in (d[:half], d[half:]):
                    yield dict(case, ops=ops[:i] + [["feed", nd]] + ops[i + 1:])
                if len(d) <= 40:
                    for j in range(len(d)):
                        yield dict(case, ops=ops[:i] + [["feed", d[:j] + d[j + 1:]]] + ops[i + 1:])


C15.level_text = (
    "Proved in Coq for EVERY session from a fresh terminal - every byte stream, every chunking, every interleaving of "
    "resizes (sizes >= 1x1), view scrolling and focus changes, no bound on lengths or parameters - about the executable "
    "model of TermCanvas (vterm_safe): the run never raises (no IndexError from any grid / tab-stop / palette access, no "
    "AttrSpecError from SGR, enough fuel for the tab loop); the size follows the resizes; the grid and the view handed to "
    "the renderer (scrolled back or not) have exactly height rows of exactly width cells; term_cursor, the canvas cursor "
    "and the scrolling region stay inside; the view offset stays within the scrollback; every reply written to the pty "
    "matches ESC[0n | ESC[?6c | ESC[[1-9][0-9]*;[1-9][0-9]*R.  chunking_irrelevant: feeding a stream in pieces equals "
    "feeding it whole anywhere in a session.  scrollback_in_order(_scroll) and scrolled_back_view: a scroll appends "
    "exactly the departing top line, the scrollback only grows at its end, the scrolled-back view shows rows "
    "[len-k, len-k+height) of scrollback ++ screen.  vterm_refines_vt100 (THEOREM): for any command list over printable "
    "text with autowrap, CR LF BS HT, CUP VPA CUU CUD CUF CUB, EL ED, ICH DCH IL DL, DECSTBM, origin mode (DECOM: lines "
    "addressed from the top margin, cursor kept inside the margins, CPR relative, ED/EL not confined), RI, SGR (classic values and the "
    "38;5;n / 48;5;n palette and 38;2;r;g;b / 48;2;r;g;b direct colour forms in any mixture, each cell judged at the colour "
    "depth its AttrSpec was pushed to), DSR and the "
    "character sets (SO/SI, ESC ( 0/B, ESC ) 0/B), any size, parameters below 2^4000, the emulator model fed with the "
    "byte encoding ends with screen contents (characters, renditions, character set of every cell), cursor and scrolling "
    "region and origin mode equal to the independent reference VT100, its replies are exactly the reference's (DSR 5 / cursor position), "
    "and the scrollback holds exactly the lines that left the top of the reference's screen, in order (parser lemma on "
    "the decimal encoding + one simulation lemma per command + induction).  Corollaries: any_csi_is_survived, "
    "cut_anywhere (UTF-8 / escape state independent of chunk boundaries), scrolled_view_cursor_inside.  "
    "attrspec_abstraction_sound / attrspec_none_is_default / reverse_attrspec_sound: the record the model keeps in place of an "
    "AttrSpec is what vterm.py reads back from the object sgi_to_attrspec / reverse_attrspec build - proved against C18's "
    "model of the AttrSpec class (constructor accepts the _defaulter descriptions at the declared depth; .foreground_number, "
    ".background_number, .colors, the four attributes and the \"default\" test read back as the record), every admitted "
    "colour number, all 2^24 direct colours included (the sweep against the real AttrSpec stays as a cross-check).  ORACLE / "
    "CORRESPONDENCE ONLY: the tie of the "
    "hand model to vterm.py (exact whole-state correspondence on ~9k cases per quick run).")
C15.level_note = (
    "Trusted: Coq kernel, py2v (csi_table / constrain_coords / DEC map regenerated each run), extraction + driver, the "
    "hand model VTerm.v (validated by correspondence only; its AttrSpec abstraction is proved against C18's model of the class), PyList semantics, the Python "
    "oracle and reference VT100.  Assumes sizes >= 1x1, encodings utf8 / utf-8 / ascii, well-behaved widget callbacks.  "
    "Not covered: the Terminal widget's pty/process handling and key translation.")

CHECK = C15
