"""C20 - Scrollable views show the right slice and scrollbars reflect the position."""
import itertools
import re
import warnings

from harness import core

warnings.simplefilter("ignore")

THUMB, TROUGH = "#", "."
KEYCMD = {"up": 1, "down": 2, "page up": 3, "page down": 4, "home": 5, "end": 6}
ACT = {None: 0, "line up": 1, "line down": 2, "page up": 3, "page down": 4, "to top": 5, "to end": 6}
ERR = {0: None, 1: "IndexError", 2: "ValueError", 3: "TypeError", 4: "WidgetError", 5: "CanvasError"}
SCROLL_KEYS = ["up", "down", "page up", "page down", "home", "end"]
BIG = 2 ** 60


def rowtext(i, cols):
    """Distinct, non-blank content for child row i, exactly `cols` cells, without bar characters."""
    base = f"r{i}:"
    s = base + "abcdefghijklmnopqrstuvwxyz"[i % 26:] + "abcdefghijklmnopqrstuvwxyz"
    while len(s) < cols:
        s += s
    return s[:cols]


def text_rows(canv):
    return [b"".join(seg[2] for seg in row).decode("utf-8", "replace") for row in canv.content()]


def _widgets():
    """Custom wrapped widgets (defined lazily so that importing this module does not import urwid)."""
    import urwid

    class FixedGrid(urwid.Widget):
        """A fixed-size widget (BigText-like): `rows_` rows of `cols_` cells."""
        _sizing = frozenset([urwid.FIXED])
        _selectable = False

        def __init__(self, cols, rows, greedy=False, cur=None):
            super().__init__()
            self.cols_, self.rows_, self.greedy, self.cur = cols, rows, greedy, cur

        def selectable(self):
            return self.cur is not None

        def keypress(self, size, key):
            return key

        def pack(self, size=(), focus=False):
            return (self.cols_, self.rows_)

        def render(self, size, focus=False):
            cursor = None
            if focus and self.cur is not None and 0 <= self.cur[0] < self.cols_ and 0 <= self.cur[1] < self.rows_:
                cursor = tuple(self.cur)
            return urwid.TextCanvas([rowtext(i, self.cols_).encode() for i in range(self.rows_)], maxcol=self.cols_,
                                    cursor=cursor)

        def mouse_event(self, size, event, button, col, row, focus):
            return bool(self.greedy)

    class FlowKeys(urwid.Widget):
        """A flow widget of n rows; optionally selectable, grabbing some keys and all mouse events."""
        _sizing = frozenset([urwid.FLOW])

        def __init__(self, n, sel, grab, greedy):
            super().__init__()
            self.n, self.sel, self.grab, self.greedy = n, sel, set(grab), greedy

        def selectable(self):
            return self.sel

        def rows(self, size, focus=False):
            return self.n

        def render(self, size, focus=False):
            (maxcol,) = size
            return urwid.TextCanvas([rowtext(i, maxcol).encode() for i in range(self.n)], maxcol=maxcol)

        def keypress(self, size, key):
            return None if key in self.grab else key

        def mouse_event(self, size, event, button, col, row, focus):
            return bool(self.greedy)

    class FlowCursor(FlowKeys):
        """FlowKeys with a cursor row that 'up'/'down' move (when grabbed); a miniature list."""

        def __init__(self, n, sel, grab, greedy, cur):
            super().__init__(n, sel, grab, greedy)
            self.cur = cur

        def get_cursor_coords(self, size):
            return (0, self.cur) if 0 <= self.cur < self.n else None

        def render(self, size, focus=False):
            (maxcol,) = size
            cursor = (0, self.cur) if focus and 0 <= self.cur < self.n else None
            return urwid.TextCanvas([rowtext(i, maxcol).encode() for i in range(self.n)], maxcol=maxcol, cursor=cursor)

        def keypress(self, size, key):
            if key not in self.grab:
                return key
            new = self.cur + {"up": -1, "down": 1, "page up": -3, "page down": 3}.get(key, 0)
            if key in ("up", "down", "page up", "page down"):
                if not 0 <= new < self.n:
                    return key
                self.cur = new
                self._invalidate()
            return None

    return FixedGrid, FlowKeys, FlowCursor


_W = None


def W():
    global _W
    if _W is None:
        _W = _widgets()
    return _W


def build_child(spec):
    import urwid
    FixedGrid, FlowKeys, FlowCursor = W()
    k = spec["kind"]
    if k == "text":
        return urwid.Text("\n".join(spec["lines"]), wrap=spec.get("wrap", "space"))
    if k == "pile":
        items = []
        for it in spec["items"]:
            if it[0] == "t":
                items.append(urwid.Text("\n".join(it[1])))
            elif it[0] == "e":
                items.append(urwid.Edit(it[1], it[2], multiline=bool(it[3])))
            elif it[0] == "s":
                items.append(urwid.SelectableIcon(it[1], 0))
            elif it[0] == "d":
                items.append(urwid.Divider("-"))
            else:
                raise core.MachineryError("bad pile item")
        return urwid.Pile(items)
    if k == "fixed":
        return FixedGrid(spec["cols"], spec["rows"], spec.get("greedy", False), spec.get("cur"))
    if k == "tree":
        return build_tree(spec["tree"])
    if k == "flow":
        if "cur" in spec:
            return FlowCursor(spec["n"], spec.get("sel", True), spec.get("grab", []), spec.get("greedy", False), spec["cur"])
        return FlowKeys(spec["n"], spec.get("sel", False), spec.get("grab", []), spec.get("greedy", False))
    raise core.MachineryError("bad child kind " + str(k))


def build_tree(t):
    """Compositions whose canvas has cells spanning several shards: Pile / Columns of unequal heights.
    ["t", lines] Text | ["pile", [..]] Pile | ["cols", [..], dividechars] Columns | ["f", cols, rows] fixed grid |
    ["fpile", [..]] Pile of packed (fixed) children | ["pcols", [..], dividechars] Columns of packed children |
    ["sheet", node] FIXED-only wrapper (sizing {FIXED}) around a packed composition."""
    import urwid
    FixedGrid, _, _ = W()
    k = t[0]
    if k == "t":
        return urwid.Text("\n".join(t[1]))
    if k == "pile":
        return urwid.Pile([build_tree(c) for c in t[1]])
    if k == "cols":
        return urwid.Columns([build_tree(c) for c in t[1]], dividechars=t[2] if len(t) > 2 else 0)
    if k == "f":
        return FixedGrid(t[1], t[2])
    if k == "fpile":
        return urwid.Pile([("pack", build_tree(c)) for c in t[1]])
    if k == "pcols":
        return urwid.Columns([("pack", build_tree(c)) for c in t[1]], dividechars=t[2] if len(t) > 2 else 0)
    if k == "sheet":
        return W_sheet()(build_tree(t[1]))
    raise core.MachineryError("bad tree node " + str(k))


_SHEET = None


def W_sheet():
    """FIXED-only wrapper around a composition packed to its natural size: its canvas keeps the several shards /
    carried-over cells of the composition, and Scrollable has to cut it on the right when it is wider than the view."""
    global _SHEET
    if _SHEET is None:
        import urwid

        class FixedSheet(urwid.WidgetDecoration):
            def sizing(self):
                return frozenset((urwid.FIXED,))

            def selectable(self):
                return False

            def pack(self, size=(), focus=False):
                return self._original_widget.pack((), focus)

            def render(self, size, focus=False):
                return urwid.CompositeCanvas(self._original_widget.render((), focus))
        _SHEET = FixedSheet
    return _SHEET


_FIXED_MEMO = {}


def is_fixed(spec):
    """True when Scrollable gives the wrapped widget the fixed size (): FLOW is not among its sizing modes."""
    if spec["kind"] != "tree":
        return spec["kind"] == "fixed"
    key = core.canon(spec)
    if key not in _FIXED_MEMO:
        import urwid
        _FIXED_MEMO[key] = urwid.FLOW not in build_child(spec).sizing()
    return _FIXED_MEMO[key]


def change_content(child, spec):
    k = spec["kind"]
    if k == "text":
        child.set_text("\n".join(spec["lines"]))
    elif k == "fixed":
        child.cols_, child.rows_ = spec["cols"], spec["rows"]
        child._invalidate()
    elif k == "flow":
        child.n = spec["n"]
        child._invalidate()
    else:
        raise core.MachineryError("content change unsupported for " + k)


class Rec:
    """Records every outermost call Scrollable/ScrollBar make on the wrapped widget (instance-level patch)."""
    NAMES = ("render", "keypress", "mouse_event", "rows", "pack", "get_cursor_coords")

    def __init__(self, child):
        self.child, self.calls, self.depth, self.orig = child, [], 0, {}
        self.last_canvas = None
        for name in self.NAMES:
            if hasattr(child, name):
                self._patch(name)

    def _patch(self, name):
        orig = getattr(self.child, name)
        self.orig[name] = orig

        def wrapper(*a, **k):
            self.depth += 1
            try:
                r = orig(*a, **k)
            finally:
                self.depth -= 1
            if self.depth == 0:
                if name == "render":
                    cur = r.cursor
                    r2 = {"rows": r.rows(), "cols": r.cols(), "cursor": list(cur) if cur is not None else None,
                          "text": text_rows(r)}
                    self.last_canvas = (r, dict(r2))      # to verify afterwards that the caller left it as it was
                elif name == "get_cursor_coords":
                    r2 = list(r) if r is not None else None
                elif name == "pack":
                    r2 = list(r)
                else:
                    r2 = r
                self.calls.append((name, a, r2))
            return r
        setattr(self.child, name, wrapper)


def cw_of(size):
    """Size tuple given to the wrapped widget -> the integer the model uses (-1 for the fixed size ())."""
    return size[0] if len(size) else -1


def coords_ints(c):
    return [0] if c is None else [1, int(c[0]), int(c[1])]


class C20(core.Check):
    pid = "C20"
    gen_modules = ["scrollable"]
    model_targets = ["theories/Model/Scrollable.vo"]
    prop_file = "theories/Properties/C20.v"
    extract_v = "Extract/C20X.v"
    # kernel primitives (machine integers / binary64) used ONLY by the theorem that cross-checks the exact rational
    # float model against the kernel's primitive floats on a grid; Print Assumptions lists primitives under "Axioms:"
    allowed_axioms = {"PrimInt63.int", "PrimInt63.sub", "PrimInt63.lsr", "PrimInt63.lsl", "PrimInt63.lor", "PrimInt63.land",
                      "PrimInt63.eqb", "PrimFloat.float", "PrimFloat.opp", "PrimFloat.of_uint63", "PrimFloat.normfr_mantissa",
                      "PrimFloat.mul", "PrimFloat.div", "PrimFloat.ltb", "PrimFloat.eqb", "PrimFloat.abs",
                      "PrimFloat.frshiftexp"}
    design_ref = "DESIGN.md section 5, C20 (+ section 4 on floats)"
    technique = ("Coq theorems about an executable model of Scrollable/ScrollBar whose position arithmetic (_adjust_trim_top) is "
                 "re-translated from scrollable.py on every run; binary64 thumb arithmetic modelled as exact rationals with a proved "
                 "round-to-nearest-even function, cross-checked in Coq against the kernel's primitive floats; extracted-model "
                 "correspondence on recorded wrapped-widget observations; independent slice/scrollbar oracle")
    level_text = ("Proved in Coq, for every state (hence after every history), every behaviour of the wrapped widget (any canvas size, "
                  "cursor, key/mouse answers) and every view with height >= 1: render never raises; it shows exactly rows [p, p+height) "
                  "of the wrapped widget's full rendering with 0 <= p <= max(0, total - height), blank rows only when total < height, "
                  "blank columns only when narrower, columns cut only when wider; after EVERY render the position reported is that p, "
                  "no scroll action stays pending, re-rendering is stable.  HISTORIES: an invariant proved by induction over arbitrary "
                  "operation lists (renders/resizes, keys, mouse/wheel, set_scrollpos(any integer), content-size changes; bare or under a "
                  "ScrollBar) whose observations satisfy a boolean well-formedness predicate: after every render no exception, position "
                  "in range, nothing pending.  CURSOR FOLLOWING: when the wrapped widget moved its cursor, the chosen position keeps the "
                  "cursor row in the window and render shows the cursor and forwards keys.  SCROLLBAR over Scrollable, heights < 2^53: "
                  "drawn iff the content needs more rows than the view at the full width, never raises, wrapped widget gets maxcol - bar "
                  "width, parts >= 0 (thumb >= 1) summing to the height, thumb off the top iff p > 0 and thumb < height (true whenever "
                  "height >= 2, heights up to 2^49), top part monotone in p.  SCROLLBAR over ANY protocol widget (ListBox; absolute and "
                  "relative mode): the same bar facts for ALL protocol answers satisfying the protocol contract (boolean predicate); the "
                  "bar over a Scrollable is proved to be this generic bar.  CANVAS OBJECTS (through C02's CompositeCanvas, heap and grid "
                  "models, imported read-only): Scrollable.render written once over an abstract canvas; its sizes-only instance is "
                  "proved EQUAL to the model tied to the code; on C02's heap layer render never modifies a pre-existing list object - "
                  "the wrapped widget's canvas, whose shards list it shares, denotes the same value afterwards - for every state, size, "
                  "position and wrapped canvas; and for every well-formed wrapped canvas and view >= 1x1 render never raises and the "
                  "returned canvas's CELLS are exactly rows [p, p+height) x columns [0, width) of the wrapped canvas padded with blanks.  "
                  "Keys/mouse events the wrapped widget handles record no action and move nothing; unhandled wheel events move by one.  "
                  "FLOATS: exact rational model with PROVED round-to-nearest-even laws (no IEEE law assumed); agreement with hardware "
                  "doubles = kernel-checked grid against Coq primitive floats + exact correspondence with CPython every run.  "
                  "Every case stream is model+oracle (ListBox under ScrollBar runs the protocol sub-model on the recorded protocol "
                  "answers).  Correspondence/oracle only: row translation of mouse clicks, cache invalidation, the key->action table; that "
                  "ListBox's own answers satisfy the protocol contract is not proved here (C07 does not model get_scrollpos/rows_max): "
                  "the bar theorems are conditional on the boolean contract, which the oracle's exception/shape checks watch.  "
                  "Not covered: automove_cursor_on_scroll.")
    level_note = ("Trusted: Coq kernel (vm_compute for the finite grids), py2v translator + the syntactic pre-pass in "
                  "tools/py2v/mods/scrollable.py, ExtrOcamlBasic extraction + OCaml driver, the hand model of render/keypress/"
                  "mouse_event/ScrollBar.render (tied by exact correspondence on every run), the claim that CPython float ops are "
                  "correctly rounded binary64 (checked, not proved), the Python oracle.  Assumes box sizes >= 1x1 with maxcol > bar "
                  "width, a wrapped widget whose rows()/pack() equal its rendered canvas height and whose cursor lies inside its canvas.")
    rule = ("cases = (wrapped widget spec, ScrollBar options or none, force_forward, focus, history of render/resize, key, mouse, "
            "set_scrollpos, content-change ops); exhaustive small sweep (lines x heights x initial positions x pairs of keys/wheel "
            "events) plus random histories over Text (wrapping or not), Pile with Edit/SelectableIcon, fixed widgets wider/narrower "
            "than the view (including wider AND shorter), Pile/Columns compositions with unequal column heights and piles of fixed "
            "widgets (multi-shard canvases), and FIXED-only sheets (packed Columns/Pile compositions wider than the view, cut on the "
            "right at many view widths), each walked through every scroll position, selectable key-grabbing flow widgets with and without cursor, ListBox under ScrollBar; non-trivial = some "
            "render had to trim or drew a bar; distinct by hash of (case, outcome)")
    trusted_base = [
        "Coq 8.16.1 kernel (coqc; vm_compute for closed examples and the finite float/thumb grids)",
        "kernel primitives PrimFloat/Uint63 (native binary64 and 63-bit integers): used only in thumb_soft_float_agrees_with_primitive_floats",
        "tools/py2v translator + the syntactic pre-pass of tools/py2v/mods/scrollable.py (adjust_trim_top_gen regenerated from scrollable.py every run)",
        "extraction: ExtrOcamlBasic only; Z/positive/Q stay Coq datatypes; OCaml 4.13.1; tools/driver/driver.ml",
        "hand model of Scrollable.render/keypress/mouse_event/set_scrollpos/rows_max and ScrollBar.render/mouse_event in Model/Scrollable.v (validated by this correspondence, not proved against Python)",
        "Model/ScrollFloat.v as a description of CPython's binary64 arithmetic (correct rounding of int/int, float*int, float/int, round(), int()): validated against primitive floats in Coq and against CPython by the correspondence",
        "C02's models Model/Canvas.v, CanvasHeap.v, CanvasGrid.v and its relational/refinement lemmas (imported read-only; validated by C02's own correspondence) for the canvas-object theorems",
        "the recording patch on the wrapped widget, the twin wrapped widget used as the oracle's reference rendering (same spec, "
        "replayed keypress/mouse_event/content calls) and the Python oracle in harness/props/c20.py",
    ]
    assumptions = [
        "canvas-object theorems: the wrapped canvas is a C02 canvas value denoting a rectangular grid of clean rows (whole characters), cursor inside; references valid (vscoped)",
        "protocol ScrollBar theorems: the wrapped widget's answers satisfy the boolean contract proto_okb (0 <= get_scrollpos <= max 1 (rows_max - maxrow); first + visible <= length)",
        "view sizes are at least 1x1 and wider than the scrollbar (a 0-column wrapped widget is outside the domain: Text.render((0,)) raises)",
        "the wrapped widget is consistent: rows()/pack() agree with the canvas it renders, its cursor (if any) lies inside its canvas",
        "row counts and heights are below 2^53 (float conversion exact), no overflow/subnormal floats",
        "automove_cursor_on_scroll is not covered; ScrollBar's relative mode (ListBox) is exercised by the oracle only for not raising and for the bar shape",
        "the implementation's rendered canvas is held by the harness like MainLoop holds the screen canvas (one canvas), so CanvasCache hits occur only for an unchanged widget at the same size",
    ]

    def __init__(self):
        super().__init__()
        self._memo = (None, None)
        self._keep = None

    # ------------------------------------------------------------------ implementation
    def run_impl(self, case):
        import urwid
        urwid.set_encoding("utf-8")
        if case.get("kind") == "thumb":
            return self.run_thumb(case)
        if case.get("kind") == "listbox":
            return self.run_listbox(case)
        child = build_child(case["child"])
        rec = Rec(child)
        s = urwid.Scrollable(child, force_forward_keypress=bool(case.get("force")))
        bar = case.get("bar")
        sb = None
        if bar:
            sb = urwid.ScrollBar(s, thumb_char=THUMB, trough_char=TROUGH, side=bar[1], width=bar[0])
        top = sb or s
        focus = bool(case.get("focus", True))
        size = tuple(case["size"])
        fixed = is_fixed(case["child"])
        bw = max(1, bar[0]) if bar else 0
        outs, obs = [], []
        last_canvas_obs = {}      # size Scrollable.render was called with -> what the wrapped widget rendered then
        last_ssize = {}           # top-level size -> the size Scrollable.render was last called with for it
        last_bobs = {}
        s_sizes = []              # sizes Scrollable.render is called with (recorded even when its canvas comes from the cache)
        s_render = s.render

        def s_render_recorded(sz, focus=False):
            s_sizes.append(tuple(sz))
            return s_render(sz, focus)
        s.render = s_render_recorded

        def state():
            old = s._old_cursor_coords
            return {"pos": s.get_scrollpos(), "fwd": bool(s._forward_keypress), "act": ACT.get(s._scroll_action, -1),
                    "cached": s.rows_max(), "old": list(old) if old is not None else None}

        # The reference for "the wrapped widget's full rendering" is a TWIN of the wrapped widget: built from the same spec,
        # given exactly the calls (keypress, mouse_event, content changes) the wrapped widget received, and never handed to
        # Scrollable - so nothing the code under test (or the canvas cache it shares with the wrapped widget) does to the
        # wrapped widget's canvases can leak into the reference.
        twin = build_child(case["child"])

        def replay_on_twin():
            for name, a, _r in list(rec.calls):
                if name in ("keypress", "mouse_event"):
                    try:
                        getattr(twin, name)(*a)
                    except Exception:
                        pass

        def truth(w):
            """The wrapped widget's own full rendering at the sizes it may legitimately be given."""
            t = {}
            sizes = [()] if fixed else [(w,)] + ([(w - bw,)] if bar and w - bw >= 1 else [])
            for sz in sizes:
                try:
                    t[str(cw_of(sz))] = text_rows(twin.render(sz, focus))
                except Exception:    # the wrapped widget itself fails at this size
                    t[str(cw_of(sz))] = None
            return t

        for op in case["ops"]:
            del rec.calls[:]
            del s_sizes[:]
            k = op[0]
            if k == "render":
                size = (op[1], op[2])
                tr = truth(size[0])
                try:
                    canv = top.render(size, focus)
                    txt = text_rows(canv)
                    cur = canv.cursor
                    err = None
                except Exception as e:
                    err = type(e).__name__
                renders = [c for c in rec.calls if c[0] == "render"]
                rowcalls = [c for c in rec.calls if c[0] in ("rows", "pack")]
                key = (size, bool(bar))
                # a CanvasCache hit (ScrollBar's or Scrollable's canvas) makes no call on the wrapped widget: the canvas
                # shown is the one rendered when Scrollable.render last really ran at that size
                if s_sizes:
                    last_ssize[key] = s_sizes[-1]
                ssize = last_ssize.get(key)
                if renders:
                    r = renders[-1]
                    cob = dict(r[2])
                    cob["csize"] = cw_of(r[1][0])
                    cob["nrender"] = len(renders)
                    last_canvas_obs[ssize] = cob
                cob = last_canvas_obs.get(ssize)
                if rowcalls or key not in last_bobs:
                    def nrows(c):
                        return c[2][1] if c[0] == "pack" else c[2]
                    last_bobs[key] = [nrows(rowcalls[0]) if rowcalls else 0, nrows(rowcalls[1]) if len(rowcalls) > 1 else 0]
                rf, rw = last_bobs[key]
                intact = True
                if rec.last_canvas is not None:      # the wrapped widget's (cached, shared) canvas after Scrollable used it
                    cv, was = rec.last_canvas
                    try:
                        cu = cv.cursor
                        now = {"rows": cv.rows(), "cols": cv.cols(), "cursor": list(cu) if cu is not None else None,
                               "text": text_rows(cv)}
                    except Exception as e:
                        now = {"unreadable": type(e).__name__}
                    intact = now == was
                o = {"op": "render", "size": list(size), "rows_full": rf, "rows_w": rw, "canvas": cob,
                     "selectable": bool(child.selectable()), "truth": tr, "cache_hit": not renders, "intact": intact}
                obs.append(o)
                if err is not None:
                    outs.append({"op": "render", "err": err})
                    break
                if cob is None:
                    raise core.MachineryError("render without any wrapped-widget render call")
                self._keep = canv        # MainLoop keeps the last screen canvas alive; so do we
                res = {"op": "render", "err": None, "text": txt, "cursor": list(cur) if cur is not None else None,
                       "child_size": cob["csize"]}
                res.update(state())
                if sb is not None:
                    res["ow_size"] = list(sb._original_widget_size)
                outs.append(res)
            elif k == "key":
                try:
                    ret = top.keypress(size, op[1])
                    err = None
                except Exception as e:
                    err = type(e).__name__
                replay_on_twin()
                kc = [c for c in rec.calls if c[0] == "keypress"]
                gc = [c for c in rec.calls if c[0] == "get_cursor_coords"]
                o = {"op": "key", "has_gcc": hasattr(child, "get_cursor_coords"), "gcc": gc[0][2] if gc else None,
                     "called": bool(kc), "handled": bool(kc) and kc[0][2] is None,
                     "retkey": kc[0][2] if kc else None, "csize": cw_of(kc[0][1][0]) if kc else 0}
                obs.append(o)
                if err is not None:
                    outs.append({"op": "key", "err": err})
                    break
                res = {"op": "key", "err": None, "forwarded": bool(kc), "child_size": o["csize"], "ret_none": ret is None}
                res.update(state())
                outs.append(res)
            elif k == "mouse":
                try:
                    ret = top.mouse_event(size, "mouse press", op[1], op[2], op[3], focus)
                    err = None
                except Exception as e:
                    err = type(e).__name__
                replay_on_twin()
                mc = [c for c in rec.calls if c[0] == "mouse_event"]
                o = {"op": "mouse", "has_mouse": hasattr(child, "mouse_event"), "called": bool(mc),
                     "handled": bool(mc) and bool(mc[0][2]), "crow": mc[0][1][4] if mc else 0,
                     "csize": cw_of(mc[0][1][0]) if mc else 0}
                obs.append(o)
                if err is not None:
                    outs.append({"op": "mouse", "err": err})
                    break
                res = {"op": "mouse", "err": None, "crow": o["crow"], "child_size": o["csize"], "ret": bool(ret)}
                res.update(state())
                outs.append(res)
            elif k == "setpos":
                s.set_scrollpos(op[1])
                obs.append({"op": "setpos"})
                res = {"op": "setpos", "err": None}
                res.update(state())
                outs.append(res)
            elif k == "content":
                change_content(child, op[1])
                change_content(twin, op[1])
                obs.append({"op": "content"})
                outs.append({"op": "content"})
            else:
                raise core.MachineryError("unknown op " + str(k))
        self._keep = None
        self._memo = (core.canon(case), obs)
        return {"outs": outs}

    # ---- sub-check: thumb arithmetic alone, on arbitrary (also large) inputs
    @staticmethod
    def py_thumb(maxrow, pos, posmax, a, b):
        """Verbatim copy of the arithmetic lines of ScrollBar.render (kept in sync by extra_checks)."""
        thumb_weight = min(1.0, a / max(1, b))
        thumb_height = max(1, round(thumb_weight * maxrow))
        top_weight = float(pos) / max(1, posmax)
        top_height = int((maxrow - thumb_height) * top_weight)
        if top_height == 0 and top_weight > 0:
            top_height = min(1, maxrow - thumb_height)
        bottom_height = maxrow - thumb_height - top_height
        return [top_height, thumb_height, bottom_height]

    def run_thumb(self, case):
        """Drives the real ScrollBar.render with a stub scrolling widget reporting (rows_max, pos)."""
        import urwid

        class Stub(urwid.Widget):
            _sizing = frozenset([urwid.BOX])
            _selectable = False

            def __init__(self, rows, pos):
                super().__init__()
                self.r, self.p = rows, pos

            def render(self, size, focus=False):
                return urwid.SolidCanvas(" ", size[0], size[1])

            def get_scrollpos(self, size=None, focus=False):
                return self.p

            def rows_max(self, size=None, focus=False):
                return self.r
        h, rows, pos = case["maxrow"], case["rows"], case["pos"]
        if h > 400:     # too tall to render: evaluate the copied arithmetic only
            return {"parts": self.py_thumb(h, pos, rows - h, h, rows), "rendered": False}
        sb = urwid.ScrollBar(Stub(rows, pos), thumb_char=THUMB, trough_char=TROUGH)
        try:
            txt = text_rows(sb.render((2, h), False))
        except Exception as e:
            return {"err": type(e).__name__}
        col = "".join(r[-1] for r in txt)
        m = re.fullmatch(r"(\.*)(#*)(\.*)", col)
        if not m:
            return {"parts": None, "bar": col}
        return {"parts": [len(m.group(1)), len(m.group(2)), len(m.group(3))], "rendered": True}

    def run_listbox(self, case):
        """ScrollBar over a ListBox.  Every call ScrollBar.render makes on the ListBox's scrolling protocol is recorded
        (instance-level patch): the answers are the observations the model ([pb_render]) is run on."""
        import urwid
        from urwid.widget.scrollable import SupportsRelativeScroll

        def item(j, n):
            txt = "\n".join(f"i{j}l{q}" for q in range(n))
            return urwid.SelectableIcon(txt, 0) if case.get("sel") else urwid.Text(txt)
        lb = urwid.ListBox(urwid.SimpleFocusListWalker([item(j, n) for j, n in enumerate(case["items"])]))
        calls = []

        def patch(name):
            orig = getattr(lb, name)

            def wrapper(*a, **k):
                r = orig(*a, **k)
                if name == "render":
                    calls.append((name, a, {"text": text_rows(r), "rows": r.rows(), "cols": r.cols()}))
                else:
                    calls.append((name, a, r))
                return r
            setattr(lb, name, wrapper)
        for name in ("render", "require_relative_scroll", "get_visible_amount", "get_first_visible_pos", "rows_max",
                     "get_scrollpos"):
            patch(name)
        sb = urwid.ScrollBar(lb, thumb_char=THUMB, trough_char=TROUGH, side=case["side"], width=case["width"])
        relcap = isinstance(lb, SupportsRelativeScroll) and any(hasattr(lb, a) for a in ("__length_hint__", "__len__"))
        outs, obs = [], []
        size = tuple(case["size"])
        for op in case["ops"]:
            del calls[:]
            try:
                if op[0] == "render":
                    size = (op[1], op[2])
                    txt = text_rows(sb.render(size, True))
                    self._keep = None

                    def answers(name):
                        return [c[2] for c in calls if c[0] == name]
                    rm = answers("rows_max")
                    rr = answers("require_relative_scroll")
                    rel = bool(relcap and rr and rr[0])
                    renders = [c for c in calls if c[0] == "render"]
                    o = {"op": "render", "relcap": bool(relcap), "reqrel": bool(rr and rr[0]), "len": len(case["items"]),
                         "visible": (answers("get_visible_amount") or [0])[0], "first": (answers("get_first_visible_pos") or [0])[0],
                         # relative mode asks rows_max only in its corner case; then, as in the absolute mode, first for the
                         # full size and (when a bar is needed) for the reduced size
                         "rows_full": rm[0] if rm else 0, "rows_w": rm[1] if len(rm) > 1 else 0,
                         "pos": (answers("get_scrollpos") or [0])[0],
                         "lb": renders[-1][2] if renders else None,
                         "lb_w": renders[-1][1][0][0] if renders else None, "relative": rel}
                    obs.append(o)
                    outs.append({"op": "render", "err": None, "text": txt, "total": sum(case["items"]), "child_w": o["lb_w"]})
                elif op[0] == "key":
                    sb.keypress(size, op[1])
                    obs.append({"op": "key"})
                    outs.append({"op": "key", "err": None})
                elif op[0] == "mouse":
                    sb.mouse_event(size, "mouse press", op[1], op[2], op[3], True)
                    obs.append({"op": "mouse"})
                    outs.append({"op": "mouse", "err": None})
            except Exception as e:
                obs.append({"op": op[0], "failed": True})
                outs.append({"op": op[0], "err": type(e).__name__})
                break
        self._memo = (core.canon(case), obs)
        return {"outs": outs}

    # ------------------------------------------------------------------ model wire format
    def observations(self, case):
        if self._memo[0] != core.canon(case):
            self.run_impl(case)
        return self._memo[1]

    def encode(self, case):
        if case.get("kind") == "thumb":
            h, rows, pos = case["maxrow"], case["rows"], case["pos"]
            return [9, h, pos, rows - h, h, rows]
        if case.get("kind") == "listbox":
            obs = self.observations(case)
            recs = []
            for op, o in zip(case["ops"], obs):
                if op[0] == "render" and not o.get("failed"):
                    recs += [op[1], op[2], int(o["relcap"]), int(o["reqrel"]), o["len"], o["visible"], o["first"],
                             o["rows_full"], o["rows_w"], o["pos"]]
            return [8, case["width"], len(recs) // 10] + recs
        obs = self.observations(case)
        bar = case.get("bar")
        l = [1 if bar else 0, bar[0] if bar else 0, 1 if case.get("force") else 0,
             1 if is_fixed(case["child"]) else 0]
        size = tuple(case["size"])
        it = iter(obs)
        for op in case["ops"]:
            o = next(it, None)
            if o is None:
                break
            k = op[0]
            if k == "render":
                size = (op[1], op[2])
                c = o["canvas"]
                if c is None:
                    break
                l += [1, op[1], op[2], o["rows_full"], c["cols"], c["rows"]] + coords_ints(c["cursor"]) + \
                     [1 if o["selectable"] else 0, o["rows_w"]]
            elif k == "key":
                l += [2, size[0], KEYCMD.get(op[1], 0), 1 if o["has_gcc"] else 0] + coords_ints(o["gcc"]) + \
                     [1 if o["handled"] else 0, KEYCMD.get(o["retkey"], 0)]
            elif k == "mouse":
                l += [3, size[0], op[1], op[3], 1 if o["has_mouse"] else 0, 1 if o["handled"] else 0]
            elif k == "setpos":
                l += [4, op[1]]
        return l

    def decode(self, case, ints):
        if case.get("kind") == "thumb":
            res = {"parts": list(ints[:3]), "rendered": case["maxrow"] <= 400}
            return res
        if case.get("kind") == "listbox":
            return self.decode_listbox(case, ints)
        obs = self.observations(case)
        bar = case.get("bar")
        it = iter(ints)
        outs = []

        def coords():
            f = next(it)
            return None if f == 0 else [next(it), next(it)]

        def state():
            st = {"pos": next(it), "fwd": bool(next(it)), "act": next(it), "cached": next(it)}
            st["old"] = coords()
            return st
        try:
            for op, o in zip(case["ops"], obs):
                k = op[0]
                if k == "content":
                    outs.append({"op": "content"})
                    continue
                tag = next(it)
                if k == "render":
                    if tag != 1:
                        return {"malformed": ints[:60]}
                    e = next(it)
                    if e:
                        outs.append({"op": "render", "err": ERR.get(e, "?")})
                        break
                    cw = next(it)
                    hasbar, sbw, top, thumb, bottom = next(it), next(it), next(it), next(it), next(it)
                    vtop, shown, blank, padr, trimr = next(it), next(it), next(it), next(it), next(it)
                    cur = coords()
                    st = state()
                    oww, owh = next(it), next(it)
                    c = o["canvas"]
                    keep = c["cols"] - trimr
                    rows = []
                    for i in range(shown):
                        j = vtop + i
                        rows.append((c["text"][j][:keep] if 0 <= j < len(c["text"]) else "<?>") + " " * padr)
                    rows += [" " * (keep + padr)] * blank
                    if hasbar:
                        marks = [TROUGH] * top + [THUMB] * thumb + [TROUGH] * bottom
                        if len(marks) != len(rows):
                            rows.append("<bar rows %d != body rows %d>" % (len(marks), len(rows)))
                        elif bar[1] == "left":
                            rows = [m * sbw + r for m, r in zip(marks, rows)]
                        else:
                            rows = [r + m * sbw for m, r in zip(marks, rows)]
                        if cur is not None and bar[1] == "left":
                            cur = [cur[0] + sbw, cur[1]]
                    res = {"op": "render", "err": None, "text": rows, "cursor": cur, "child_size": cw}
                    res.update(st)
                    if bar:
                        res["ow_size"] = [oww, owh]
                    outs.append(res)
                elif k == "key":
                    fw, cw, rn = next(it), next(it), next(it)
                    res = {"op": "key", "err": None, "forwarded": bool(fw), "child_size": cw, "ret_none": bool(rn)}
                    res.update(state())
                    outs.append(res)
                elif k == "mouse":
                    crow, cw, ret = next(it), next(it), next(it)
                    res = {"op": "mouse", "err": None, "crow": crow, "child_size": cw, "ret": bool(ret)}
                    res.update(state())
                    outs.append(res)
                elif k == "setpos":
                    res = {"op": "setpos", "err": None}
                    res.update(state())
                    outs.append(res)
        except StopIteration:
            return {"malformed": ints[:60]}
        return {"outs": outs}

    def decode_listbox(self, case, ints):
        """Model reply (child width, bar parts per render) -> the canvas text: the ListBox's own recorded canvas beside
        the bar column the model predicts."""
        obs = self.observations(case)
        it = iter(ints)
        outs = []
        try:
            for op, o in zip(case["ops"], obs):
                if o.get("failed"):
                    # the implementation raised here; the model raises only for a malformed bar
                    if op[0] == "render":
                        e = None
                        outs.append({"op": "render", "err": "<model has no answer: the implementation raised>"})
                    else:
                        outs.append({"op": op[0], "err": "<the implementation raised>"})
                    break
                if op[0] != "render":
                    outs.append({"op": op[0], "err": None})
                    continue
                e, cw, hasbar, sbw, top, thumb, bottom = (next(it) for _ in range(7))
                if e:
                    outs.append({"op": "render", "err": ERR.get(e, "?")})
                    break
                body = list(o["lb"]["text"]) if o["lb"] else []
                if hasbar:
                    marks = [TROUGH] * top + [THUMB] * thumb + [TROUGH] * bottom
                    if len(marks) != len(body):
                        rows = body + ["<bar rows %d != body rows %d>" % (len(marks), len(body))]
                    elif case["side"] == "left":
                        rows = [m * sbw + r for m, r in zip(marks, body)]
                    else:
                        rows = [r + m * sbw for m, r in zip(marks, body)]
                else:
                    rows = body
                outs.append({"op": "render", "err": None, "text": rows, "total": sum(case["items"]), "child_w": cw})
        except StopIteration:
            return {"malformed": ints[:60]}
        return {"outs": outs}

    # ------------------------------------------------------------------ oracle (from the property text)
    @staticmethod
    def parse_bar(marks):
        """marks: list of per-row bar strings.  Returns (top, thumb, bottom) or None when not trough*thumb*trough*."""
        col = []
        for m in marks:
            if m and set(m) == {THUMB}:
                col.append("#")
            elif m and set(m) == {TROUGH}:
                col.append(".")
            else:
                return None
        mm = re.fullmatch(r"(\.*)(#*)(\.*)", "".join(col))
        if not mm:
            return None
        return len(mm.group(1)), len(mm.group(2)), len(mm.group(3))

    def oracle(self, case, res):
        """Never raises: a result the judge cannot read is itself reported as a violation message."""
        try:
            return self.judge(case, res)
        except core.MachineryError:
            raise
        except Exception as e:      # malformed / unexpected implementation result
            import traceback
            where = traceback.extract_tb(e.__traceback__)[-1]
            return [f"implementation result could not be judged ({type(e).__name__}: {str(e)[:80]} at c20.py:{where.lineno}); "
                    f"ops {[o[0] for o in case.get('ops', [])][:12]}"]

    def judge(self, case, res):
        if case.get("kind") == "thumb":
            return self.oracle_thumb(case, res)
        if case.get("kind") == "listbox":
            return self.oracle_listbox(case, res)
        obs = self.observations(case)
        msgs = []
        bar = case.get("bar")
        bw = max(1, bar[0]) if bar else 0
        fixed = is_fixed(case["child"])
        mono = {}          # (size, total, child width) -> [(p, top)]
        prev_render = None  # (index, size, total, p, fullrows) of the last successful render
        pending = []       # ops since the last render
        for i, (op, o, r) in enumerate(zip(case["ops"], obs, res["outs"])):
            k = op[0]
            tag = f"op#{i} {k}"
            if r.get("err"):
                if k == "render" and (o["truth"].get(str(-1 if fixed else op[1])) is None):
                    return msgs     # the wrapped widget itself cannot render at this size: outside the domain
                msgs.append(f"{tag}: raised {r['err']}")
                return msgs
            if k == "render":
                w, h = op[1], op[2]
                if not o.get("intact", True):
                    msgs.append(f"{tag}: Scrollable.render modified the wrapped widget's own canvas (rows/cells/cursor of the "
                                f"canvas the wrapped widget returned differ after the call)")
                tr = o["truth"]
                full_w = tr.get(str(-1 if fixed else w))
                if full_w is None:
                    return msgs
                if any(len(set(len(x) for x in t)) > 1 for t in tr.values() if t):
                    return msgs     # the wrapped widget's own canvas is ragged (not a rectangle): outside the domain
                want_bar = bool(bar) and len(full_w) > h
                cwid = -1 if fixed else (w - bw if want_bar else w)
                full = tr.get(str(cwid))
                if full is None:
                    return msgs
                bodyw = w - bw if want_bar else w
                txt = r["text"]
                if len(txt) != h or any(len(t) != w for t in txt):
                    msgs.append(f"{tag}: rendered canvas is not {w}x{h}")
                    return msgs
                # --- the wrapped widget receives the view width minus the bar width
                if r["child_size"] != cwid and not o["cache_hit"]:
                    msgs.append(f"{tag}: wrapped widget was given width {r['child_size']}, expected {cwid} "
                                f"(view width {w}, bar {'drawn, width %d' % bw if want_bar else 'not drawn'})")
                # --- bar drawn exactly when the content has more rows than the view
                if want_bar:
                    if bar[1] == "left":
                        marks, body = [t[:bw] for t in txt], [t[bw:] for t in txt]
                    else:
                        marks, body = [t[bodyw:] for t in txt], [t[:bodyw] for t in txt]
                    parts = self.parse_bar(marks)
                    if parts is None:
                        msgs.append(f"{tag}: content has {len(full_w)} rows > height {h} but no well-formed scrollbar column: {marks}")
                        return msgs
                else:
                    body, parts = txt, None
                    if bar and any(set(t[-bw:]) <= {THUMB, TROUGH} or set(t[:bw]) <= {THUMB, TROUGH} for t in txt):
                        msgs.append(f"{tag}: content fits ({len(full_w)} rows <= height {h}) but a scrollbar is drawn")
                total = len(full)
                p = r["pos"]
                pmax = max(0, total - h)

                def expect(q):
                    rows = [(x[:bodyw] + " " * max(0, bodyw - len(x))) for x in full[q:q + h]]
                    return rows + [" " * bodyw] * (h - len(rows))
                if not 0 <= p <= pmax:
                    shown = [q for q in range(0, pmax + 1) if expect(q) == body]
                    if total <= h:
                        msgs.append(f"{tag}: content fits the view (total {total} <= height {h}) but the reported position is {p}, "
                                    f"outside [0, 0]" + (f" (the view shows position {shown[0]})" if shown else ""))
                    else:
                        msgs.append(f"{tag}: reported position {p} outside [0, {pmax}] (total {total}, height {h})")
                    p = shown[0] if shown else None
                elif expect(p) != body:
                    shown = [q for q in range(0, pmax + 1) if expect(q) == body]
                    if shown:
                        msgs.append(f"{tag}: reports position {p} but shows rows from {shown[0]} (total {total}, height {h})")
                    else:
                        msgs.append(f"{tag}: view is not rows [{p}, {p}+{h}) of the wrapped widget's rendering padded with blanks: "
                                    f"{body} vs {expect(p)}")
                    p = shown[0] if shown else None
                if parts is not None and p is not None:
                    top, thumb, bottom = parts
                    # thumb leaves the top exactly when the first row is out of view (when the thumb has room to move)
                    if top > 0 and p == 0:
                        msgs.append(f"{tag}: position 0 but the thumb is {top} rows below the top")
                    if top == 0 and p > 0 and thumb < h:
                        msgs.append(f"{tag}: first row scrolled out (position {p}) but the thumb touches the top (thumb {thumb} of {h})")
                    key = (w, h, total, cwid)
                    for (p0, t0) in mono.get(key, []):
                        if (p0 <= p and t0 > top) or (p0 >= p and t0 < top):
                            msgs.append(f"{tag}: thumb moved against the position: position {p0} top {t0}, position {p} top {top}")
                            break
                    mono.setdefault(key, []).append((p, top))
                # --- handled keys / mouse events are not used for scrolling
                if prev_render is not None and p is not None and prev_render[3] is not None and pending \
                        and all(x[0] for x in pending):
                    _, psize, ptotal, pp, pfull = prev_render
                    cur = (o["canvas"] or {}).get("cursor")
                    cursor_visible = cur is None or pp <= cur[1] < pp + h
                    if psize == (w, h) and ptotal == total and pfull == full and cursor_visible and p != pp:
                        msgs.append(f"{tag}: every event since the last render was handled by the wrapped widget, yet the position "
                                    f"moved {pp} -> {p}")
                prev_render = (i, (w, h), total, p, full)
                pending = []
            elif k == "key":
                handled = o["called"] and o["handled"]
                if handled and not r["ret_none"]:
                    msgs.append(f"{tag}: wrapped widget handled {op[1]!r} but keypress returned it as unhandled")
                pending.append((handled,))
            elif k == "mouse":
                pending.append((o["called"] and o["handled"],))
            else:
                pending.append((False,))
        return msgs

    def oracle_thumb(self, case, res):
        h, rows, pos = case["maxrow"], case["rows"], case["pos"]
        if "err" in res:
            return [f"thumb: ScrollBar.render raised {res['err']} for height {h}, rows {rows}, position {pos}"]
        parts = res.get("parts")
        if parts is None:
            return [f"thumb: bar column is not trough*thumb*trough*: {res.get('bar')}"]
        top, thumb, bottom = parts
        msgs = []
        if min(parts) < 0 or sum(parts) != h:
            msgs.append(f"thumb: parts {parts} are not non-negative with sum {h}")
        if top > 0 and pos == 0:
            msgs.append(f"thumb: position 0 but top part is {top}")
        if top == 0 and pos > 0 and thumb < h:
            msgs.append(f"thumb: position {pos} > 0 but the thumb touches the top (parts {parts})")
        return msgs

    def oracle_listbox(self, case, res):
        msgs = []
        size = tuple(case["size"])
        bw = max(1, case["width"])
        for i, (op, r) in enumerate(zip(case["ops"], res["outs"])):
            if r.get("err"):
                msgs.append(f"op#{i} {op[0]}: ListBox under ScrollBar raised {r['err']}")
                return msgs
            if op[0] != "render":
                continue
            w, h = op[1], op[2]
            txt = r["text"]
            if len(txt) != h or any(len(t) != w for t in txt):
                msgs.append(f"op#{i} render: canvas is not {w}x{h}")
                continue
            marks = [t[:bw] for t in txt] if case["side"] == "left" else [t[w - bw:] for t in txt]
            parts = self.parse_bar(marks)
            if r["total"] > h and parts is None:
                msgs.append(f"op#{i} render: {r['total']} rows > height {h} but no well-formed scrollbar column: {marks}")
            if parts is not None and parts[1] > 0:
                body0 = txt[0][bw:] if case["side"] == "left" else txt[0][:w - bw]
                # the first row of the first item is in the top row: nothing is scrolled out above (holds in the absolute
                # and in the relative mode) - the thumb must touch the top
                if body0.startswith("i0l0") and parts[0] > 0:
                    msgs.append(f"op#{i} render: the first row of the content is shown in the top row but the thumb is "
                                f"{parts[0]} rows below the top (parts {list(parts)})")
        return msgs

    # ------------------------------------------------------------------ bookkeeping
    def nontrivial(self, case, res):
        if case.get("kind") == "thumb":
            return True
        if case.get("kind") == "listbox":
            return True
        return any(o.get("op") == "render" and (o.get("pos", 0) != 0 or any(THUMB in t for t in o.get("text", [])))
                   for o in res["outs"])

    def signature(self, case, msg):
        return re.sub(r"-?\d+", "N", re.sub(r"\[.*?\]|'.*?'", "_", msg))[:120]

    def distribution(self, case, res, dist):
        def inc(k):
            dist[k] = dist.get(k, 0) + 1
        kind = case.get("kind") or case["child"]["kind"]
        inc("child:" + kind)
        if kind == "listbox":
            for o in self.observations(case):
                if o.get("op") == "render" and not o.get("failed"):
                    inc("listbox-render:" + ("relative" if o["relative"] else "absolute"))
            return
        if kind == "thumb":
            return
        inc("bar:" + (case["bar"][1] + str(case["bar"][0]) if case.get("bar") else "none"))
        for op, o in zip(case["ops"], res["outs"]):
            inc("op:" + op[0])
            if op[0] == "render" and not o.get("err"):
                if any(THUMB in t for t in o["text"]):
                    inc("render:bar-drawn")
                if o["pos"] > 0:
                    inc("render:scrolled")
            if op[0] == "key" and o.get("forwarded"):
                inc("key:forwarded")
                if o.get("ret_none") and o.get("act") == 0:
                    inc("key:handled-by-child")

    def shrink_candidates(self, case):
        if case.get("kind"):
            return
        ops = case["ops"]
        for i in range(len(ops)):
            if ops[i][0] == "render" and sum(1 for o in ops if o[0] == "render") == 1:
                continue
            c = dict(case)
            c["ops"] = ops[:i] + ops[i + 1:]
            yield c
        if case.get("bar"):
            c = dict(case)
            c["bar"] = None
            yield c
        ch = case["child"]
        if ch["kind"] == "text" and len(ch["lines"]) > 1:
            c = dict(case)
            c["child"] = dict(ch, lines=ch["lines"][:-1])
            yield c

    # ------------------------------------------------------------------ generators
    @staticmethod
    def text_child(n, long=False):
        if long:
            return {"kind": "text", "lines": [f"w{i} x{i} y{i} z{i}" for i in range(n)]}
        return {"kind": "text", "lines": [f"L{i}" for i in range(n)]}

    EVENTS = [None, "up", "down", "page up", "page down", "home", "end", "w4", "w5"]

    def sweep_case(self, total, h, init, evs, bar):
        ops = [["setpos", init], ["render", 4, h]]
        for e in evs:
            if e is None:
                continue
            if e in ("w4", "w5"):
                ops.append(["mouse", int(e[1]), 0, 0])
            else:
                ops.append(["key", e])
            ops.append(["render", 4, h])
        return {"child": self.text_child(total), "bar": bar, "force": False, "focus": True, "size": [4, h], "ops": ops}

    def cases(self, rng, tier):
        quick = tier == "quick"
        totals = [0, 1, 3, 4, 7] if quick else range(0, 8)
        heights = [1, 2, 3, 5] if quick else range(1, 6)
        inits = [-9, -1, 0, 2, 9] if quick else range(-9, 10)
        n = 0
        for total in totals:
            for h in heights:
                for init in inits:
                    for evs in itertools.product(self.EVENTS, repeat=2):
                        n += 1
                        if quick and n % 2:
                            continue
                        bar = [1, "right"] if (n // 2) % 3 else ([2, "left"] if (n // 2) % 2 else None)
                        if not quick:
                            bar = [[1, "right"], [1, "right"], [2, "left"], None][n % 4]
                        yield self.sweep_case(total, h, init, evs, bar)
        for _ in range(1500 if quick else 20000):
            yield self.random_case(rng)
        yield from self.tree_cases(rng, tier)
        yield from self.sheet_cases(rng, tier)
        yield from self.shrink_view_cases(rng, tier)
        yield from self.wide_short_fixed_cases(rng, tier)
        # thumb arithmetic alone: exhaustive small grid + boundary-biased large values
        hmax, rmax = (12, 40) if quick else (24, 90)
        for h in range(1, hmax + 1):
            for rows in range(h + 1, rmax + 1):
                for pos in sorted({0, 1, 2, (rows - h) // 2, rows - h - 1, rows - h} & set(range(0, rows - h + 1))):
                    yield {"kind": "thumb", "maxrow": h, "rows": rows, "pos": pos}
        for _ in range(800 if quick else 8000):
            h = rng.choice([1, 2, 3, 7, 49, 50, 99, 100, 255, 1000, 4097, 10 ** 6, 2 ** 31, 2 ** 40 + 1, rng.randrange(1, 10 ** 4)])
            rows = h + rng.choice([1, 1, 2, 3, h, h + 1, 2 * h, 7 * h + 3, rng.randrange(1, 10 ** 6)])
            pos = rng.choice([0, 1, rows - h, rows - h - 1 if rows - h > 1 else 0, rng.randrange(0, rows - h + 1)])
            yield {"kind": "thumb", "maxrow": h, "rows": rows, "pos": pos}
        for _ in range(500 if quick else 3000):
            yield self.random_listbox(rng)

    # ---- multi-shard content: Pile/Columns compositions with unequal column heights, piles of fixed widgets
    @staticmethod
    def tree_shapes():
        def t(tag, n):
            return ["t", [f"{tag}{i}" for i in range(n)]]

        def ones(tag, n):
            return ["pile", [["t", [f"{tag}{i}"]] for i in range(n)]]
        return [
            ["pile", [t("h", 1), ["cols", [ones("L", 6), t("R", 8)]], t("z", 1)]],
            ["pile", [t("h", 2), ["cols", [t("R", 7), ones("L", 3)]], t("z", 2)]],
            ["cols", [ones("a", 5), t("b", 9), ones("c", 2)]],
            ["cols", [t("a", 3), ["pile", [t("b", 2), ["cols", [ones("c", 4), t("d", 6)]]]]], 1],
            ["pile", [["cols", [ones("a", 3), t("b", 5)]], ["cols", [t("c", 6), ones("d", 2)]]]],
            ["pile", [ones("a", 2), ["cols", [t("b", 4), ones("c", 4), t("d", 1)]], ones("e", 3)]],
            # packed fixed children of EQUAL width (Pile does not pad narrower fixed children: its own canvas is ragged then)
            ["fpile", [["f", 5, 4], ["f", 5, 3], ["f", 5, 5]]],
            ["fpile", [["f", 9, 2], ["f", 9, 6]]],
        ]

    # ---- FIXED-only multi-shard content (cut on the right when wider than the view)
    @staticmethod
    def sheet_shapes():
        def t(tag, n):
            return ["t", [f"{tag}{i:02d}" for i in range(n)]]

        def ones(tag, n, wide=""):
            return ["fpile", [["t", [f"{tag}{i:02d}{wide}"]] for i in range(n)]]
        return [
            ["sheet", ["pcols", [t("L", 9), ones("right-", 9)], 1]],
            ["sheet", ["pcols", [ones("a", 4), t("M", 7), ones("c", 5, "xyz")]]],
            ["sheet", ["pcols", [t("T", 6), ones("u", 3, "-wide-cell"), t("V", 8)], 2]],
            ["sheet", ["pcols", [["f", 4, 6], ["fpile", [["f", 5, 2], ["f", 5, 3]]], t("Z", 4)], 1]],
            ["sheet", ["fpile", [["pcols", [t("p", 3), ones("q", 3, "qq")]], ["pcols", [t("r", 4), ones("s", 2, "ss")]]]]],
        ]

    def random_sheet(self, rng):
        def t(tag, n):
            return ["t", [f"{tag}{i:02d}" for i in range(n)]]

        def ones(tag, n, wide):
            return ["fpile", [["t", [f"{tag}{i:02d}{wide}"]] for i in range(n)]]

        def cell(tag):
            c = rng.random()
            if c < 0.4:
                return t(tag, rng.choice([2, 4, 6, 9]))
            if c < 0.85:
                return ones(tag, rng.choice([1, 2, 3, 5, 8]), rng.choice(["", "x", "-long-one"]))
            return ["f", rng.choice([2, 4, 7]), rng.choice([2, 3, 6])]
        return ["sheet", ["pcols", [cell(x) for x in "abcd"[:rng.choice([2, 2, 3, 4])]], rng.choice([0, 1, 2])]]

    def shrink_view_cases(self, rng, tier):
        """Composite content (Pile/Columns: a CompositeCanvas filling the view width) first shown in a view TALLER than it
        (bottom padding), then - the previous screen canvas still alive, as under MainLoop - in views with fewer rows,
        scrolled to the end and page-wise: blank rows may appear only while the content is shorter than the CURRENT view."""
        def total(tree, w):
            try:
                return build_tree(tree).rows((w,))
            except Exception:
                return 6
        trees = [t for t in self.tree_shapes() if t[0] != "fpile"]
        trees += [["pile", [["t", [f"a{i}"]] for i in range(5)]], ["cols", [["t", ["x0", "x1", "x2"]], ["t", ["y0", "y1", "y2", "y3"]]]]]
        trees += [self.random_tree(rng) for _ in range(40 if tier == "quick" else 400)]
        for i, tree in enumerate(trees):
            if tree[0] == "fpile":
                continue
            w = [8, 6, 11][i % 3]
            bar = [None, None, [1, "right"]][i % 3]
            ww = w + (1 if bar else 0)
            n = total(tree, w)
            ops = [["render", ww, n + 3], ["render", ww, max(1, n - 2)], ["key", "end"], ["render", ww, max(1, n - 2)],
                   ["render", ww, n + 1], ["render", ww, 2], ["key", "page down"], ["render", ww, 2], ["key", "page down"],
                   ["render", ww, 2], ["key", "end"], ["render", ww, 2], ["render", ww, n + 2], ["render", ww, max(1, n // 2)],
                   ["setpos", -1], ["render", ww, max(1, n // 2)]]
            yield {"child": {"kind": "tree", "tree": tree}, "bar": bar, "force": False, "focus": True, "size": [ww, n + 3], "ops": ops}

    def sheet_cases(self, rng, tier):
        quick = tier == "quick"
        for i, tree in enumerate(self.sheet_shapes()):
            for h in ([2, 4] if quick else [1, 2, 3, 4, 6]):
                for w in ([3, 6, 9, 14] if quick else [1, 2, 3, 4, 5, 6, 8, 9, 11, 14, 17]):
                    bar = [None, [1, "right"], [1, "left"]][(i + h + w) % 3]
                    yield self.walk_case(tree, w + (1 if bar else 0), h, bar, 9)
        for _ in range(120 if quick else 1500):
            tree = self.random_sheet(rng)
            bar = rng.choice([None, None, [1, "right"], [2, "left"]])
            bw = bar[0] if bar else 0
            yield self.walk_case(tree, bw + rng.choice([1, 2, 3, 5, 7, 10, 13]), rng.choice([1, 2, 3, 4, 5]), bar, rng.choice([5, 9]))

    def random_tree(self, rng):
        def t(tag, n):
            return ["t", [f"{tag}{i}" for i in range(n)]]

        def ones(tag, n):
            return ["pile", [["t", [f"{tag}{i}"]] for i in range(n)]]

        def cell(tag):
            return ones(tag, rng.choice([1, 2, 3, 5, 7])) if rng.random() < 0.5 else t(tag, rng.choice([1, 2, 4, 6, 9]))
        shape = rng.choice(["pile-cols", "cols", "two-cols", "fpile", "nested"])
        if shape == "pile-cols":
            return ["pile", [t("h", rng.choice([0, 1, 2])), ["cols", [cell("L"), cell("R")], rng.choice([0, 0, 1])],
                             t("z", rng.choice([1, 2, 3]))]]
        if shape == "cols":
            return ["cols", [cell(x) for x in "abc"[:rng.choice([2, 2, 3])]], rng.choice([0, 1])]
        if shape == "two-cols":
            return ["pile", [["cols", [cell("a"), cell("b")]], ["cols", [cell("c"), cell("d")]]]]
        if shape == "nested":
            return ["cols", [cell("a"), ["pile", [t("b", rng.choice([1, 2])), ["cols", [cell("c"), cell("d")]]]]]]
        fw = rng.choice([1, 2, 3, 5, 8, 12])
        return ["fpile", [["f", fw, rng.choice([1, 2, 3, 5])] for _ in range(rng.choice([2, 3, 4]))]]

    def walk_case(self, tree, w, h, bar, n):
        """Every scroll position in turn (set_scrollpos, then line by line), a render after each."""
        ops = [["render", w, h]]
        for p in range(1, n + 1):
            ops += [["setpos", p], ["render", w, h]]
        ops += [["key", "home"], ["render", w, h]]
        for _ in range(n):
            ops += [["key", "down"], ["render", w, h]]
        return {"child": {"kind": "tree", "tree": tree}, "bar": bar, "force": False, "focus": True, "size": [w, h], "ops": ops}

    def tree_cases(self, rng, tier):
        quick = tier == "quick"
        for i, tree in enumerate(self.tree_shapes()):
            for h in ([2, 4] if quick else [1, 2, 3, 4, 6]):
                for w in ([8] if quick else [6, 8, 13]):
                    yield self.walk_case(tree, w, h, [None, [1, "right"], [1, "left"]][(i + h) % 3], 12)
        for _ in range(120 if quick else 1500):
            tree = self.random_tree(rng)
            bar = rng.choice([None, None, [1, "right"], [2, "left"]])
            bw = bar[0] if bar else 0
            yield self.walk_case(tree, bw + rng.choice([4, 6, 8, 11]), rng.choice([1, 2, 3, 4, 5]), bar, rng.choice([6, 10, 14]))

    def wide_short_fixed_cases(self, rng, tier):
        """Fixed content wider than the view AND with fewer rows than it (cut on the right, blank rows below)."""
        for cols, rows, w, h in [(9, 2, 5, 3), (12, 1, 4, 2), (7, 3, 6, 9), (20, 5, 10, 8), (6, 2, 5, 3), (9, 4, 8, 5)]:
            for bar in (None, [1, "right"]):
                bw = 1 if bar else 0
                yield {"child": {"kind": "fixed", "cols": cols, "rows": rows}, "bar": bar, "force": False, "focus": True,
                       "size": [w + bw, h],
                       "ops": [["render", w + bw, h], ["key", "down"], ["render", w + bw, h], ["setpos", 3], ["render", w + bw, h],
                               ["render", w + bw, rows], ["render", w + bw, rows + 1], ["render", cols + bw, rows + 2]]}
        # a cursor in a fixed canvas wider / higher than the view: every cursor cell x every position
        for cx in range(0, 7):
            for cy in range(0, 5):
                ops = []
                for p in range(0, 4):
                    ops += [["setpos", p], ["render", 4, 2]]
                ops += [["render", 9, 2], ["render", 4, 7]]
                yield {"child": {"kind": "fixed", "cols": 7, "rows": 5, "cur": [cx, cy]}, "bar": [None, [1, "right"]][(cx + cy) % 2],
                       "force": False, "focus": True, "size": [4, 2], "ops": ops}
        for _ in range(60 if tier == "quick" else 600):
            cols, rows = rng.choice([4, 6, 9, 15]), rng.choice([1, 2, 3, 5])
            w, h = rng.randrange(2, cols), rows + rng.choice([1, 2, 4])
            yield {"child": {"kind": "fixed", "cols": cols, "rows": rows}, "bar": None, "force": False, "focus": rng.random() < 0.5,
                   "size": [w, h], "ops": [["setpos", self.random_pos(rng)], ["render", w, h],
                                           ["key", rng.choice(SCROLL_KEYS)], ["render", w, h]]}

    def random_child(self, rng):
        k = rng.choice(["text", "text", "textlong", "pile", "fixed", "fixed", "flow", "flowcur", "tree"])
        if k == "tree":
            return {"kind": "tree", "tree": self.random_tree(rng) if rng.random() < 0.6 else self.random_sheet(rng)}
        if k == "text":
            return self.text_child(rng.choice([0, 1, 2, 3, 4, 5, 6, 9, 14]))
        if k == "textlong":
            return self.text_child(rng.choice([1, 2, 3, 5, 8]), long=True)
        if k == "pile":
            items = []
            for _ in range(rng.choice([1, 2, 3, 4, 6])):
                t = rng.choice(["t", "t", "e", "s", "d"])
                if t == "t":
                    items.append(["t", [f"p{len(items)}q{j}" for j in range(rng.choice([1, 1, 2, 3]))]])
                elif t == "e":
                    items.append(["e", "c", rng.choice(["", "ab", "ab\ncd\nef"]), 1])
                elif t == "s":
                    items.append(["s", "sel%d" % len(items)])
                else:
                    items.append(["d"])
            return {"kind": "pile", "items": items}
        if k == "fixed":
            spec = {"kind": "fixed", "cols": rng.choice([1, 2, 3, 4, 5, 6, 8, 12]), "rows": rng.choice([1, 2, 3, 4, 6, 9, 15]),
                    "greedy": rng.random() < 0.3}
            if rng.random() < 0.4:     # a cursor anywhere in the fixed canvas: also right of / below the view
                spec["cur"] = [rng.randrange(spec["cols"]), rng.randrange(spec["rows"])]
            return spec
        grab = rng.sample(SCROLL_KEYS + ["x", "enter"], rng.choice([0, 1, 2, 4]))
        spec = {"kind": "flow", "n": rng.choice([1, 2, 3, 5, 8, 13]), "sel": rng.random() < 0.7, "grab": sorted(grab),
                "greedy": rng.random() < 0.4}
        if k == "flowcur":
            spec["cur"] = rng.randrange(0, spec["n"])
            spec["sel"] = True
            spec["grab"] = sorted(set(grab) | set(rng.sample(["up", "down", "page up", "page down"], 2)))
        return spec

    def random_pos(self, rng):
        return rng.choice([-BIG, -1000, -9, -3, -2, -1, 0, 0, 1, 2, 3, 5, 8, 13, 1000, BIG, rng.randrange(-20, 20)])

    def random_case(self, rng):
        child = self.random_child(rng)
        bar = rng.choice([None, [1, "right"], [1, "left"], [2, "right"], [3, "left"], [0, "right"], [-2, "left"]])
        bw = max(1, bar[0]) if bar else 0
        def size():
            return [rng.choice([bw + 1, bw + 2, bw + 3, bw + 5, bw + 9]), rng.choice([1, 1, 2, 3, 4, 5, 7])]
        sz = size()
        ops = []
        if rng.random() < 0.3:
            ops.append(["setpos", self.random_pos(rng)])
        ops.append(["render"] + sz)
        for _ in range(rng.choice([1, 2, 3, 5, 8])):
            c = rng.random()
            if c < 0.45:
                ops.append(["key", rng.choice(SCROLL_KEYS + SCROLL_KEYS + ["x", "enter", "left", "tab"])])
            elif c < 0.6:
                ops.append(["mouse", rng.choice([4, 5, 4, 5, 1]), rng.randrange(0, sz[0]), rng.randrange(0, sz[1])])
            elif c < 0.75:
                ops.append(["setpos", self.random_pos(rng)])
            elif c < 0.85:
                sz = size()
            elif c < 0.93 and child["kind"] in ("text", "fixed", "flow"):
                if child["kind"] == "text":
                    ops.append(["content", self.text_child(rng.choice([0, 1, 2, 4, 7, 12]), long="w0" in "".join(child["lines"]))])
                elif child["kind"] == "fixed":
                    ops.append(["content", {"kind": "fixed", "cols": rng.choice([1, 3, 5, 9]), "rows": rng.choice([1, 2, 5, 11])}])
                else:
                    ops.append(["content", {"kind": "flow", "n": rng.choice([1, 2, 4, 9])}])
            if rng.random() < 0.75:
                ops.append(["render"] + sz)
        ops.append(["render"] + sz)
        return {"child": child, "bar": bar, "force": rng.random() < 0.15, "focus": rng.random() < 0.8,
                "size": sz, "ops": ops}

    def random_listbox(self, rng):
        items = [rng.choice([1, 1, 2, 3]) for _ in range(rng.choice([1, 2, 3, 5, 8, 13]))]
        width = rng.choice([1, 1, 2])
        sz = [width + rng.choice([3, 5]), rng.choice([1, 2, 3, 5, 8])]
        ops = [["render"] + sz]
        for _ in range(rng.choice([1, 2, 4, 6])):
            if rng.random() < 0.7:
                ops.append(["key", rng.choice(["up", "down", "down", "down", "page up", "page down", "home", "end"])])
            else:
                ops.append(["mouse", rng.choice([4, 5]), 0, 0])
            ops.append(["render"] + sz)
        return {"kind": "listbox", "items": items, "sel": rng.random() < 0.5, "side": rng.choice(["left", "right"]),
                "width": width, "size": sz, "ops": ops}

    def search_cases(self, rng, tier):
        for total in range(0, 10):
            for h in range(1, 7):
                for init in range(-11, 12):
                    for e in self.EVENTS:
                        yield self.sweep_case(total, h, init, (e,), [1, "right"] if (total + h + init) % 2 else None)
        while True:
            yield self.random_case(rng)

    # ------------------------------------------------------------------ not case-shaped
    def extra_checks(self, tier, rng, ev):
        """The copied thumb arithmetic (py_thumb, used for heights too tall to render) must still be what the source says."""
        import ast
        import os
        src = open(os.path.join(core.REPO, "urwid/widget/scrollable.py")).read()
        want = [
            "thumb_weight = min(1.0, maxrow / max(1, ow_rows_max))",
            "thumb_height = max(1, round(thumb_weight * maxrow))",
            "top_weight = float(pos) / max(1, posmax)",
            "top_height = int((maxrow - thumb_height) * top_weight)",
            "if top_height == 0 and top_weight > 0:\n    top_height = min(1, maxrow - thumb_height)",
            "bottom_height = maxrow - thumb_height - top_height",
        ]
        cls = next(n for n in ast.walk(ast.parse(src)) if isinstance(n, ast.ClassDef) and n.name == "ScrollBar")
        fn = next(n for n in cls.body if isinstance(n, ast.FunctionDef) and n.name == "render")
        have = {ast.unparse(n) for n in ast.walk(fn) if isinstance(n, (ast.Assign, ast.If))}
        missing = [w for w in want if w not in have]
        ev["dist"]["thumb-arithmetic-lines-in-source"] = len(want) - len(missing)
        if missing:
            # the arithmetic changed: the tall-height sub-check no longer mirrors the source; rendered checks still apply
            ev["dist"]["thumb-arithmetic-lines-changed"] = len(missing)
        return []


CHECK = C20
